#!/usr/bin/env python3
"""Writes /verif/MANIFEST.json from the table below (kept next to the checks so they stay in step)."""
import json, os

ROOT = os.path.dirname(os.path.dirname(os.path.abspath(__file__)))

SEM_NOTE = ("Trusted base: the harness's reference model (internal/model, three-valued, DontCare zones of DESIGN.md §3), "
            "Go toolchain, encoding/json / yaml.v3 / mapstructure as installed. Known findings (KNOWN_FINDINGS.txt) are "
            "suppressed only when their defect model reproduces the observed verdict or value. Exploration: a defect "
            "needing a feature combination outside the generated strata is missed.")

CHECKS = {
 "C02": dict(cat="exploration", tech="runtime monitor: compiled generated code executed on model-valid documents; offline checker compares event log (verdict, re-marshalled value by pointer and by value, additional-properties map) with a reference model",
   text="Held on every execution observed: several thousand valid-by-construction documents (boundary-seeking, minimal/maximal/random, nested, additional keys, formats) per run are decoded by freshly generated and compiled code; each must be accepted and re-marshal path-wise equal to the input. Reaches what goldens cannot because the generated code is actually run on generated inputs.", ref="§4 C02"),
 "C03": dict(cat="exploration", tech="runtime monitor: single type-fault mutants and nulls executed against compiled generated code, verdict vs reference model",
   text="Held on every execution observed: for each typed position of valid documents the value is replaced by values of every other JSON type (1.5 for integer) and by null where allowed; generated code must reject resp. accept-as-nil.", ref="§4 C03"),
 "C04": dict(cat="exploration", tech="runtime monitor: required-key deletion mutants (singles and subsets) executed against compiled generated code, verdict vs reference model",
   text="Held on every execution observed: every required key (and every subset of <=4) removed at root/nested/array-element/$ref/allOf/anyOf positions must be rejected; optional deletions and nulls at nullable keys must stay accepted.", ref="§4 C04"),
 "C05": dict(cat="exploration", tech="runtime monitors: (a) function-boundary invariant on the real NormalizeBounds, exhaustive over keyword patterns x grid constants; (b) boundary documents executed against compiled generated code, verdict vs reference model",
   text="(a) every presence/kind pattern and order type of the four bound keywords over a constant grid is sent to the real NormalizeBounds and the returned interval is compared semantically with the intersection of the stated bounds on probe values (exhaustive for that abstraction); (b) generated code for all 2x2x4x4 keyword patterns x {integer, number} x {required, optional, nullable, definition} plus random numeric schemas is executed on values on/next to/between the bounds.", ref="§4 C05"),
 "C06": dict(cat="exploration", tech="runtime monitor: boundary-length and pattern strings (ASCII and multi-byte) executed against compiled generated code, verdict vs reference model",
   text="Held on every execution observed, for all combinations of minLength/maxLength/pattern at required/optional/nullable/definition/item positions; the recorded byte-length defect is recognised only through its defect model, so a new off-by-one is still reported.", ref="§4 C06"),
 "C07": dict(cat="exploration", tech="runtime monitor: per-level array length mutants and element faults executed against compiled generated code, verdict vs reference model",
   text="Held on every execution observed for arrays nested 1-3 deep with independent limits per level; recorded defects (outer limits reused, inline item rules, named array types) are recognised only through their defect models.", ref="§4 C07"),
 "C08": dict(cat="exploration", tech="runtime monitor: enum members / near-miss non-members executed against compiled generated code (verdict, re-marshal by pointer and by value) + go/types census of constants",
   text="Held on every execution observed for enum lists of every value kind, typed/untyped, inline/$ref/items/default; plus a census of the emitted constants of string enums.", ref="§4 C08"),
 "C09": dict(cat="exploration", tech="runtime monitor: documents with defaulted keys absent/null/zero/other executed against compiled generated code; decoded value vs default",
   text="Held on every execution observed: absent or null => decoded field equals the default, present (including zero values) => document value kept.", ref="§4 C09"),
}

CHECKS.update({
 "C01": dict(cat="exploration", tech="runtime monitor over real CLI runs: stderr fallback-warning monitor + go/parser + gofmt fixpoint + go/types (real export data) + build-constraint scan on the emitted bytes; sample cross-checked with go build; known defects attributed by trigger + neutraliser re-run",
   text="Held on every successful generator run observed (about 1 000 quick / 22 000 thorough schemas x random option sets, hostile descriptions/titles/names, extension objects): every emitted file parses, is a gofmt fixpoint, type-checks against exactly its own imports and carries no build constraint. A diagnostic is attributed to a recorded finding only if neutralising that finding's trigger in the input makes the re-run clean.", ref="§4 C01",
   note="Trusted base: go/parser, go/format, go/types and go build of the installed toolchain (the same that builds the CLI). Generator refusals are counted, not judged (C18). Exploration: feature combinations outside the generated space are missed."),
 "C11": dict(cat="exploration", tech="runtime monitor: one document per subset of satisfied branches executed against compiled generated code, verdict and round trip vs reference model",
   text="Held on every execution observed: allOf/anyOf of 1-4 object branches (inline/$ref) x every subset of satisfied branches; allOf accepts iff all, anyOf iff at least one; the all-branches document round-trips every branch's properties.", ref="§4 C11"),
 "C17": dict(cat="exploration", tech="differential runtime monitor: the same document decoded by json.Unmarshal and yaml.Unmarshal (same text and block-style rendering) into the same generated type; verdict and re-marshalled value compared",
   text="Held on every execution observed: valid and single-fault (required/bound/multipleOf/length/pattern/string-enum) documents get identical verdicts and identical decoded values through both paths; divergences are attributed to a recorded finding only when both paths follow their own defect-model prediction.", ref="§4 C17"),
})

CHECKS.update({
 "C15": dict(cat="exploration", tech="differential runtime monitor: the same integer schema generated with and without --min-sized-ints, both compiled programs executed on the same boundary documents and judged against the reference model; go/ast census of the chosen field types",
   text="Held on every execution observed: integer schemas with bounds on/next to the 8/16/32/64-bit limits (boolean and numeric exclusive forms, one- and two-sided) generated flag-off and flag-on; both programs run on values on and next to every bound and type limit and must give the model's verdict and the same decoded value; census: the chosen type contains every admitted integer and no narrower sized type does.", ref="§4 C15"),
 "C19": dict(cat="exploration", tech="runtime monitor over an event log: recover() around every call, BEGIN/END records (a missing END = fatal), reflect.DeepEqual of the destination against an independent snapshot after a failed call; a share under the Go race detector",
   text="Held on every execution observed (>100 000 calls per quick run): every generated type with an unmarshal method x valid documents, single-fault mutants, truncations, byte mutations, all top-level kinds, 10^4-deep nesting, huge numbers, invalid UTF-8, YAML-specific inputs x {json.Unmarshal, direct method call, yaml.Unmarshal} x {zero, previously decoded} destination: no panic/fatal, destination unchanged after an error.", ref="§4 C19",
   note="Trusted base: the driver's recover()/snapshot logic, reflect.DeepEqual, the Go race detector. Only types that have a generated method are judged for 'unchanged on error'. The recorded panic (null into a struct with typed additionalProperties) is recognised by its exact message on a document containing null."),
})

CHECKS.update({
 "C12": dict(cat="exploration", tech="relational runtime monitor over real CLI runs: output fingerprints across repeated processes, key-order permutations, relocation; concurrent independent Generators under the Go race detector",
   text="Held on every execution observed: per case 8 (thorough 32) separate processes, 4 (16) key-order permutations of every object of the input, one relocated run and 24 goroutine-runs of independent Generators in one -race process must all produce byte-identical files, names, stdout and exit status; cases have >=10 members per map, several mapping flags and names that tie under coarser comparisons.", ref="§4 C12",
   note="Trusted base: SHA-256 fingerprints of the sandbox tree, the Go race detector. Map-order leaks are detected probabilistically (a two-way leak escapes N runs with probability 2^-(N-1))."),
 "C13": dict(cat="exploration", tech="relational runtime monitor over real CLI runs: byte comparison of the outputs for re-spelled renderings of the same schema AST",
   text="Held on every execution observed: each schema is rendered in a base spelling and in sampled combinations of JSON / three YAML styles (incl. unquoted numeric/boolean-looking keys) x $id/id x $defs/definitions x pointer prefix (any letter case) x type string/list x {}/true x dependentSchemas/dependencies; all CLI outputs must be byte-identical to the base's (the output is made to depend on the id through --schema-root-type).", ref="§4 C13",
   note="Trusted base: the harness's YAML writer (JSON-style double-quoted scalars; bare form only for plain-safe or canonical numeric/boolean keys). dependentSchemas/dependencies have no effect on generation, so a broken fallback there is unobservable."),
})

CHECKS.update({
 "C14": dict(cat="exploration", tech="runtime monitors: (a) function-boundary invariant on the real Identifierize/IdentifierFromFileName, enumerated over a character-class alphabet; (b) go/ast census of emitted fields/tags + binding round trip of compiled generated code",
   text="(a) every string of length <= 3 (thorough 4) over one representative per Unicode character class x capitalization lists (incl. lower-case-initial entries) and file-name forms is sent to the real function; the result must be a valid exported Go identifier (exhaustive for that abstraction). (b) schemas whose sibling names, definition names, titles and file names collide after normalisation: fields distinct and exported, each tag carries exactly a property name, and documents with a value per key come back with every value under its own key.", ref="§4 C14"),
 "C16": dict(cat="exploration", tech="relational runtime monitor over real CLI runs: go/ast-level comparison of the outputs of option sets that differ in exactly one option (plus go/types on the --only-models output)",
   text="Held on every pair observed: random schemas x a random base option set x its six one-option neighbours; only-models => same type declarations, no func/var, still type-checks; tags => identical after erasing tags, tag keys = requested keys in order with one common value; naming options => identical declaration multiset after masking package-local identifiers; extra-imports => with-flag output minus YAML methods/import equals the without-flag output.", ref="§4 C16",
   note="Trusted base: go/parser, go/printer, go/scanner, go/types. Constants of string enums are not counted as 'functions, methods or variables'. JSON behaviour with/without --extra-imports is covered by declaration equality (the JSON methods are textually identical)."),
})

CHECKS.update({
 "C18": dict(cat="fault_enumeration", tech="process monitor over real CLI runs under enumerated faults: exit status, stdout, stderr, tree snapshot before/after (outputs pre-seeded with sentinels), CPU rlimit; strace syscall-fault injection; in-process DoFile+Sources under recover",
   text="Every fault kind (unknown type, $ref to missing definition/file/unsupported scheme/non-definition pointer/missing definition in another file/unparsable file, empty enum, non-primitive enum values, integer enum with string, null subschema) is injected at sampled property/items/definition positions at any depth (and, enumerated, 1-48 levels below the root along property / items / map-value / alternating chains, from the root, a definition and composition members) (also inside allOf/anyOf branches, JSON and YAML, file and stdout output) of random valid schemas whose base run is accepted; plus byte-level faults, malformed flags, bad files, strace-injected write errors and the in-process twin. A must-fail run has to exit non-zero with a diagnostic, print nothing on stdout and create/modify/remove nothing; no run may panic, die by signal or hit the CPU limit.", ref="§4 C18",
   note="Trusted base: the tree snapshot (SHA-256), os/exec process state, strace. Faults are sampled per base schema, not exhaustively enumerated over all positions; 'must fail' for byte-level faults only when an independent decoder cannot decode a first JSON value. Runs as root, so permission faults are replaced by directory/symlink inputs and strace EACCES."),
})

CHECKS.update({
 "C10": dict(cat="exploration", tech="relational runtime monitor: reference form (same-file definitions, or chains of sibling files over directory layouts) vs inlined twin, both compiled and executed on the same documents and judged against the reference model; go/ast type-sharing census; recursion depth sweep",
   text="Held on every execution observed: ref-heavy schemas in REF form (definitions in the file, or factored into chains of .json/.yaml files with ./, file:// and extension-less spellings, run from other working directories or by absolute path) and as INLINED twin give the model's verdict and decoded value on the same valid and single-fault documents; a REF form refused while its twin is generated is reported; referrers of one definition share one Go type; list/tree/mutual recursion generates and decodes documents 1..64 deep with a fault only at the deepest level; file cycles over definitions and one file reached under several spellings of its path (with decoy files in the working directory) resolve every relative reference against the document it is written in and yield one Go type per file.", ref="§4 C10"),
 "C20": dict(cat="exploration", tech="runtime monitor over real CLI runs inside a Go module: file/package/declaration census (go/ast), go build of all emitted packages, and history relations (argument permutations, unrelated extra files) compared declaration by declaration",
   text="Held on every run observed: sets of 1-4 schema files with cross references x id/package/output/root-type mappings; every schema's root type and definitions are declared exactly once in the mapped file and package, the emitted module builds, and every permutation of the arguments as well as adding unrelated schema files (front/middle/end) leaves every original declaration unchanged; several files under one $id, several mapped ids in one output and type-less referenced roots are declared once (no numbered copies).", ref="§4 C20",
   note="Trusted base: go/parser, go/printer, go build. Unrelated and original schemas use disjoint type names (same-package name collisions necessarily give order-dependent suffixes, DESIGN §3.11); a package mapping always comes with an output mapping; package graphs are kept acyclic (Go forbids import cycles). Files are compared declaration by declaration: the order of declarations inside a file shared by several schemas follows processing order and is not part of the statement."),
})

NOT_YET = {}

def main():
    props = [json.loads(l)["id"] for l in open(os.path.join(ROOT, "properties.jsonl"))]
    checks = []
    for pid in props:
        c = CHECKS.get(pid)
        if not c:
            continue
        checks.append({
            "property_id": pid,
            "quick_cmd": f"bin/verif check {pid} --tier quick",
            "thorough_cmd": f"bin/verif check {pid} --tier thorough",
            "evidence_file": f"/verif/evidence/{pid}.json",
            "replay_cmd_template": "cat {path}",
            "engine": c.get("engine", "verif"),
            "level_claimed": {"category": c["cat"], "text": c["text"], "design_ref": c["ref"]},
            "level_note": c.get("note", SEM_NOTE),
            "technique": c["tech"],
        })
    na = [{"property_id": p, "reason": NOT_YET.get(p, "check not built yet (work in progress; see DESIGN.md §4 for the planned runtime monitor)")} for p in props if p not in CHECKS]
    m = {
        "version": 1,
        "setup_cmd": "cd /verif && GOFLAGS=-mod=mod GOPROXY=off GOSUMDB=off GOTOOLCHAIN=local go build -o bin/verif ./cmd/verif",
        "hooks": {
            "guard": "verif",
            "enable": "every check rsyncs /repo's working tree to a private scratch directory and builds it there with `-tags verif` (GOWORK=off GOFLAGS=-mod=mod); no hook commit was needed: all observation points are reachable from outside",
            "baseline_off_cmd": "sh /verif/scripts/baseline_off.sh",
            "source_commits": [],
            "add_only": True,
        },
        "engines": [
            {"name": "verif", "path": "/verif/cmd/verif", "serves_properties": [c["property_id"] for c in checks],
             "kind_free_text": "Go harness: stages /repo, builds the real CLI, generates schemas/documents from a seeded PRNG, compiles and executes generated code in child processes, decides recorded event logs offline against a reference model"},
        ],
        "checks": checks,
        "not_applicable": na,
        "notes": "Exit codes: 0 held, 1 violation (VIOLATION lines), 2 inconclusive (INCONCLUSIVE line). VERIF_SEED reseeds every PRNG; VERIF_TIER or --tier selects quick/thorough. Known findings: /verif/KNOWN_FINDINGS.txt.",
    }
    json.dump(m, open(os.path.join(ROOT, "MANIFEST.json"), "w"), indent=1)
    print("checks:", [c["property_id"] for c in checks], "not_applicable:", [n["property_id"] for n in na])

if __name__ == "__main__":
    main()
