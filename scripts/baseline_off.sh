#!/bin/sh
# Runs the repository's own test suite (guard OFF: no -tags verif) on a scratch copy of /repo's working tree,
# the same way the pinned baseline does (workspace mode, one go test per module). Prints go test -json to stdout.
set -u
REPO=${VERIF_REPO:-/repo}
S=$(mktemp -d "${TMPDIR:-/tmp}/verif-baseline-XXXXXX")
trap 'chmod -R u+w "$S" 2>/dev/null; rm -rf "$S"' EXIT INT TERM
rsync -a --exclude .git "$REPO"/ "$S"/repo/
unset GOFLAGS GOWORK
export GOPROXY=off GOSUMDB=off GOTOOLCHAIN=local
rc=0
for m in . ./tests; do
  [ -d "$S/repo/$m" ] || continue
  (cd "$S/repo/$m" && go test -json -vet=off -count=1 -timeout 25m ./...) || rc=1
done
exit $rc
