#!/bin/sh
# Human summary of the baseline run: counts pass/fail test events.
sh "$(dirname "$0")/baseline_off.sh" > /tmp/verif-baseline.$$.json 2>/tmp/verif-baseline.$$.err; rc=$?
python3 - /tmp/verif-baseline.$$.json <<'PY'
import json,sys
p=f=0; fails=[]
for l in open(sys.argv[1]):
    try: e=json.loads(l)
    except Exception: continue
    if e.get('Test') and e.get('Action')=='pass': p+=1
    if e.get('Test') and e.get('Action')=='fail': f+=1; fails.append(e['Package']+'::'+e['Test'])
print('pass',p,'fail',f); [print(' FAIL',x) for x in fails[:20]]
PY
rm -f /tmp/verif-baseline.$$.json /tmp/verif-baseline.$$.err
exit $rc
