#!/bin/sh
# usage: seedregress.sh [name-glob]  -- re-applies every archived seeded change to a fresh worktree of /repo HEAD and runs
# the checks recorded as detecting it (meta.json confirmed.detected_by); prints one line per (change, check).
# A line "MISSED" means a check that used to catch the change no longer does.
pat=${1:-*}
rc=0
for d in /verif/seeded/$pat/; do
  [ -f "$d/patch.diff" ] || continue
  name=$(basename "$d")
  ids=$(python3 -c "import json,sys; print(' '.join(json.load(open(sys.argv[1]))['confirmed']['detected_by']))" "$d/meta.json" 2>/dev/null)
  WT=$(mktemp -d /tmp/verif-regr-XXXXXX)
  git -C /repo worktree add -q --detach "$WT" HEAD || { echo "$name: worktree failed"; rc=1; continue; }
  if ! git -C "$WT" apply "$d/patch.diff" 2>/dev/null; then
    echo "$name: PATCH DOES NOT APPLY to HEAD"; rc=1
  else
    for id in $ids; do
      out=$(VERIF_REPO=$WT VERIF_EVIDENCE_DIR=$WT.evidence /verif/bin/verif check $id 2>&1)
      if echo "$out" | grep -q "^VIOLATION property=$id"; then echo "$name: $id caught"; else echo "$name: $id MISSED ($(echo "$out" | grep -v KNOWN-FINDING | tail -1 | cut -c1-120))"; rc=1; fi
    done
  fi
  git -C /repo worktree remove --force "$WT" 2>/dev/null; rm -rf "$WT" "$WT.evidence"
done
rm -rf /tmp/replay
exit $rc
