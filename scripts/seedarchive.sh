#!/bin/sh
# usage: seedarchive.sh <ID> <name> "<detected-by checks>" "<note>"   -- copies a confirmed seeded change from /tmp/seed/<ID> to /verif/seeded/<name>
ID=$1; NAME=$2; DET=$3; NOTE=$4
SRC=${SEEDROOT:-/tmp/seed}/$ID; DST=/verif/seeded/$NAME
mkdir -p $DST/demo
cp $SRC/patch.diff $DST/patch.diff
( cd $SRC/demo && find . -maxdepth 5 -type f ! -name gjs ! -path './work/*' ! -name '*.exe' -size -200k | while read f; do mkdir -p "$DST/demo/$(dirname $f)"; cp "$f" "$DST/demo/$f"; done )
python3 - "$SRC/meta.json" "$DST/meta.json" "$ID" "$DET" "$NOTE" <<'PY'
import json,sys
src,dst,pid,det,note=sys.argv[1:6]
try: m=json.load(open(src))
except Exception as e: m={"property":pid,"summary":"(agent meta.json unreadable: %s)"%e}
m["property"]=pid
m["confirmed"]={"suite_with_change":"204 pass / 0 fail (scripts/suite_summary.sh with VERIF_REPO=<worktree with patch>)",
 "demo":"demo/run.sh exits 1 with the change and 0 without it (re-run by scripts/seedcheck.sh)",
 "detected_by":det.split(), "note":note,
 "how_run":"scripts/seedcheck.sh <seed root>/%s \"%s\"  (fresh worktree of /repo HEAD + git apply patch.diff; VERIF_REPO=<worktree> bin/verif check <id>)"%(pid,det)}
json.dump(m,open(dst,"w"),indent=1)
PY
echo archived $DST
