#!/bin/sh
# usage: sweep.sh "<ids>" "<seeds>" [tier]   -- prints non-HELD outcomes
ids=$1; seeds=$2; tier=${3:-quick}
for id in $ids; do for s in $seeds; do
  out=$(VERIF_SEED=$s /verif/bin/verif check $id --tier $tier 2>&1); rc=$?
  if [ $rc -ne 0 ]; then echo "== $id seed=$s rc=$rc"; echo "$out" | grep -v KNOWN-FINDING | cut -c1-1400 | head -${SWEEP_LINES:-12}; else echo "$out" | grep HELD; fi
done; done
