#!/bin/sh
# usage: seedbuildcheck.sh [glob]  -- every archived seeded change must still apply to /repo HEAD and compile there
# (a change that no longer compiles proves nothing: its check would end inconclusive, and seedregress reports MISSED)
pat=${1:-*}; rc=0
WT=$(mktemp -d /tmp/verif-sbc-XXXXXX)
git -C /repo worktree add -q --detach "$WT" HEAD || exit 3
for d in /verif/seeded/$pat/; do
  [ -f "$d/patch.diff" ] || continue
  if ! git -C "$WT" apply "$d/patch.diff" 2>/dev/null; then echo "$(basename $d): DOES NOT APPLY"; rc=1; git -C "$WT" checkout -q -- .; git -C "$WT" clean -qfd; continue; fi
  if ! (cd "$WT" && GOWORK=off GOFLAGS=-mod=mod GOPROXY=off GOSUMDB=off GOTOOLCHAIN=local go build ./... 2>&1 | head -3 | grep -q .); then :; else echo "$(basename $d): DOES NOT BUILD"; rc=1; fi
  git -C "$WT" checkout -q -- .; git -C "$WT" clean -qfd
done
git -C /repo worktree remove --force "$WT"; exit $rc
