#!/bin/sh
# usage: seedcheck.sh <seed dir> "<check ids>"  -- confirms a seeded change (suite green, demo red/green) and runs checks against it
SD=$1; ids=$2
[ -f "$SD/patch.diff" ] || { echo "no patch in $SD"; exit 3; }
WT=$(mktemp -d /tmp/verif-seed-XXXXXX)
git -C /repo worktree add -q --detach "$WT" HEAD || exit 3
trap 'git -C /repo worktree remove --force "$WT" 2>/dev/null; rm -rf "$WT" "$WT.evidence" "$WT.demo.out"' EXIT
git -C "$WT" apply "$SD/patch.diff" || { echo "PATCH DOES NOT APPLY"; exit 3; }
echo "--- patch: $(git -C "$WT" diff --stat | tail -1)"
echo "--- suite with the change:"; VERIF_REPO=$WT sh /verif/scripts/suite_summary.sh
if [ -z "${SKIP_DEMO:-}" ] && [ -f "$SD/demo/run.sh" ]; then
  # demo scripts refer to their own worktree path; run them there. The worktree is first put into exactly the state
  # "HEAD + patch.diff" (never git stash: the stash is shared by all worktrees of a repository).
  O=$(dirname "$SD/demo")
  if git -C "$O" rev-parse --git-dir >/dev/null 2>&1 && [ "$(git -C "$O" rev-parse --show-toplevel)" = "$O" ]; then
    (cd "$O" && git checkout -q -- . && git apply patch.diff && sh demo/run.sh >$WT.demo.out 2>&1; echo "--- demo WITH change: exit $?"; tail -3 $WT.demo.out)
    (cd "$O" && git checkout -q -- . && sh demo/run.sh >$WT.demo.out 2>&1; echo "--- demo WITHOUT change: exit $?"; tail -2 $WT.demo.out; git checkout -q -- . ; git apply patch.diff)
  fi
fi
for id in $ids; do
  echo "--- check $id against the change:"
  VERIF_REPO=$WT VERIF_EVIDENCE_DIR=$WT.evidence /verif/bin/verif check $id ${TIER:+--tier $TIER} 2>&1 | grep -v KNOWN-FINDING | cut -c1-500 | head -${SEED_LINES:-5}
done
