#!/bin/sh
# usage: mutrun.sh "<ids>" <<< patch   (or MUT_SED='file:::sed-expr')  -- applies a mutation to a scratch worktree of /repo and runs checks against it
ids=$1
WT=$(mktemp -d /tmp/verif-wt-XXXXXX)
git -C /repo worktree add -q --detach "$WT" HEAD || exit 3
trap 'git -C /repo worktree remove --force "$WT" 2>/dev/null; rm -rf "$WT"' EXIT
if [ -n "${MUT_SED:-}" ]; then
  f=${MUT_SED%%:::*}; e=${MUT_SED#*:::}
  sed -i "$e" "$WT/$f" || exit 3
else
  git -C "$WT" apply - || { echo "patch failed"; exit 3; }
fi
git -C "$WT" diff --stat | tail -1
for id in $ids; do
  VERIF_REPO=$WT VERIF_EVIDENCE_DIR=/tmp/verif-mut-evidence /verif/bin/verif check $id 2>&1 | grep -v KNOWN-FINDING | cut -c1-600 | head -${MUT_LINES:-6}
done
rm -rf /tmp/verif-mut-evidence
