#!/bin/sh
# usage: seedregress_par.sh [name-glob] [jobs]  -- like seedregress.sh, but <jobs> archived changes at a time (default 5);
# one line per (change, check); exit 1 if any recorded detecting check misses its change.
pat=${1:-*}; jobs=${2:-5}
out=$(mktemp /tmp/verif-regr-out-XXXXXX)
ls -d /verif/seeded/$pat/ | xargs -P "$jobs" -I{} sh -c '
  d={}; [ -f "$d/patch.diff" ] || exit 0
  name=$(basename "$d")
  ids=$(python3 -c "import json,sys; print(\" \".join(json.load(open(sys.argv[1]))[\"confirmed\"][\"detected_by\"]))" "$d/meta.json" 2>/dev/null)
  WT=$(mktemp -d /tmp/verif-regr-XXXXXX)
  git -C /repo worktree add -q --detach "$WT" HEAD || { echo "$name: worktree failed"; exit 0; }
  if ! git -C "$WT" apply "$d/patch.diff" 2>/dev/null; then
    echo "$name: PATCH DOES NOT APPLY to HEAD"
  else
    for id in $ids; do
      o=$(VERIF_REPO=$WT VERIF_EVIDENCE_DIR=$WT.evidence /verif/bin/verif check $id 2>&1)
      if echo "$o" | grep -q "^VIOLATION property=$id"; then echo "$name: $id caught"; else echo "$name: $id MISSED ($(echo "$o" | grep -v KNOWN-FINDING | tail -1 | cut -c1-120))"; fi
    done
  fi
  git -C /repo worktree remove --force "$WT" 2>/dev/null; rm -rf "$WT" "$WT.evidence"
' | tee "$out"
rm -rf /tmp/replay
rc=0; grep -q "MISSED\|DOES NOT APPLY\|worktree failed" "$out" && rc=1
rm -f "$out"; exit $rc
