#!/usr/bin/env python3
"""Cross-checks verdicts of the harness's reference model against the independent `jsonschema` package.

stdin: JSON lines {"schema":..., "doc":..., "verdict":"accept"|"reject", "draft":4|7}
stdout: one JSON summary {"pairs":n,"agree":n,"disagree":[...first 20...],"skipped":n}
"""
import json, sys
try:
    import jsonschema
    from jsonschema import Draft4Validator, Draft7Validator
except Exception as e:  # pragma: no cover
    print(json.dumps({"error": "jsonschema not importable: %s" % e}))
    sys.exit(0)

pairs = agree = skipped = 0
disagree = []
cache = {}
for line in sys.stdin:
    line = line.strip()
    if not line:
        continue
    rec = json.loads(line)
    key = json.dumps(rec["schema"], sort_keys=True) + str(rec["draft"])
    v = cache.get(key)
    if v is None:
        cls = Draft4Validator if rec["draft"] == 4 else Draft7Validator
        try:
            cls.check_schema(rec["schema"])
            v = cls(rec["schema"])
        except Exception as e:
            v = False
        cache[key] = v
        if len(cache) > 5000:
            cache.clear()
    if v is False:
        skipped += 1
        continue
    try:
        ok = v.is_valid(rec["doc"])
    except Exception as e:
        skipped += 1
        continue
    pairs += 1
    if ok == (rec["verdict"] == "accept"):
        agree += 1
    elif len(disagree) < 20:
        disagree.append({"schema": rec["schema"], "doc": rec["doc"], "model": rec["verdict"], "jsonschema": "accept" if ok else "reject"})
print(json.dumps({"pairs": pairs, "agree": agree, "disagree_count": pairs - agree, "disagree": disagree, "skipped": skipped}))
