// Package evid writes /verif/evidence/<id>.json.
package evid

import (
	"encoding/json"
	"os"
	"path/filepath"
)

// Evidence follows EVIDENCE.schema.json.
type Evidence struct {
	PropertyID  string         `json:"property_id"`
	Tier        string         `json:"tier"`
	Seed        int64          `json:"seed"`
	Level       string         `json:"level"`
	Coverage    map[string]any `json:"coverage"`
	Assumptions []string       `json:"assumptions,omitempty"`
	WallS       float64        `json:"wall_s"`
	Violations  int            `json:"violations"`
}

// Dir is where evidence goes.
func Dir() string {
	if d := os.Getenv("VERIF_EVIDENCE_DIR"); d != "" {
		return d
	}
	exe, _ := os.Executable()
	d := filepath.Dir(filepath.Dir(exe))
	if _, err := os.Stat(filepath.Join(d, "MANIFEST.json")); err == nil {
		return filepath.Join(d, "evidence")
	}
	return "/verif/evidence"
}

// Write stores the evidence file.
func Write(e *Evidence) error {
	_ = os.MkdirAll(Dir(), 0o755)
	b, err := json.MarshalIndent(e, "", " ")
	if err != nil {
		return err
	}
	return os.WriteFile(filepath.Join(Dir(), e.PropertyID+".json"), append(b, '\n'), 0o644)
}

// ReplayDir is where violation witnesses are written.
func ReplayDir() string {
	d := filepath.Join(filepath.Dir(Dir()), "replay")
	_ = os.MkdirAll(d, 0o755)
	// replay material may contain emitted .go files: keep it out of the harness module
	if _, err := os.Stat(filepath.Join(d, "go.mod")); err != nil {
		_ = os.WriteFile(filepath.Join(d, "go.mod"), []byte("module replay\n\ngo 1.23.0\n"), 0o644)
	}
	return d
}
