// Package docgen produces model-directed documents: valid by construction (boundary-seeking) and
// labelled single-fault mutants. The model, not the label, is the oracle.
package docgen

import (
	"fmt"
	"math"
	"strings"

	"verif/internal/jsonx"
	"verif/internal/model"
	"verif/internal/sg"
)

// Doc is one generated document.
type Doc struct {
	V     any
	Class string // valid, type, nullok, bound, string, items, enum, required, delopt, addkey, default
	Label string
	Path  string
	// Stated is the verdict ("accept" / "reject") the author of a hand-built stratum reads off the schema for a
	// document in a zone where the reference model abstains; it is consulted only when the model has no opinion.
	Stated string
}

// G generates documents.
type G struct {
	R         *sg.Rng
	NoMulti   bool // no multi-byte strings
	YAMLSafe  bool // avoid scalars that YAML would read differently from JSON
	IntLimits bool // valid integers also drawn from the 8/16/32/64-bit limits
	seq       int
}

// pools -------------------------------------------------------------------------------------

func rep(s string, n int) string {
	if n <= 0 {
		return ""
	}
	return strings.Repeat(s, n)
}

// StrCandidates returns candidate strings for a string schema (valid and invalid mixed).
func (g *G) StrCandidates(s *sg.Schema) []string {
	var out []string
	add := func(x string) { out = append(out, x) }
	lens := map[int]bool{0: true, 1: true, 2: true, 3: true, 5: true, 8: true}
	for _, b := range []int{s.MinLen, s.MaxLen} {
		if b != 0 {
			lens[b-1], lens[b], lens[b+1] = true, true, true
		}
	}
	for n := range lens {
		if n < 0 {
			continue
		}
		add(rep("a", n))
		add(variedASCII(n, g.seq))
		if !g.NoMulti {
			add(rep("é", n))
			add(rep("日", n))
			add(rep("😀", n))
			if n >= 2 {
				add("a" + rep("é", n-2) + "z")
			}
		}
		// pattern-shaped strings of length n
		if n >= 1 {
			add("A" + rep("b", n-1))
			add(rep("x", n-1) + "7")
			add(rep("a", n-1) + "b")
		}
		if n >= 2 {
			add("a" + rep("m", n-2) + "z")
		}
		if n >= 2 && n <= 4 {
			add(rep("4", n))
		}
		if n >= 3 {
			add("foo" + rep("x", n-3))
			add("bar" + rep("y", n-3))
			add(rep("1", n-2) + "-a")
			add(rep("u", n-2) + "@d")
		}
	}
	add("a b")
	add(`q"t`)
	add("l\nf")
	add("Zz")
	add("12")
	add("x-1")
	return dedupS(out)
}

func variedASCII(n, seq int) string {
	b := make([]byte, n)
	for i := range b {
		b[i] = byte('a' + (i*7+seq*3)%26)
	}
	return string(b)
}

func dedupS(in []string) []string {
	seen := map[string]bool{}
	var out []string
	for _, s := range in {
		if !seen[s] {
			seen[s] = true
			out = append(out, s)
		}
	}
	return out
}

var bigInts = []string{"9223372036854775807", "-9223372036854775808", "9223372036854775806", "-9223372036854775807"}

// NumCandidates returns candidate numbers for a numeric schema (valid and invalid mixed).
func (g *G) NumCandidates(s *sg.Schema, isInt bool, intLimits bool) []jsonx.Num {
	var fs []float64
	add := func(f float64) { fs = append(fs, f) }
	var bs []float64
	if s.Min != nil {
		bs = append(bs, *s.Min)
	}
	if s.Max != nil {
		bs = append(bs, *s.Max)
	}
	if f, ok := s.ExMin.(float64); ok {
		bs = append(bs, f)
	}
	if f, ok := s.ExMax.(float64); ok {
		bs = append(bs, f)
	}
	for _, b := range bs {
		add(b)
		add(b - 1)
		add(b + 1)
		if !isInt {
			add(b - 0.5)
			add(b + 0.5)
			add(math.Nextafter(b, math.Inf(1)))
			add(math.Nextafter(b, math.Inf(-1)))
		} else if b != math.Trunc(b) {
			add(math.Floor(b))
			add(math.Ceil(b))
			add(math.Floor(b) - 1)
			add(math.Ceil(b) + 1)
		}
	}
	if len(bs) >= 2 {
		lo, hi := bs[0], bs[0]
		for _, b := range bs {
			lo, hi = math.Min(lo, b), math.Max(hi, b)
		}
		add((lo + hi) / 2)
		add(math.Floor((lo + hi) / 2))
	}
	for _, f := range []float64{0, 1, -1, 2, 3, 6, 7, 30, 100, -100} {
		add(f)
	}
	if !isInt {
		add(0.5)
		add(-2.75)
		add(1.25)
		// values a single-precision float cannot hold
		add(1234.5678)
		add(0.123456789)
		add(16777217)
		add(3.141592653589793)
	}
	if s.MultipleOf != nil {
		m := *s.MultipleOf
		for _, b := range append(bs, 0) {
			k := math.Floor(b / m)
			for d := -1.0; d <= 2; d++ {
				add((k + d) * m)
			}
		}
		add(m)
		add(2 * m)
		add(-m)
		if isInt {
			add(m + 1)
		} else {
			add(m / 2)
			add(m + 0.125)
		}
	}
	if intLimits && isInt {
		for _, f := range sg.IntLimitPool {
			if math.Abs(f) < 1e15 {
				add(f)
			}
		}
	}
	seen := map[string]bool{}
	var out []jsonx.Num
	for _, f := range fs {
		if isInt && f != math.Trunc(f) {
			continue
		}
		if math.IsInf(f, 0) || math.IsNaN(f) {
			continue
		}
		if math.Abs(f) >= 9.2e18 {
			continue
		}
		n := jsonx.F(f)
		if f == 0 {
			n = "0"
		}
		if !seen[string(n)] {
			seen[string(n)] = true
			out = append(out, n)
		}
	}
	if isInt {
		big := false
		for _, b := range bs {
			if math.Abs(b) > 1e15 {
				big = true
			}
		}
		if big || intLimits {
			for _, t := range bigInts {
				if !seen[t] {
					seen[t] = true
					out = append(out, jsonx.Num(t))
				}
			}
		}
	}
	return out
}

// FormatSamples gives canonical texts per format.
var FormatSamples = map[string][]string{
	"date":      {"2024-02-28", "1999-12-01", "2000-01-01", "0001-01-01", "0999-12-31", "9999-12-31", "2024-02-29"},
	"time":      {"12:34:56", "00:00:00", "23:59:59", "01:02:03"},
	"date-time": {"2024-02-28T12:34:56Z", "1999-12-01T00:00:00+02:00", "2000-01-01T23:59:59.5Z", "0001-01-01T00:00:00Z", "9999-12-31T23:59:59.999999999Z", "2024-02-29T10:11:12.123456789+14:00", "0987-06-05T04:03:02-12:00"},
	"ipv4":      {"192.168.0.1", "10.0.0.255", "0.0.0.0", "255.255.255.255"},
	"ipv6":      {"::1", "2001:db8::1", "fe80::1234:5678", "::", "ffff:ffff:ffff:ffff:ffff:ffff:ffff:ffff"},
}

// valid documents -----------------------------------------------------------------------------

// Mode of valid-document construction.
type Mode int

const (
	Random  Mode = iota
	Minimal      // required only, shortest arrays
	Maximal      // everything present, longest arrays, additional keys
)

func accepts(s *sg.Schema, v any) bool { return model.Eval(s, v, nil).V == model.Accept }

// Valid constructs a document the model accepts; ok=false when none was found.
func (g *G) Valid(s *sg.Schema, m Mode) (any, bool) {
	for try := 0; try < 6; try++ {
		g.seq++
		v, ok := g.valid(s, m, 0)
		if ok && accepts(s, v) {
			return v, true
		}
	}
	return nil, false
}

func (g *G) pickValid(s *sg.Schema, cands []any) (any, bool) {
	var ok []any
	for _, c := range cands {
		if accepts(s, c) {
			ok = append(ok, c)
		}
	}
	if len(ok) == 0 {
		return nil, false
	}
	return ok[g.R.IntN(len(ok))], true
}

func (g *G) anyValue(depth int) any {
	r := g.R
	switch r.IntN(7) {
	case 0:
		return "free" + fmt.Sprint(r.IntN(100))
	case 1:
		return jsonx.N(int64(r.IntN(1000)) - 500)
	case 2:
		return jsonx.Num("2.5")
	case 3:
		return r.Chance(0.5)
	case 4:
		if depth > 1 {
			return "deep"
		}
		return []any{g.anyValue(depth + 1), g.anyValue(depth + 1)}
	case 5:
		if depth > 1 {
			return jsonx.N(1)
		}
		return jsonx.Obj{{K: "k", V: g.anyValue(depth + 1)}}
	default:
		if g.YAMLSafe {
			return "nn"
		}
		return nil
	}
}

func (g *G) valid(s *sg.Schema, m Mode, depth int) (any, bool) {
	r := g.R
	if s == nil {
		return g.anyValue(0), true
	}
	if s.BoolForm != nil {
		return g.anyValue(0), *s.BoolForm
	}
	if s.Ref != "" {
		if s.Target == nil || depth > 12 {
			return nil, false
		}
		return g.valid(s.Target, m, depth+1)
	}
	if len(s.AnyOf) > 0 {
		b := s.AnyOf[r.IntN(len(s.AnyOf))]
		return g.valid(b, m, depth+1)
	}
	if len(s.AllOf) > 0 {
		merged := &sg.Schema{Types: []string{"object"}}
		for _, b := range s.AllOf {
			rb := b.Resolve()
			if rb == nil {
				return nil, false
			}
			for _, p := range rb.Props {
				if merged.Prop(p.Name) == nil {
					merged.Props = append(merged.Props, p)
				}
			}
			merged.Required = append(merged.Required, rb.Required...)
		}
		for _, p := range s.Props {
			if merged.Prop(p.Name) == nil {
				merged.Props = append(merged.Props, p)
			}
		}
		merged.Required = append(merged.Required, s.Required...)
		return g.valid(merged, m, depth+1)
	}
	if s.HasEnum {
		if len(s.Enum) == 0 {
			return nil, false
		}
		return g.pickValid(s, s.Enum)
	}
	t, nullable, ok := s.NonNullType()
	if len(s.Types) == 0 {
		if len(s.Props) > 0 {
			t, ok = "object", true
		} else {
			return g.anyValue(0), true
		}
	}
	if !ok {
		// multi-typed: pick the first type
		t = s.Types[0]
	}
	if nullable && t != "null" && m != Maximal && r.Chance(0.15) {
		return nil, true
	}
	switch t {
	case "null":
		return nil, true
	case "boolean":
		return r.Chance(0.5), true
	case "string":
		if fs, ok := FormatSamples[s.Format]; ok {
			return fs[r.IntN(len(fs))], true
		}
		var cs []any
		for _, c := range g.StrCandidates(s) {
			cs = append(cs, c)
		}
		return g.pickValid(&sg.Schema{Types: []string{"string"}, MinLen: s.MinLen, MaxLen: s.MaxLen, Pattern: s.Pattern}, cs)
	case "integer", "number":
		var cs []any
		for _, c := range g.NumCandidates(s, t == "integer", g.IntLimits) {
			cs = append(cs, c)
		}
		ns := *s
		ns.Types = []string{t}
		return g.pickValid(&ns, cs)
	case "array":
		n := s.MinItems
		switch m {
		case Minimal:
		case Maximal:
			if s.MaxItems != 0 {
				n = s.MaxItems
			} else {
				n = s.MinItems + 2
			}
		default:
			hi := s.MaxItems
			if hi == 0 {
				hi = s.MinItems + 2
			}
			n = s.MinItems + r.IntN(hi-s.MinItems+1)
		}
		a := make([]any, 0, n)
		for i := 0; i < n; i++ {
			e, ok := g.valid(s.Items, m, depth+1)
			if !ok {
				return nil, false
			}
			a = append(a, e)
		}
		return a, true
	case "object":
		o := jsonx.Obj{}
		if len(s.Props) == 0 {
			// map object
			n := r.IntN(3)
			if m == Minimal {
				n = 0
			}
			for i := 0; i < n; i++ {
				var v any
				if s.AddProps != nil {
					var ok bool
					if v, ok = g.valid(s.AddProps, m, depth+1); !ok {
						return nil, false
					}
				} else {
					v = g.anyValue(0)
				}
				o = append(o, jsonx.KV{K: fmt.Sprintf("mk%d", i), V: v})
			}
			return o, true
		}
		for _, p := range s.Props {
			req := s.IsRequired(p.Name) && !p.S.HasDefault
			include := req
			if !req {
				switch m {
				case Minimal:
					include = false
				case Maximal:
					include = true
				default:
					include = r.Chance(0.6)
				}
			}
			if !include {
				continue
			}
			v, ok := g.valid(p.S, m, depth+1)
			if !ok {
				if req {
					return nil, false
				}
				continue
			}
			o = append(o, jsonx.KV{K: p.Name, V: v})
		}
		if (s.AddProps != nil || (s.AddPropsBool != nil && *s.AddPropsBool)) && (m == Maximal || (m == Random && r.Chance(0.5))) {
			n := 1 + r.IntN(2)
			for i := 0; i < n; i++ {
				var v any
				if s.AddProps != nil {
					var ok bool
					if v, ok = g.valid(s.AddProps, m, depth+1); !ok {
						break
					}
				} else {
					v = g.anyValue(0)
				}
				o = append(o, jsonx.KV{K: fmt.Sprintf("zextra%d", i), V: v})
			}
		} else if s.AddProps == nil && s.AddPropsBool == nil && m == Random && r.Chance(0.15) {
			o = append(o, jsonx.KV{K: "undeclared", V: g.anyValue(1)})
		}
		return o, true
	}
	return nil, false
}

// sites -----------------------------------------------------------------------------------------

// Site is a position in a document together with the schema that governs it.
type Site struct {
	Path   []any
	S      *sg.Schema // resolved (never a bare reference)
	V      any
	Parent *sg.Schema // enclosing object/array schema (resolved)
	Key    string
	Kind   string // prop, item, addprop, root
}

// PathString renders a JSON-pointer-like path.
func PathString(p []any) string {
	var b strings.Builder
	for _, e := range p {
		fmt.Fprintf(&b, "/%v", e)
	}
	return b.String()
}

func effectiveProps(s *sg.Schema) (*sg.Schema, bool) {
	// view of an allOf/anyOf of object branches as one object (first declaration wins)
	if len(s.AllOf) == 0 && len(s.AnyOf) == 0 {
		return s, false
	}
	merged := &sg.Schema{Types: []string{"object"}}
	for _, b := range append(append([]*sg.Schema{}, s.AllOf...), s.AnyOf...) {
		rb := b.Resolve()
		if rb == nil {
			continue
		}
		for _, p := range rb.Props {
			if merged.Prop(p.Name) == nil {
				merged.Props = append(merged.Props, p)
			}
		}
	}
	return merged, true
}

// Sites enumerates positions of doc governed by s.
func Sites(s *sg.Schema, doc any) []Site {
	var out []Site
	var walk func(s *sg.Schema, v any, path []any, parent *sg.Schema, key, kind string, depth int)
	walk = func(s *sg.Schema, v any, path []any, parent *sg.Schema, key, kind string, depth int) {
		s = s.Resolve()
		if s == nil || depth > 40 {
			return
		}
		out = append(out, Site{Path: append([]any{}, path...), S: s, V: v, Parent: parent, Key: key, Kind: kind})
		view, _ := effectiveProps(s)
		switch t := v.(type) {
		case jsonx.Obj:
			for _, kv := range t {
				if p := view.Prop(kv.K); p != nil {
					walk(p, kv.V, append(path, kv.K), s, kv.K, "prop", depth+1)
				} else if s.AddProps != nil {
					walk(s.AddProps, kv.V, append(path, kv.K), s, kv.K, "addprop", depth+1)
				}
			}
		case []any:
			if s.Items != nil {
				for i, e := range t {
					walk(s.Items, e, append(path, i), s, "", "item", depth+1)
				}
			}
		}
	}
	walk(s, doc, nil, nil, "", "root", 0)
	return out
}

// Set returns a copy of doc with the value at path replaced.
func Set(doc any, path []any, v any) any {
	if len(path) == 0 {
		return v
	}
	switch t := doc.(type) {
	case jsonx.Obj:
		k := path[0].(string)
		n := make(jsonx.Obj, len(t))
		copy(n, t)
		for i := range n {
			if n[i].K == k {
				n[i].V = Set(n[i].V, path[1:], v)
				return n
			}
		}
		return n
	case []any:
		i := path[0].(int)
		n := make([]any, len(t))
		copy(n, t)
		if i < len(n) {
			n[i] = Set(n[i], path[1:], v)
		}
		return n
	}
	return doc
}

// Get fetches the value at path.
func Get(doc any, path []any) (any, bool) {
	for _, e := range path {
		switch t := doc.(type) {
		case jsonx.Obj:
			v, ok := t.Get(e.(string))
			if !ok {
				return nil, false
			}
			doc = v
		case []any:
			i := e.(int)
			if i >= len(t) {
				return nil, false
			}
			doc = t[i]
		default:
			return nil, false
		}
	}
	return doc, true
}

// DelKey returns a copy with key k removed from the object at path.
func DelKey(doc any, path []any, k string) any {
	o, ok := Get(doc, path)
	if !ok {
		return doc
	}
	obj, ok := o.(jsonx.Obj)
	if !ok {
		return doc
	}
	return Set(doc, path, obj.Del(k))
}

// mutants ---------------------------------------------------------------------------------------

// Classes selects which mutation classes to produce.
type Classes map[string]bool

// AllClasses enables everything.
var AllClasses = Classes{"type": true, "nullok": true, "bound": true, "string": true, "items": true, "enum": true, "required": true, "delopt": true, "addkey": true, "nullreq": true}

func otherTypeValues(kind string, isInt bool) []any {
	var out []any
	if kind != "boolean" {
		out = append(out, true)
	}
	if kind != "number" {
		out = append(out, jsonx.N(7))
		out = append(out, jsonx.Num("1.5"))
	} else if isInt {
		out = append(out, jsonx.Num("1.5"), jsonx.Num("-0.25"))
	}
	if kind != "string" {
		out = append(out, "str")
		out = append(out, "")
	}
	if kind != "array" {
		out = append(out, []any{}, []any{"x"})
	}
	if kind != "object" {
		out = append(out, jsonx.Obj{}, jsonx.Obj{{K: "k", V: jsonx.N(1)}})
	}
	return out
}

func jsonKindOfType(t string) string {
	if t == "integer" {
		return "number"
	}
	return t
}

// Mutants derives single-fault (and boundary-value) variants of a valid document.
// perSite bounds how many variants of one class are produced per site.
func (g *G) Mutants(root *sg.Schema, doc any, cl Classes, perSite int, intLimits bool) []Doc {
	var out []Doc
	r := g.R
	emit := func(class, label string, path []any, v any) {
		out = append(out, Doc{V: v, Class: class, Label: label, Path: PathString(path)})
	}
	sample := func(n int, k int) []int {
		if n <= k {
			idx := make([]int, n)
			for i := range idx {
				idx[i] = i
			}
			return idx
		}
		return r.Perm(n)[:k]
	}
	for _, st := range Sites(root, doc) {
		s := st.S
		t, nullable, typed := s.NonNullType()
		if s.HasEnum {
			if cl["enum"] {
				var cands []any
				cands = append(cands, s.Enum...)
				cands = append(cands, "nonmember", "RED", "re", jsonx.N(99), jsonx.Num("1.0"), jsonx.N(1), "1", true, false, jsonx.Num("0.5"), jsonx.Num("2.0"), []any{}, jsonx.Obj{})
				for _, e := range s.Enum {
					if str, ok := e.(string); ok {
						cands = append(cands, strings.ToUpper(str), str+" ", str[:len(str)/2])
					}
					if n, ok := e.(jsonx.Num); ok {
						cands = append(cands, string(n))
						if n.PlainInt() {
							cands = append(cands, jsonx.Num(string(n)+".0"), jsonx.Num(string(n)+".5"))
						}
					}
				}
				for _, i := range sample(len(cands), perSite*2) {
					if !jsonx.Equal(cands[i], st.V) {
						emit("enum", "enum-cand", st.Path, Set(doc, st.Path, cands[i]))
					}
				}
			}
			continue
		}
		if typed && t != "null" && st.V != nil {
			if cl["type"] {
				vals := otherTypeValues(jsonKindOfType(t), t == "integer")
				for _, i := range sample(len(vals), perSite) {
					emit("type", "type:"+t+"<-"+jsonx.Kind(vals[i]), st.Path, Set(doc, st.Path, vals[i]))
				}
			}
			if nullable && cl["nullok"] {
				emit("nullok", "null-at-nullable:"+t, st.Path, Set(doc, st.Path, nil))
			}
		}
		switch v := st.V.(type) {
		case jsonx.Num:
			if cl["bound"] && typed && (t == "integer" || t == "number") {
				cands := g.NumCandidates(s, t == "integer", intLimits)
				for _, i := range sample(len(cands), perSite*3) {
					if cands[i] != v {
						emit("bound", "num-cand", st.Path, Set(doc, st.Path, cands[i]))
					}
				}
			}
		case string:
			if cl["string"] && typed && t == "string" && s.Format == "" {
				cands := g.StrCandidates(s)
				for _, i := range sample(len(cands), perSite*3) {
					if cands[i] != v {
						emit("string", "str-cand", st.Path, Set(doc, st.Path, cands[i]))
					}
				}
			}
		case []any:
			if cl["items"] && s.Items != nil {
				lens := map[int]bool{}
				if s.MinItems != 0 {
					lens[s.MinItems-1], lens[s.MinItems] = true, true
				}
				if s.MaxItems != 0 {
					lens[s.MaxItems], lens[s.MaxItems+1] = true, true
				}
				lens[0] = true
				lens[len(v)+1] = true
				for n := range lens {
					if n < 0 || n == len(v) {
						continue
					}
					a := make([]any, 0, n)
					for i := 0; i < n; i++ {
						if i < len(v) {
							a = append(a, v[i])
						} else if len(v) > 0 {
							a = append(a, jsonx.Clone(v[i%len(v)]))
						} else {
							e, ok := g.valid(s.Items, Random, 0)
							if !ok {
								break
							}
							a = append(a, e)
						}
					}
					if len(a) == n {
						emit("items", fmt.Sprintf("len:%d->%d", len(v), n), st.Path, Set(doc, st.Path, a))
					}
				}
			}
		case jsonx.Obj:
			view, composed := effectiveProps(s)
			_ = composed
			if cl["required"] || cl["delopt"] {
				var reqPresent []string
				for _, kv := range v {
					p := view.Prop(kv.K)
					if p == nil {
						continue
					}
					isReq := requiredAnywhere(s, kv.K)
					if isReq && cl["required"] {
						reqPresent = append(reqPresent, kv.K)
						emit("required", "del-required", append(st.Path, kv.K), DelKey(doc, st.Path, kv.K))
					} else if !isReq && cl["delopt"] {
						emit("delopt", "del-optional", append(st.Path, kv.K), DelKey(doc, st.Path, kv.K))
					}
				}
				if cl["required"] && len(reqPresent) >= 2 && len(reqPresent) <= 4 {
					for mask := 1; mask < 1<<len(reqPresent); mask++ {
						if mask&(mask-1) == 0 {
							continue // singles done
						}
						d := doc
						for i, k := range reqPresent {
							if mask&(1<<i) != 0 {
								d = DelKey(d, st.Path, k)
							}
						}
						emit("required", "del-required-subset", st.Path, d)
					}
				}
			}
			if cl["nullreq"] {
				for _, kv := range v {
					p := view.Prop(kv.K)
					if p == nil {
						continue
					}
					rp := p.Resolve()
					if rp == nil {
						continue
					}
					if _, nl, ok := rp.NonNullType(); ok && nl && kv.V != nil {
						emit("nullok", "null-at-nullable-prop", append(st.Path, kv.K), Set(doc, append(append([]any{}, st.Path...), kv.K), nil))
					}
				}
			}
			if cl["default"] {
				for _, p := range view.Props {
					if !p.S.HasDefault {
						continue
					}
					pp := append(append([]any{}, st.Path...), p.Name)
					base := v
					if !v.Has(p.Name) {
						base = append(append(jsonx.Obj{}, v...), jsonx.KV{K: p.Name, V: nil})
					}
					withBase := Set(doc, st.Path, base)
					emit("default", "default-absent", pp, DelKey(doc, st.Path, p.Name))
					emit("default", "default-null", pp, Set(withBase, pp, nil))
					var zero any
					switch jsonx.Kind(p.S.Default) {
					case "string":
						zero = ""
					case "number":
						zero = jsonx.Num("0")
					case "boolean":
						zero = false
					case "array":
						zero = []any{}
					}
					if zero != nil {
						emit("default", "default-present-zero", pp, Set(withBase, pp, zero))
					}
					for k := 0; k < 2; k++ {
						if x, ok := g.valid(p.S, Random, 0); ok && x != nil {
							emit("default", "default-present-other", pp, Set(withBase, pp, x))
						}
					}
				}
			}
			if cl["addkey"] && len(view.Props) > 0 {
				var vals []any
				if s.AddProps != nil {
					if x, ok := g.valid(s.AddProps, Random, 0); ok {
						vals = append(vals, x)
					}
					ap := s.AddProps.Resolve()
					if ap != nil {
						if at, _, ok := ap.NonNullType(); ok {
							vals = append(vals, otherTypeValues(jsonKindOfType(at), at == "integer")...)
						}
					}
				} else {
					vals = append(vals, "extra", jsonx.N(5))
				}
				for _, i := range sample(len(vals), perSite) {
					emit("addkey", "add-undeclared", append(st.Path, "zz_added"), Set(doc, st.Path, append(append(jsonx.Obj{}, v...), jsonx.KV{K: "zz_added", V: vals[i]})))
				}
			}
		}
	}
	return out
}

func requiredAnywhere(s *sg.Schema, k string) bool {
	if s.IsRequired(k) {
		return true
	}
	for _, b := range append(append([]*sg.Schema{}, s.AllOf...), s.AnyOf...) {
		if rb := b.Resolve(); rb != nil && rb.IsRequired(k) {
			return true
		}
	}
	return false
}
