// Package cli runs the real CLI on a file set inside a fresh sandbox directory and records everything observable:
// exit status, stdout, stderr, CPU, and the directory tree before/after.
package cli

import (
	"crypto/sha256"
	"fmt"
	"os"
	"path/filepath"
	"sort"
	"strings"

	"verif/internal/batch"
	"verif/internal/stage"
)

// Inv is one invocation.
type Inv struct {
	Files  []batch.File // written into the sandbox (relative paths)
	Args   []string     // complete argv after the binary (options and inputs)
	Cwd    string       // relative to the sandbox root
	Stdin  []byte
	Seed   map[string][]byte // files pre-seeded with sentinel content (relative paths), e.g. existing outputs
	Binary string            // override the CLI binary
	Env    []string
}

// Result is what was observed.
type Result struct {
	Dir     string
	Proc    stage.ProcResult
	Before  map[string]string // path -> sha256 (files present before the run)
	After   map[string]string
	Created []string
	Changed []string
	Removed []string
}

// Out returns the content of a created/changed file.
func (r *Result) Out(rel string) []byte {
	b, _ := os.ReadFile(filepath.Join(r.Dir, rel))
	return b
}

// Outputs returns every created or changed file with its content.
func (r *Result) Outputs() map[string][]byte {
	m := map[string][]byte{}
	for _, f := range append(append([]string{}, r.Created...), r.Changed...) {
		if !strings.HasSuffix(f, "/") {
			m[f] = r.Out(f)
		}
	}
	return m
}

// Fingerprint hashes exit status, stdout and all outputs (names and bytes).
func (r *Result) Fingerprint() string {
	h := sha256.New()
	fmt.Fprintf(h, "exit=%d\n", r.Proc.Exit)
	h.Write(r.Proc.Stdout)
	outs := r.Outputs()
	var names []string
	for n := range outs {
		names = append(names, n)
	}
	sort.Strings(names)
	for _, n := range names {
		fmt.Fprintf(h, "\n--%s--\n", n)
		h.Write(outs[n])
	}
	return fmt.Sprintf("%x", h.Sum(nil))[:24]
}

func snapshot(dir string) map[string]string {
	m := map[string]string{}
	_ = filepath.Walk(dir, func(p string, info os.FileInfo, err error) error {
		if err != nil {
			return nil
		}
		rel, _ := filepath.Rel(dir, p)
		if info.IsDir() {
			if rel != "." {
				m[rel+"/"] = "dir"
			}
			return nil
		}
		if info.Mode()&os.ModeSymlink != 0 {
			t, _ := os.Readlink(p)
			m[rel] = "symlink:" + t
			return nil
		}
		b, err := os.ReadFile(p)
		if err != nil {
			m[rel] = "unreadable"
			return nil
		}
		m[rel] = fmt.Sprintf("%x", sha256.Sum256(b))
		return nil
	})
	return m
}

// Run executes the invocation in a fresh directory under the environment's scratch area.
func Run(env *batch.Env, inv *Inv) *Result {
	dir := env.St.TempDir("cli")
	return RunIn(env, dir, inv)
}

// RunIn executes the invocation in dir (created if needed).
func RunIn(env *batch.Env, dir string, inv *Inv) *Result {
	_ = os.MkdirAll(dir, 0o755)
	for _, f := range inv.Files {
		p := filepath.Join(dir, f.Path)
		_ = os.MkdirAll(filepath.Dir(p), 0o755)
		_ = os.WriteFile(p, f.Data, 0o644)
	}
	for rel, data := range inv.Seed {
		p := filepath.Join(dir, rel)
		_ = os.MkdirAll(filepath.Dir(p), 0o755)
		_ = os.WriteFile(p, data, 0o644)
	}
	cwd := filepath.Join(dir, inv.Cwd)
	_ = os.MkdirAll(cwd, 0o755)
	r := &Result{Dir: dir}
	r.Before = snapshot(dir)
	bin := inv.Binary
	if bin == "" {
		bin = env.GJS
	}
	r.Proc = stage.Run(stage.Proc{Path: bin, Args: inv.Args, Dir: cwd, Stdin: inv.Stdin, Env: inv.Env})
	r.After = snapshot(dir)
	for p, h := range r.After {
		if bh, ok := r.Before[p]; !ok {
			if !strings.HasSuffix(p, "/") {
				r.Created = append(r.Created, p)
			} else {
				r.Created = append(r.Created, p)
			}
		} else if bh != h {
			r.Changed = append(r.Changed, p)
		}
	}
	for p := range r.Before {
		if _, ok := r.After[p]; !ok {
			r.Removed = append(r.Removed, p)
		}
	}
	sort.Strings(r.Created)
	sort.Strings(r.Changed)
	sort.Strings(r.Removed)
	return r
}

// Cleanup removes the sandbox directory.
func (r *Result) Cleanup() { _ = os.RemoveAll(r.Dir) }

// Failed extracts the "Failed:" diagnostic line.
func (r *Result) Failed() string {
	for _, l := range strings.Split(string(r.Proc.Stderr), "\n") {
		if strings.Contains(l, "Failed:") {
			return l
		}
	}
	return strings.TrimSpace(string(r.Proc.Stderr))
}
