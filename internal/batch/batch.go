// Package batch generates code with the real CLI, compiles batches of generated packages with the
// static driver and executes documents against them, producing an event log.
package batch

import (
	"bufio"
	"bytes"
	"encoding/base64"
	"encoding/json"
	"fmt"
	"go/ast"
	"go/types"
	"os"
	"path/filepath"
	"regexp"
	"sort"
	"strings"
	"sync"
	"time"

	"verif/internal/drivers"
	"verif/internal/gocheck"
	"verif/internal/stage"
)

// File is one input file of a program, path relative to the program directory.
type File struct {
	Path string
	Data []byte
	Link string // when set, Path is a symbolic link to this (relative) target instead of a regular file
}

// Program is one generator invocation whose output becomes one Go package.
type Program struct {
	ID     string   // package name, e.g. p000017
	Files  []File   // schema files
	Args   []string // options (without -p / -o)
	Inputs []string // positional arguments (relative to the program dir)
	Cwd    string   // relative cwd inside the program dir ("" = program dir)

	// SubNames: further Go packages of the same generator run (sub-directories of the program's package, imported
	// packages first). Args may use the placeholders {{PKG}} (import path of the program's package) and {{OUT}} (its
	// output directory) to map schema ids to them: --schema-package=ID={{PKG}}/lib --schema-output=ID={{OUT}}/lib/gen.go
	SubNames []string
	Subs     []Sub // filled by Generate / Check

	// filled by Generate
	Dir    string
	Proc   stage.ProcResult
	Src    []byte
	Report *gocheck.Report
	Meta   any // owner-defined
}

// Sub is one further package a program's generator run emitted.
type Sub struct {
	Name   string
	Src    []byte
	Report *gocheck.Report
}

// Env is shared state for a check run.
type Env struct {
	St       *stage.Stage
	GJS      string
	Exports  *gocheck.Exports
	ModTmpl  string // directory holding go.mod/go.sum template for batch modules
	CoverDir string // GOCOVERDIR when coverage observation is on
	seq      int
	mu       sync.Mutex
}

// NewEnv stages the repo, builds the CLI and loads export data.
func NewEnv() (*Env, error) {
	st, err := stage.New()
	if err != nil {
		return nil, err
	}
	e := &Env{St: st}
	if e.GJS, err = st.BuildCLI("gjs"); err != nil {
		st.Close()
		return nil, err
	}
	e.ModTmpl = filepath.Join(st.Root, "modtmpl")
	if err := e.writeMod(e.ModTmpl, "batchtmpl"); err != nil {
		st.Close()
		return nil, err
	}
	// a file importing everything so that `go list -deps` resolves
	var b strings.Builder
	b.WriteString("package batchtmpl\nimport (\n")
	for _, p := range gocheck.StdImports {
		fmt.Fprintf(&b, "\t_ %q\n", p)
	}
	b.WriteString(")\n")
	_ = os.WriteFile(filepath.Join(e.ModTmpl, "x.go"), []byte(b.String()), 0o644)
	if e.Exports, err = gocheck.LoadExports(e.ModTmpl, gocheck.StdImports); err != nil {
		st.Close()
		return nil, err
	}
	return e, nil
}

// Close removes all scratch state.
func (e *Env) Close() { e.St.Close() }

func (e *Env) writeMod(dir, name string) error {
	if err := os.MkdirAll(dir, 0o755); err != nil {
		return err
	}
	mod := fmt.Sprintf(`module %s

go 1.23.0

require (
	github.com/atombender/go-jsonschema v0.0.0
	github.com/go-viper/mapstructure/v2 v2.1.0
	gopkg.in/yaml.v3 v3.0.1
)

replace github.com/atombender/go-jsonschema => %s
`, name, e.St.Repo)
	if err := os.WriteFile(filepath.Join(dir, "go.mod"), []byte(mod), 0o644); err != nil {
		return err
	}
	var sum []byte
	for _, f := range []string{"go.sum", "tests/go.sum"} {
		b, _ := os.ReadFile(filepath.Join(e.St.Repo, f))
		sum = append(sum, b...)
	}
	return os.WriteFile(filepath.Join(dir, "go.sum"), sum, 0o644)
}

// Generate runs the real CLI for p inside its own directory; the output file is <Dir>/out/gen.go.
func (e *Env) Generate(p *Program) {
	e.mu.Lock()
	e.seq++
	e.mu.Unlock()
	p.Dir = filepath.Join(e.St.Root, "progs", p.ID)
	_ = os.MkdirAll(filepath.Join(p.Dir, "out"), 0o755)
	for _, f := range p.Files {
		fp := filepath.Join(p.Dir, f.Path)
		_ = os.MkdirAll(filepath.Dir(fp), 0o755)
		if f.Link != "" {
			_ = os.Symlink(f.Link, fp)
			continue
		}
		_ = os.WriteFile(fp, f.Data, 0o644)
	}
	_ = os.MkdirAll(filepath.Join(p.Dir, p.Cwd), 0o755)
	outFile := filepath.Join(p.Dir, "out", "gen.go")
	args := []string{"-p", p.ID, "-o", outFile}
	for _, a := range p.Args {
		a = strings.ReplaceAll(a, "{{PKG}}", "batch/"+p.ID)
		args = append(args, strings.ReplaceAll(a, "{{OUT}}", filepath.Join(p.Dir, "out")))
	}
	args = append(args, p.Inputs...)
	p.Proc = stage.Run(stage.Proc{Path: e.GJS, Args: args, Dir: filepath.Join(p.Dir, p.Cwd)})
	p.Src, _ = os.ReadFile(outFile)
	p.Subs = nil
	for _, n := range p.SubNames {
		src, _ := os.ReadFile(filepath.Join(p.Dir, "out", n, "gen.go"))
		p.Subs = append(p.Subs, Sub{Name: n, Src: src})
	}
}

// Check runs the source oracles on the emitted file.
func (e *Env) Check(p *Program) {
	if p.Proc.Exit == 0 && p.Src != nil {
		var extra map[string]*types.Package
		if len(p.Subs) > 0 {
			// imported packages first; a second pass settles any other listing order
			extra = map[string]*types.Package{}
			for pass := 0; pass < 2; pass++ {
				for k := range p.Subs {
					sb := &p.Subs[k]
					if sb.Src == nil || (sb.Report != nil && sb.Report.OK()) {
						continue
					}
					sb.Report = e.Exports.CheckSource(sb.Name+"/gen.go", sb.Src, extra)
					if sb.Report.ParseErr == "" && len(sb.Report.TypeErrs) == 0 && sb.Report.Pkg != nil {
						extra["batch/"+p.ID+"/"+sb.Name] = sb.Report.Pkg
					}
				}
			}
		}
		p.Report = e.Exports.CheckSource("gen.go", p.Src, extra)
	}
}

// GenerateAll generates and checks programs in parallel.
func (e *Env) GenerateAll(ps []*Program) {
	stage.Parallel(len(ps), func(i int) {
		e.Generate(ps[i])
		e.Check(ps[i])
	})
}

// Usable reports whether the program produced compilable output.
func (p *Program) Usable() bool {
	for _, sb := range p.Subs {
		if sb.Src == nil || sb.Report == nil || sb.Report.ParseErr != "" || len(sb.Report.TypeErrs) > 0 {
			return false
		}
	}
	return p.Proc.Exit == 0 && p.Src != nil && p.Report != nil && p.Report.ParseErr == "" && len(p.Report.TypeErrs) == 0
}

// Cmd is one driver command.
type Cmd struct {
	ID       int    `json:"id"`
	Prog     string `json:"prog"`
	Type     string `json:"type"`
	Mode     string `json:"mode"`
	Doc      string `json:"doc"`
	Prior    string `json:"prior,omitempty"`
	HasPrior bool   `json:"hasprior,omitempty"`
}

// NewCmd builds a command.
func NewCmd(id int, prog, typ, mode string, doc []byte) Cmd {
	return Cmd{ID: id, Prog: prog, Type: typ, Mode: mode, Doc: base64.StdEncoding.EncodeToString(doc)}
}

// WithPrior sets the prior destination document.
func (c Cmd) WithPrior(doc []byte) Cmd {
	c.Prior = base64.StdEncoding.EncodeToString(doc)
	c.HasPrior = true
	return c
}

// Res is one END event (or a synthesized fatal).
type Res struct {
	E      int    `json:"e"`
	V      string `json:"v"` // ok err panic noprog nomethod fatal missing
	Err    string `json:"err"`
	Out    string `json:"out"`
	OutV   string `json:"outv"`
	OutErr string `json:"outerr"`
	Unch   *bool  `json:"unch"`
	Before string `json:"before"`
	After  string `json:"after"`
	Stack  string `json:"stack"`
	PriorV string `json:"priorv"`
	Fatal  string `json:"-"` // stderr tail of the dying child
}

// Driver is a built driver binary.
type Driver struct {
	Dir      string
	Bin      string
	Excluded map[string]string // program id -> build error (compiler disagreed with go/types)
	BuildLog string
	Race     bool
}

var rePkgErr = regexp.MustCompile(`(?m)^# [^\s/]+/(\S+)`)

// BuildDriver lays out one module with all usable programs and links the driver. vet additionally runs go vet.
func (e *Env) BuildDriver(ps []*Program, race bool) (*Driver, error) {
	dir := e.St.TempDir("batch")
	if err := e.writeMod(dir, "batch"); err != nil {
		return nil, err
	}
	d := &Driver{Dir: dir, Excluded: map[string]string{}, Race: race}
	type ent struct{ id, typ, sub string }
	var ents []ent
	included := map[string]*Program{}
	for _, p := range ps {
		if !p.Usable() {
			continue
		}
		pd := filepath.Join(dir, p.ID)
		_ = os.MkdirAll(pd, 0o755)
		if err := os.WriteFile(filepath.Join(pd, "gen.go"), p.Src, 0o644); err != nil {
			return nil, err
		}
		for _, sb := range p.Subs {
			_ = os.MkdirAll(filepath.Join(pd, sb.Name), 0o755)
			if err := os.WriteFile(filepath.Join(pd, sb.Name, "gen.go"), sb.Src, 0o644); err != nil {
				return nil, err
			}
		}
		included[p.ID] = p
	}
	_ = os.WriteFile(filepath.Join(dir, "main.go"), drivers.RunDrv, 0o644)
	for attempt := 0; attempt < 4; attempt++ {
		ents = ents[:0]
		ids := make([]string, 0, len(included))
		for id := range included {
			ids = append(ids, id)
		}
		sort.Strings(ids)
		for _, id := range ids {
			for _, tn := range gocheck.TypeNames(included[id].Report.File) {
				if ast.IsExported(tn) {
					ents = append(ents, ent{id, tn, ""})
				}
			}
			for _, sb := range included[id].Subs {
				for _, tn := range gocheck.TypeNames(sb.Report.File) {
					if ast.IsExported(tn) {
						ents = append(ents, ent{id, tn, sb.Name})
					}
				}
			}
		}
		var b bytes.Buffer
		b.WriteString("package main\n\nimport (\n")
		for _, id := range ids {
			fmt.Fprintf(&b, "\t%q\n", "batch/"+id)
			for _, sb := range included[id].Subs {
				if hasExported(sb.Report.File) {
					fmt.Fprintf(&b, "\t%s_%s %q\n", id, sb.Name, "batch/"+id+"/"+sb.Name)
				}
			}
		}
		b.WriteString(")\n\nvar registry = map[string]func() any{\n")
		for _, en := range ents {
			if en.sub != "" {
				// a type of a further package of the run: key <program>.<package>/<Type>
				fmt.Fprintf(&b, "\t%q: func() any { return new(%s_%s.%s) },\n", en.id+"."+en.sub+"/"+en.typ, en.id, en.sub, en.typ)
				continue
			}
			fmt.Fprintf(&b, "\t%q: func() any { return new(%s.%s) },\n", en.id+"."+en.typ, en.id, en.typ)
		}
		b.WriteString("}\n")
		for _, id := range ids { // keep imports used even if a package declares no exported type
			_ = id
		}
		if len(ents) == 0 {
			return nil, fmt.Errorf("no usable program in batch")
		}
		// packages without exported types would be unused imports: drop them
		used := map[string]bool{}
		for _, en := range ents {
			if en.sub == "" {
				used[en.id] = true
			}
		}
		changed := false
		for _, id := range ids {
			if !used[id] {
				delete(included, id)
				_ = os.RemoveAll(filepath.Join(dir, id))
				changed = true
			}
		}
		if changed {
			continue
		}
		_ = os.WriteFile(filepath.Join(dir, "registry_gen.go"), b.Bytes(), 0o644)
		args := []string{"build", "-o", "drv"}
		if race {
			args = append(args, "-race")
		}
		args = append(args, ".")
		out, err := stage.GoRun(dir, nil, args...)
		d.BuildLog = string(out)
		if err == nil {
			d.Bin = filepath.Join(dir, "drv")
			return d, nil
		}
		// attribute compile errors to packages and retry without them
		bad := map[string]bool{}
		for _, m := range rePkgErr.FindAllStringSubmatch(string(out), -1) {
			if _, ok := included[m[1]]; ok {
				bad[m[1]] = true
			}
		}
		if len(bad) == 0 {
			return nil, fmt.Errorf("driver build failed (harness): %s", out)
		}
		for id := range bad {
			// collect that package's error lines
			var lines []string
			for _, l := range strings.Split(string(out), "\n") {
				if strings.HasPrefix(l, id+"/") || strings.Contains(l, "/"+id+"/") {
					lines = append(lines, l)
				}
			}
			d.Excluded[id] = strings.Join(lines, "\n")
			delete(included, id)
			_ = os.RemoveAll(filepath.Join(dir, id))
		}
	}
	return nil, fmt.Errorf("driver build did not converge: %s", d.BuildLog)
}

// Vet runs go vet over the generated packages of the batch and returns output lines per package.
func (d *Driver) Vet() (map[string][]string, error) {
	out, _ := stage.GoRun(d.Dir, nil, "vet", "./...")
	res := map[string][]string{}
	for _, l := range strings.Split(string(out), "\n") {
		if strings.HasPrefix(l, "#") || strings.TrimSpace(l) == "" {
			continue
		}
		l = strings.TrimPrefix(l, "./")
		if i := strings.IndexByte(l, '/'); i > 0 && strings.HasPrefix(l, "p") {
			res[l[:i]] = append(res[l[:i]], l)
		}
	}
	return res, nil
}

// Run executes commands, sharded over processes; a child that dies is restarted after the fatal command.
func (d *Driver) Run(cmds []Cmd, shards int, par int) (map[int]*Res, RunStats) {
	if shards < 1 {
		shards = 1
	}
	if shards > len(cmds) {
		shards = len(cmds)
	}
	results := map[int]*Res{}
	var stats RunStats
	if len(cmds) == 0 {
		return results, stats
	}
	var mu sync.Mutex
	var wg sync.WaitGroup
	per := (len(cmds) + shards - 1) / shards
	for s := 0; s < shards; s++ {
		lo, hi := s*per, (s+1)*per
		if lo >= len(cmds) {
			break
		}
		if hi > len(cmds) {
			hi = len(cmds)
		}
		wg.Add(1)
		go func(s int, part []Cmd) {
			defer wg.Done()
			rs, st := d.runShard(s, part, par)
			mu.Lock()
			for k, v := range rs {
				results[k] = v
			}
			stats.Restarts += st.Restarts
			stats.Watchdog += st.Watchdog
			stats.RaceReports += st.RaceReports
			stats.RaceText = append(stats.RaceText, st.RaceText...)
			mu.Unlock()
		}(s, cmds[lo:hi])
	}
	wg.Wait()
	return results, stats
}

// RunStats summarises process-level events.
type RunStats struct {
	Restarts    int
	Watchdog    int
	RaceReports int
	RaceText    []string
}

func (d *Driver) runShard(s int, part []Cmd, par int) (map[int]*Res, RunStats) {
	var st RunStats
	inPath := filepath.Join(d.Dir, fmt.Sprintf("cmds%03d.jsonl", s))
	logPath := filepath.Join(d.Dir, fmt.Sprintf("log%03d.jsonl", s))
	var b bytes.Buffer
	for _, c := range part {
		j, _ := json.Marshal(c)
		b.Write(j)
		b.WriteByte('\n')
	}
	_ = os.WriteFile(inPath, b.Bytes(), 0o644)
	_ = os.Remove(logPath)
	results := map[int]*Res{}
	skip := 0
	for skip < len(part) {
		env := os.Environ()
		racelog := filepath.Join(d.Dir, fmt.Sprintf("race%03d", s))
		if d.Race {
			env = append(env, "GORACE=halt_on_error=0 log_path="+racelog)
		}
		pr := stage.Run(stage.Proc{Path: d.Bin, Args: []string{"-skip", fmt.Sprint(skip), "-par", fmt.Sprint(par), inPath, logPath},
			Dir: d.Dir, CPUSec: 600, Wall: 20 * time.Minute, Env: env})
		begun, done := readLog(logPath, results)
		if d.Race {
			ms, _ := filepath.Glob(racelog + ".*")
			for _, m := range ms {
				t, _ := os.ReadFile(m)
				n := strings.Count(string(t), "WARNING: DATA RACE")
				st.RaceReports += n
				if n > 0 && len(st.RaceText) < 5 {
					st.RaceText = append(st.RaceText, string(t))
				}
				_ = os.Remove(m)
			}
		}
		if done {
			break
		}
		if pr.TimedOut {
			st.Watchdog++
		}
		// child died: find the command(s) begun but not ended
		st.Restarts++
		tail := string(pr.Stderr)
		if len(tail) > 3000 {
			tail = tail[:1500] + "\n...\n" + tail[len(tail)-1500:]
		}
		lastIdx := -1
		for i, c := range part {
			if begun[c.ID] {
				if _, ok := results[c.ID]; !ok {
					v := "fatal"
					if pr.TimedOut {
						v = "watchdog"
					}
					results[c.ID] = &Res{E: c.ID, V: v, Err: fmt.Sprintf("child died (exit=%d signal=%s cpu=%v)", pr.Exit, pr.Signal, pr.CPU), Fatal: tail}
				}
				if i > lastIdx {
					lastIdx = i
				}
			}
		}
		if lastIdx < skip {
			// died before beginning anything new: harness problem, stop
			for _, c := range part[skip:] {
				if _, ok := results[c.ID]; !ok {
					results[c.ID] = &Res{E: c.ID, V: "missing", Err: "driver died without progress: " + tail}
				}
			}
			break
		}
		if par > 1 {
			// some commands before lastIdx may not have run; mark the gaps as missing
			for _, c := range part[skip : lastIdx+1] {
				if _, ok := results[c.ID]; !ok {
					results[c.ID] = &Res{E: c.ID, V: "missing"}
				}
			}
		}
		skip = lastIdx + 1
	}
	for _, c := range part {
		if _, ok := results[c.ID]; !ok {
			results[c.ID] = &Res{E: c.ID, V: "missing"}
		}
	}
	return results, st
}

func readLog(path string, results map[int]*Res) (begun map[int]bool, done bool) {
	begun = map[int]bool{}
	f, err := os.Open(path)
	if err != nil {
		return
	}
	defer f.Close()
	sc := bufio.NewScanner(f)
	sc.Buffer(make([]byte, 1<<20), 1<<28)
	for sc.Scan() {
		line := sc.Bytes()
		if bytes.HasPrefix(line, []byte(`{"b":`)) {
			var x struct{ B int }
			if json.Unmarshal(line, &x) == nil {
				begun[x.B] = true
			}
			continue
		}
		if bytes.HasPrefix(line, []byte(`{"done":`)) {
			done = true
			continue
		}
		var r Res
		if json.Unmarshal(line, &r) == nil && r.V != "" {
			rr := r
			results[r.E] = &rr
		}
	}
	return
}

// BuildInDrv copies the in-module driver into the scratch copy of the repository and builds it.
func (e *Env) BuildInDrv(race bool) (string, error) {
	dir := filepath.Join(e.St.Repo, "verifdrv")
	if err := os.MkdirAll(dir, 0o755); err != nil {
		return "", err
	}
	if err := os.WriteFile(filepath.Join(dir, "main.go"), drivers.InDrv, 0o644); err != nil {
		return "", err
	}
	name := "indrv"
	args := []string{"build", "-tags", "verif", "-o", filepath.Join(e.St.Bin, name)}
	if race {
		name = "indrv-race"
		args = []string{"build", "-tags", "verif", "-race", "-o", filepath.Join(e.St.Bin, name)}
	}
	args = append(args, "./verifdrv")
	if out, err := stage.GoRun(e.St.Repo, nil, args...); err != nil {
		return "", fmt.Errorf("in-module driver build failed: %v\n%s", err, out)
	}
	return filepath.Join(e.St.Bin, name), nil
}

// EnableCoverage rebuilds the CLI with statement-coverage instrumentation of every package of the repository and
// makes all later CLI runs of this process record into one GOCOVERDIR (an observer only: what did the workload reach).
func (e *Env) EnableCoverage() error {
	bin, err := e.St.BuildCLI("gjs-cover", "-cover", "-coverpkg=./...")
	if err != nil {
		return err
	}
	dir := filepath.Join(e.St.Root, "covdata")
	if err := os.MkdirAll(dir, 0o755); err != nil {
		return err
	}
	e.GJS = bin
	e.CoverDir = dir
	return os.Setenv("GOCOVERDIR", dir)
}

// CoverageReport summarises GOCOVERDIR: package -> percent of statements reached.
func (e *Env) CoverageReport() map[string]string {
	if e.CoverDir == "" {
		return nil
	}
	out, err := stage.GoRun(e.St.Repo, nil, "tool", "covdata", "percent", "-i="+e.CoverDir)
	res := map[string]string{}
	if err != nil {
		res["error"] = strings.TrimSpace(string(out))
		return res
	}
	for _, l := range strings.Split(string(out), "\n") {
		f := strings.Fields(l)
		// "<pkg>\tcoverage: 83.1% of statements"
		if len(f) >= 3 && f[1] == "coverage:" {
			res[strings.TrimPrefix(f[0], "github.com/atombender/go-jsonschema/")] = f[2]
		}
	}
	return res
}

func hasExported(f *ast.File) bool {
	for _, tn := range gocheck.TypeNames(f) {
		if ast.IsExported(tn) {
			return true
		}
	}
	return false
}
