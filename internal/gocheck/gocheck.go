// Package gocheck holds the oracles that look at emitted Go source: parser, gofmt fixpoint,
// go/types against real export data, build-constraint scan, and AST censuses.
package gocheck

import (
	"bytes"
	"fmt"
	"go/ast"
	"go/format"
	"go/importer"
	"go/parser"
	"go/printer"
	"go/token"
	"go/types"
	"io"
	"os"
	"regexp"
	"sort"
	"strings"
	"sync"

	"verif/internal/stage"
)

// Exports maps import path -> export data file.
type Exports struct {
	files map[string]string
	pool  sync.Pool
}

// StdImports are the packages generated code is known to import.
var StdImports = []string{
	"encoding/json", "fmt", "reflect", "regexp", "math", "errors", "strings", "time", "net/netip", "unicode/utf8", "math/big", "net/url",
	"gopkg.in/yaml.v3", "github.com/go-viper/mapstructure/v2", "github.com/atombender/go-jsonschema/pkg/types",
}

// LoadExports runs `go list -export -deps` in a module directory that can resolve pkgs.
func LoadExports(modDir string, pkgs []string) (*Exports, error) {
	args := append([]string{"list", "-export", "-deps", "-f", "{{if .Export}}{{.ImportPath}}={{.Export}}{{end}}"}, pkgs...)
	out, err := stage.GoRun(modDir, nil, args...)
	if err != nil {
		return nil, fmt.Errorf("go list -export: %v: %s", err, out)
	}
	e := &Exports{files: map[string]string{}}
	for _, l := range strings.Split(string(out), "\n") {
		if i := strings.IndexByte(l, '='); i > 0 {
			e.files[l[:i]] = l[i+1:]
		}
	}
	if len(e.files) < len(pkgs) {
		return nil, fmt.Errorf("go list -export returned only %d packages: %s", len(e.files), out)
	}
	return e, nil
}

func (e *Exports) newImporter(fset *token.FileSet) types.Importer {
	return importer.ForCompiler(fset, "gc", func(path string) (io.ReadCloser, error) {
		p, ok := e.files[path]
		if !ok {
			return nil, fmt.Errorf("no export data for %q", path)
		}
		return os.Open(p)
	})
}

// Report is what the source oracles found for one emitted file.
type Report struct {
	ParseErr   string
	NotGofmt   bool
	FmtErr     string
	TypeErrs   []string
	BuildTags  []string // //go:build or // +build lines that are real constraints
	File       *ast.File
	Fset       *token.FileSet
	Pkg        *types.Package
	Info       *types.Info
	ImportsBad []string
}

// OK reports whether every C01 oracle passed.
func (r *Report) OK() bool {
	return r.ParseErr == "" && !r.NotGofmt && r.FmtErr == "" && len(r.TypeErrs) == 0 && len(r.BuildTags) == 0
}

// Summary is a one-line description of the first problem.
func (r *Report) Summary() string {
	switch {
	case r.ParseErr != "":
		return "parse: " + r.ParseErr
	case len(r.TypeErrs) > 0:
		return "types: " + r.TypeErrs[0]
	case r.FmtErr != "":
		return "gofmt: " + r.FmtErr
	case r.NotGofmt:
		return "not gofmt-stable"
	case len(r.BuildTags) > 0:
		return "build constraint: " + r.BuildTags[0]
	}
	return "ok"
}

// Kind classifies the problem coarsely (for signatures).
func (r *Report) Kind() string {
	switch {
	case r.ParseErr != "":
		return "parse"
	case len(r.TypeErrs) > 0:
		return "types"
	case r.FmtErr != "" || r.NotGofmt:
		return "gofmt"
	case len(r.BuildTags) > 0:
		return "buildtag"
	}
	return "ok"
}

var reConstraint = regexp.MustCompile(`(?m)^//(go:build|\s*\+build)\s`)

// CheckSource runs all source oracles on one file. extra maps import paths of sibling generated packages.
func (e *Exports) CheckSource(name string, src []byte, extra map[string]*types.Package) *Report {
	r := &Report{Fset: token.NewFileSet()}
	f, err := parser.ParseFile(r.Fset, name, src, parser.ParseComments)
	if err != nil {
		r.ParseErr = err.Error()
		return r
	}
	r.File = f
	fm, err := format.Source(src)
	if err != nil {
		r.FmtErr = err.Error()
	} else if !bytes.Equal(fm, src) {
		r.NotGofmt = true
	}
	// Build constraints: only comment lines before the package clause count.
	head := src[:r.Fset.Position(f.Package).Offset]
	for _, m := range reConstraint.FindAll(head, -1) {
		r.BuildTags = append(r.BuildTags, strings.TrimSpace(string(m)))
	}
	imp := e.newImporter(r.Fset)
	conf := types.Config{
		Importer: importerFunc(func(path string) (*types.Package, error) {
			if p, ok := extra[path]; ok {
				return p, nil
			}
			return imp.Import(path)
		}),
		Error: func(err error) {
			if len(r.TypeErrs) < 10 {
				r.TypeErrs = append(r.TypeErrs, err.Error())
			}
		},
	}
	r.Info = &types.Info{Defs: map[*ast.Ident]types.Object{}, Types: map[ast.Expr]types.TypeAndValue{}}
	r.Pkg, _ = conf.Check(f.Name.Name, r.Fset, []*ast.File{f}, r.Info)
	return r
}

type importerFunc func(string) (*types.Package, error)

func (f importerFunc) Import(p string) (*types.Package, error) { return f(p) }

// ParseOnly parses without type-checking.
func ParseOnly(src []byte) (*token.FileSet, *ast.File, error) {
	fset := token.NewFileSet()
	f, err := parser.ParseFile(fset, "gen.go", src, parser.ParseComments)
	return fset, f, err
}

// TypeNames lists declared type names (including aliases) in order.
func TypeNames(f *ast.File) []string {
	var out []string
	for _, d := range f.Decls {
		gd, ok := d.(*ast.GenDecl)
		if !ok || gd.Tok != token.TYPE {
			continue
		}
		for _, sp := range gd.Specs {
			out = append(out, sp.(*ast.TypeSpec).Name.Name)
		}
	}
	return out
}

// Methods returns receiver type -> method names.
func Methods(f *ast.File) map[string][]string {
	m := map[string][]string{}
	for _, d := range f.Decls {
		fd, ok := d.(*ast.FuncDecl)
		if !ok || fd.Recv == nil || len(fd.Recv.List) == 0 {
			continue
		}
		t := fd.Recv.List[0].Type
		if st, ok := t.(*ast.StarExpr); ok {
			t = st.X
		}
		if id, ok := t.(*ast.Ident); ok {
			m[id.Name] = append(m[id.Name], fd.Name.Name)
		}
	}
	return m
}

// DeclStrings prints every top-level declaration separately, keyed "kind name".
func DeclStrings(fset *token.FileSet, f *ast.File, stripComments bool) map[string]string {
	out := map[string]string{}
	pr := func(n any) string {
		var b bytes.Buffer
		_ = (&printer.Config{Mode: printer.UseSpaces | printer.TabIndent, Tabwidth: 8}).Fprint(&b, fset, n)
		return b.String()
	}
	for _, d := range f.Decls {
		switch t := d.(type) {
		case *ast.GenDecl:
			for _, sp := range t.Specs {
				switch s := sp.(type) {
				case *ast.TypeSpec:
					if stripComments {
						s.Doc, s.Comment = nil, nil
						ast.Inspect(s, func(n ast.Node) bool {
							if fl, ok := n.(*ast.Field); ok {
								fl.Doc, fl.Comment = nil, nil
							}
							return true
						})
					}
					out["type "+s.Name.Name] = pr(s)
				case *ast.ValueSpec:
					for _, n := range s.Names {
						out[t.Tok.String()+" "+n.Name] = pr(s)
					}
				case *ast.ImportSpec:
					out["import "+s.Path.Value] = pr(s)
				}
			}
		case *ast.FuncDecl:
			name := t.Name.Name
			if t.Recv != nil && len(t.Recv.List) > 0 {
				name = pr(t.Recv.List[0].Type) + "." + name
			}
			if stripComments {
				t.Doc = nil
			}
			out["func "+name] = pr(t)
		}
	}
	return out
}

// SortedKeys of a string map.
func SortedKeys[T any](m map[string]T) []string {
	ks := make([]string, 0, len(m))
	for k := range m {
		ks = append(ks, k)
	}
	sort.Strings(ks)
	return ks
}

// Field is one struct field of an emitted type.
type Field struct {
	Name string
	Type string
	Tag  string
}

// StructFields lists the fields of struct type typeName (nil if it is not a struct).
func StructFields(fset *token.FileSet, f *ast.File, typeName string) []Field {
	var out []Field
	for _, d := range f.Decls {
		gd, ok := d.(*ast.GenDecl)
		if !ok || gd.Tok != token.TYPE {
			continue
		}
		for _, sp := range gd.Specs {
			ts := sp.(*ast.TypeSpec)
			if ts.Name.Name != typeName {
				continue
			}
			st, ok := ts.Type.(*ast.StructType)
			if !ok {
				return nil
			}
			for _, fl := range st.Fields.List {
				var b bytes.Buffer
				_ = printer.Fprint(&b, fset, fl.Type)
				tag := ""
				if fl.Tag != nil {
					tag = fl.Tag.Value
				}
				for _, n := range fl.Names {
					out = append(out, Field{n.Name, b.String(), tag})
				}
			}
		}
	}
	return out
}

// UnderlyingOf returns the printed type expression of type typeName.
func UnderlyingOf(fset *token.FileSet, f *ast.File, typeName string) string {
	for _, d := range f.Decls {
		gd, ok := d.(*ast.GenDecl)
		if !ok || gd.Tok != token.TYPE {
			continue
		}
		for _, sp := range gd.Specs {
			ts := sp.(*ast.TypeSpec)
			if ts.Name.Name == typeName {
				var b bytes.Buffer
				_ = printer.Fprint(&b, fset, ts.Type)
				return b.String()
			}
		}
	}
	return ""
}
