// Package drivers embeds the Go sources that are compiled together with code under test.
package drivers

import _ "embed"

// RunDrv is the static driver linked with generated packages.
//
//go:embed rundrv.go.txt
var RunDrv []byte

// InDrv is the in-module driver copied into the scratch copy of the repository.
//
//go:embed indrv.go.txt
var InDrv []byte
