// Package jsonx is a tiny order-preserving JSON value model used for schemas and documents.
//
// Values: nil, bool, Num (exact number text), string, []any, Obj (ordered object).
package jsonx

import (
	"bytes"
	"encoding/json"
	"fmt"
	"io"
	"math/big"
	"sort"
	"strconv"
	"strings"
	"unicode/utf8"
)

// KV is one member of an ordered object.
type KV struct {
	K string
	V any
}

// Obj is an ordered JSON object.
type Obj []KV

// Num is the literal text of a JSON number.
type Num string

// N makes an integer number.
func N(i int64) Num { return Num(strconv.FormatInt(i, 10)) }

// F makes a number from a float64 without exponent notation.
func F(f float64) Num { return Num(strconv.FormatFloat(f, 'f', -1, 64)) }

// Get returns the first value stored under k.
func (o Obj) Get(k string) (any, bool) {
	for _, kv := range o {
		if kv.K == k {
			return kv.V, true
		}
	}
	return nil, false
}

// Has reports whether key k is present.
func (o Obj) Has(k string) bool { _, ok := o.Get(k); return ok }

// Set replaces or appends k.
func (o Obj) Set(k string, v any) Obj {
	for i := range o {
		if o[i].K == k {
			n := append(Obj(nil), o...)
			n[i].V = v
			return n
		}
	}
	return append(append(Obj(nil), o...), KV{k, v})
}

// Del removes k.
func (o Obj) Del(k string) Obj {
	n := make(Obj, 0, len(o))
	for _, kv := range o {
		if kv.K != k {
			n = append(n, kv)
		}
	}
	return n
}

// Keys lists keys in order.
func (o Obj) Keys() []string {
	ks := make([]string, len(o))
	for i, kv := range o {
		ks[i] = kv.K
	}
	return ks
}

// Clone deep-copies a value.
func Clone(v any) any {
	switch t := v.(type) {
	case Obj:
		n := make(Obj, len(t))
		for i, kv := range t {
			n[i] = KV{kv.K, Clone(kv.V)}
		}
		return n
	case []any:
		n := make([]any, len(t))
		for i, e := range t {
			n[i] = Clone(e)
		}
		return n
	default:
		return v
	}
}

// Marshal renders compact JSON. Strings are emitted with invalid UTF-8 preserved byte-wise only if raw is used;
// here they are escaped the standard way.
func Marshal(v any) []byte {
	var b bytes.Buffer
	write(&b, v, "", "")
	return b.Bytes()
}

// MarshalIndent renders indented JSON.
func MarshalIndent(v any) []byte {
	var b bytes.Buffer
	write(&b, v, "", "  ")
	b.WriteByte('\n')
	return b.Bytes()
}

func writeString(b *bytes.Buffer, s string) {
	b.WriteByte('"')
	for i := 0; i < len(s); {
		c := s[i]
		if c < utf8.RuneSelf {
			switch {
			case c == '"':
				b.WriteString(`\"`)
			case c == '\\':
				b.WriteString(`\\`)
			case c == '\n':
				b.WriteString(`\n`)
			case c == '\r':
				b.WriteString(`\r`)
			case c == '\t':
				b.WriteString(`\t`)
			case c < 0x20 || c == 0x7f:
				fmt.Fprintf(b, `\u%04x`, c)
			default:
				b.WriteByte(c)
			}
			i++
			continue
		}
		r, size := utf8.DecodeRuneInString(s[i:])
		if r == utf8.RuneError && size == 1 {
			b.WriteString(`�`)
			i++
			continue
		}
		if r == 0x2028 || r == 0x2029 || r == 0xFEFF || r == 0x85 {
			fmt.Fprintf(b, `\u%04x`, r)
		} else {
			b.WriteString(s[i : i+size])
		}
		i += size
	}
	b.WriteByte('"')
}

func write(b *bytes.Buffer, v any, cur, ind string) {
	switch t := v.(type) {
	case nil:
		b.WriteString("null")
	case bool:
		if t {
			b.WriteString("true")
		} else {
			b.WriteString("false")
		}
	case Num:
		b.WriteString(string(t))
	case int:
		b.WriteString(strconv.Itoa(t))
	case int64:
		b.WriteString(strconv.FormatInt(t, 10))
	case float64:
		b.WriteString(string(F(t)))
	case string:
		writeString(b, t)
	case []any:
		if len(t) == 0 {
			b.WriteString("[]")
			return
		}
		b.WriteByte('[')
		for i, e := range t {
			if i > 0 {
				b.WriteByte(',')
			}
			if ind != "" {
				b.WriteByte('\n')
				b.WriteString(cur + ind)
			}
			write(b, e, cur+ind, ind)
		}
		if ind != "" {
			b.WriteByte('\n')
			b.WriteString(cur)
		}
		b.WriteByte(']')
	case []string:
		a := make([]any, len(t))
		for i, s := range t {
			a[i] = s
		}
		write(b, a, cur, ind)
	case Obj:
		if len(t) == 0 {
			b.WriteString("{}")
			return
		}
		b.WriteByte('{')
		for i, kv := range t {
			if i > 0 {
				b.WriteByte(',')
			}
			if ind != "" {
				b.WriteByte('\n')
				b.WriteString(cur + ind)
			}
			writeString(b, kv.K)
			b.WriteByte(':')
			if ind != "" {
				b.WriteByte(' ')
			}
			write(b, kv.V, cur+ind, ind)
		}
		if ind != "" {
			b.WriteByte('\n')
			b.WriteString(cur)
		}
		b.WriteByte('}')
	default:
		panic(fmt.Sprintf("jsonx: cannot marshal %T", v))
	}
}

// Parse decodes one JSON value, preserving key order and number text.
func Parse(data []byte) (any, error) {
	dec := json.NewDecoder(bytes.NewReader(data))
	dec.UseNumber()
	v, err := parseValue(dec)
	if err != nil {
		return nil, err
	}
	if _, err := dec.Token(); err != io.EOF {
		return nil, fmt.Errorf("trailing data")
	}
	return v, nil
}

func parseValue(dec *json.Decoder) (any, error) {
	tok, err := dec.Token()
	if err != nil {
		return nil, err
	}
	switch t := tok.(type) {
	case json.Delim:
		switch t {
		case '{':
			o := Obj{}
			for dec.More() {
				kt, err := dec.Token()
				if err != nil {
					return nil, err
				}
				k, ok := kt.(string)
				if !ok {
					return nil, fmt.Errorf("bad key")
				}
				v, err := parseValue(dec)
				if err != nil {
					return nil, err
				}
				o = append(o, KV{k, v})
			}
			if _, err := dec.Token(); err != nil {
				return nil, err
			}
			return o, nil
		case '[':
			a := []any{}
			for dec.More() {
				v, err := parseValue(dec)
				if err != nil {
					return nil, err
				}
				a = append(a, v)
			}
			if _, err := dec.Token(); err != nil {
				return nil, err
			}
			return a, nil
		}
		return nil, fmt.Errorf("unexpected delimiter %v", t)
	case json.Number:
		return Num(t.String()), nil
	case string:
		return t, nil
	case bool:
		return t, nil
	case nil:
		return nil, nil
	}
	return nil, fmt.Errorf("unexpected token %v", tok)
}

// Rat converts a number text to an exact rational; ok=false when unparsable.
func (n Num) Rat() (*big.Rat, bool) {
	r, ok := new(big.Rat).SetString(string(n))
	return r, ok
}

// Float returns the nearest float64.
func (n Num) Float() float64 {
	f, _ := strconv.ParseFloat(string(n), 64)
	return f
}

// IsIntegral reports whether the number's value is an integer.
func (n Num) IsIntegral() bool {
	r, ok := n.Rat()
	return ok && r.IsInt()
}

// PlainInt reports whether the text is plain integer notation (no fraction, no exponent).
func (n Num) PlainInt() bool {
	s := string(n)
	return !strings.ContainsAny(s, ".eE")
}

// Kind names the JSON type of a value: null, boolean, number, string, array, object.
func Kind(v any) string {
	switch v.(type) {
	case nil:
		return "null"
	case bool:
		return "boolean"
	case Num, int, int64, float64:
		return "number"
	case string:
		return "string"
	case []any:
		return "array"
	case Obj:
		return "object"
	}
	return "?"
}

func toNum(v any) (Num, bool) {
	switch t := v.(type) {
	case Num:
		return t, true
	case int:
		return N(int64(t)), true
	case int64:
		return N(t), true
	case float64:
		return F(t), true
	}
	return "", false
}

// Equal is JSON equality: numbers by value, objects unordered.
func Equal(a, b any) bool {
	if na, ok := toNum(a); ok {
		nb, ok := toNum(b)
		if !ok {
			return false
		}
		ra, ok1 := na.Rat()
		rb, ok2 := nb.Rat()
		if !ok1 || !ok2 {
			return na == nb
		}
		return ra.Cmp(rb) == 0
	}
	switch ta := a.(type) {
	case nil:
		return b == nil
	case bool:
		tb, ok := b.(bool)
		return ok && ta == tb
	case string:
		tb, ok := b.(string)
		return ok && ta == tb
	case []any:
		tb, ok := b.([]any)
		if !ok || len(ta) != len(tb) {
			return false
		}
		for i := range ta {
			if !Equal(ta[i], tb[i]) {
				return false
			}
		}
		return true
	case Obj:
		tb, ok := b.(Obj)
		if !ok || len(ta) != len(tb) {
			return false
		}
		for _, kv := range ta {
			bv, ok := tb.Get(kv.K)
			if !ok || !Equal(kv.V, bv) {
				return false
			}
		}
		return true
	}
	return false
}

// SortKeys returns a copy with all object keys sorted recursively.
func SortKeys(v any) any {
	switch t := v.(type) {
	case Obj:
		n := make(Obj, len(t))
		for i, kv := range t {
			n[i] = KV{kv.K, SortKeys(kv.V)}
		}
		sort.SliceStable(n, func(i, j int) bool { return n[i].K < n[j].K })
		return n
	case []any:
		n := make([]any, len(t))
		for i, e := range t {
			n[i] = SortKeys(e)
		}
		return n
	}
	return v
}
