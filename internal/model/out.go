package model

import (
	"encoding/base64"
	"fmt"

	"verif/internal/jsonx"
	"verif/internal/sg"
)

// OutDiff is one difference between the expected and the re-marshalled decoded value.
type OutDiff struct {
	Path string
	Kind string // lost, changed, default, addprops, nullable, unexpected
	Msg  string
}

func (d OutDiff) String() string { return d.Kind + "@" + d.Path + ": " + d.Msg }

// IsEmptyValue mirrors encoding/json's omitempty notion on the JSON side.
func IsEmptyValue(v any) bool {
	switch t := v.(type) {
	case nil:
		return true
	case bool:
		return !t
	case string:
		return t == ""
	case jsonx.Num:
		r, ok := t.Rat()
		return ok && r.Sign() == 0
	case []any:
		return len(t) == 0
	case jsonx.Obj:
		return len(t) == 0
	}
	return false
}

func mergedView(s *sg.Schema) *sg.Schema {
	if len(s.AllOf) == 0 && len(s.AnyOf) == 0 {
		return s
	}
	m := &sg.Schema{Types: []string{"object"}}
	for _, b := range append(append([]*sg.Schema{}, s.AllOf...), s.AnyOf...) {
		rb := b.Resolve()
		if rb == nil {
			continue
		}
		for _, p := range rb.Props {
			if m.Prop(p.Name) == nil {
				m.Props = append(m.Props, p)
			}
		}
	}
	for _, p := range s.Props {
		if m.Prop(p.Name) == nil {
			m.Props = append(m.Props, p)
		}
	}
	return m
}

// OutOpts tunes CompareOut.
type OutOpts struct {
	SkipDefaults   bool // do not assert default application
	SkipAddProps   bool
	AddPropsTrueNo bool // F20: additionalProperties:true is never collected
	NullObjZero    bool // F28: null for a nullable object may decode to a zero struct
	NamedArrayAnon bool // inline object items of a named array type are anonymous structs: nothing is collected/defaulted
	BytesAsBase64  bool // --min-sized-ints: an array of uint8 is a []byte and marshals as a base64 string
	WrappedEnum    bool // a wrapped (mixed) enum at a non-addressable position marshals as {"Value": x}
	AddPropFloat   bool // additional properties pass through a float64 raw map: integers beyond 2^53 are not preserved
}

// CompareOut compares the input document with the JSON re-marshalled from the decoded Go value.
func CompareOut(s *sg.Schema, in, out any, o OutOpts) []OutDiff {
	var diffs []OutDiff
	add := func(path, kind, msg string) {
		if len(diffs) < 20 {
			diffs = append(diffs, OutDiff{path, kind, msg})
		}
	}
	anon := 0 // >0 while inside the inline items of a named (referenced or root) array type
	var cmp func(s *sg.Schema, in, out any, path string, depth int)
	cmp = func(s *sg.Schema, in, out any, path string, depth int) {
		viaRef := depth == 0 || (s != nil && s.Ref != "")
		s = s.Resolve()
		if s == nil || depth > 60 {
			return
		}
		if s.Ext != nil {
			return
		}
		if s.HasEnum && o.WrappedEnum {
			if oo, isObj := out.(jsonx.Obj); isObj && len(oo) == 1 && oo[0].K == "Value" && jsonx.Equal(oo[0].V, in) {
				return
			}
		}
		if in == nil {
			if _, isObj := out.(jsonx.Obj); isObj && o.NullObjZero && len(mergedView(s).Props) > 0 {
				return
			}
			if out != nil && !IsEmptyValue(out) {
				add(path, "nullable", fmt.Sprintf("null decoded to %s", jsonx.Marshal(out)))
			}
			return
		}
		view := mergedView(s)
		switch tin := in.(type) {
		case jsonx.Obj:
			if len(view.Props) == 0 {
				// map-typed or free-form object
				if s.AddProps != nil {
					tout, ok := out.(jsonx.Obj)
					if !ok {
						if !(len(tin) == 0 && IsEmptyValue(out)) {
							add(path, "changed", fmt.Sprintf("object came back as %s", jsonx.Marshal(out)))
						}
						return
					}
					for _, kv := range tin {
						ov, has := tout.Get(kv.K)
						if !has {
							add(path+"/"+kv.K, "lost", fmt.Sprintf("map entry %s not present after round trip", jsonx.Marshal(kv.V)))
							continue
						}
						cmp(s.AddProps, kv.V, ov, path+"/"+kv.K, depth+1)
					}
					for _, kv := range tout {
						if !tin.Has(kv.K) {
							add(path+"/"+kv.K, "unexpected", "map entry appears only in the output")
						}
					}
					return
				}
				if !jsonx.Equal(in, out) && !(len(tin) == 0 && IsEmptyValue(out)) {
					add(path, "changed", fmt.Sprintf("object %s came back as %s", jsonx.Marshal(in), jsonx.Marshal(out)))
				}
				return
			}
			tout, ok := out.(jsonx.Obj)
			if !ok {
				add(path, "changed", fmt.Sprintf("object came back as %s", jsonx.Marshal(out)))
				return
			}
			for _, p := range view.Props {
				inV, inHas := tin.Get(p.Name)
				outV, outHas := tout.Get(p.Name)
				pp := path + "/" + p.Name
				rp := p.S.Resolve()
				if !inHas || (inV == nil && p.S.HasDefault) {
					if p.S.HasDefault && !o.SkipDefaults && anon == 0 {
						if outHas {
							if !jsonx.Equal(outV, p.S.Default) {
								add(pp, "default", fmt.Sprintf("absent property decoded to %s, default is %s", jsonx.Marshal(outV), jsonx.Marshal(p.S.Default)))
							}
						} else if !IsEmptyValue(p.S.Default) || (rp != nil && len(rp.Types) == 0 && !rp.HasEnum && p.S.Default != nil) {
							// omitempty hides a zero value of a typed field, but never a non-nil interface{}: an untyped
							// property that took its (zero) default shows it
							add(pp, "default", fmt.Sprintf("absent property not set to default %s", jsonx.Marshal(p.S.Default)))
						}
					}
					continue
				}
				if !outHas {
					if !IsEmptyValue(inV) {
						add(pp, "lost", fmt.Sprintf("value %s not present after round trip", jsonx.Marshal(inV)))
					}
					continue
				}
				_ = rp
				cmp(p.S, inV, outV, pp, depth+1)
			}
			// undeclared keys
			allows := s.AddProps != nil || (s.AddPropsBool != nil && *s.AddPropsBool)
			extra := jsonx.Obj{}
			for _, kv := range tin {
				if view.Prop(kv.K) == nil {
					extra = append(extra, kv)
				}
			}
			if allows && !o.SkipAddProps && anon == 0 {
				if s.AddPropsBool != nil && *s.AddPropsBool && o.AddPropsTrueNo {
					// known finding F20 modelled: nothing collected
				} else {
					got, has := tout.Get("AdditionalProperties")
					if len(extra) == 0 {
						if has && !IsEmptyValue(got) {
							add(path, "addprops", fmt.Sprintf("no undeclared keys but AdditionalProperties=%s", jsonx.Marshal(got)))
						}
					} else if o.AddPropFloat && has && equalUpToFloat(got, extra) {
						// explained by the defect model
					} else if !has || !jsonx.Equal(got, extra) {
						add(path, "addprops", fmt.Sprintf("undeclared keys %s collected as %s", jsonx.Marshal(extra), jsonx.Marshal(got)))
					}
				}
			}
			for _, kv := range tout {
				if view.Prop(kv.K) == nil && kv.K != "AdditionalProperties" && !tin.Has(kv.K) {
					add(path+"/"+kv.K, "unexpected", "key appears only in the output")
				}
			}
		case []any:
			tout, ok := out.([]any)
			if !ok {
				if len(tin) == 0 && IsEmptyValue(out) {
					return
				}
				if str, isStr := out.(string); isStr && o.BytesAsBase64 {
					if raw, err := base64.StdEncoding.DecodeString(str); err == nil && len(raw) == len(tin) {
						same := true
						for i, e := range tin {
							if n, isNum := e.(jsonx.Num); !isNum || !jsonx.Equal(n, jsonx.N(int64(raw[i]))) {
								same = false
							}
						}
						if same {
							return
						}
					}
				}
				add(path, "changed", fmt.Sprintf("array came back as %s", jsonx.Marshal(out)))
				return
			}
			if len(tin) != len(tout) {
				add(path, "changed", fmt.Sprintf("array length %d came back as %d", len(tin), len(tout)))
				return
			}
			enter := o.NamedArrayAnon && s.Items != nil && s.Items.Ref == "" && (viaRef || anon > 0)
			if enter {
				anon++
				defer func() { anon-- }()
			}
			for i := range tin {
				if s.Items != nil {
					cmp(s.Items, tin[i], tout[i], fmt.Sprintf("%s/%d", path, i), depth+1)
				} else if !jsonx.Equal(tin[i], tout[i]) {
					add(fmt.Sprintf("%s/%d", path, i), "changed", fmt.Sprintf("%s came back as %s", jsonx.Marshal(tin[i]), jsonx.Marshal(tout[i])))
				}
			}
		case jsonx.Num:
			on, ok := out.(jsonx.Num)
			if !ok {
				add(path, "changed", fmt.Sprintf("number %s came back as %s", tin, jsonx.Marshal(out)))
				return
			}
			if tin.PlainInt() {
				if !jsonx.Equal(tin, on) {
					add(path, "changed", fmt.Sprintf("integer %s came back as %s", tin, on))
				}
			} else if tin.Float() != on.Float() {
				add(path, "changed", fmt.Sprintf("number %s came back as %s", tin, on))
			}
		default:
			if !jsonx.Equal(in, out) {
				add(path, "changed", fmt.Sprintf("%s came back as %s", jsonx.Marshal(in), jsonx.Marshal(out)))
			}
		}
	}
	cmp(s, in, out, "", 0)
	return diffs
}

// equalUpToFloat compares the collected additional properties with the expected ones, ignoring integer values
// beyond 2^53 (defect model AddPropFloat).
func equalUpToFloat(got any, want jsonx.Obj) bool {
	g, ok := got.(jsonx.Obj)
	if !ok || len(g) != len(want) {
		return false
	}
	for _, kv := range want {
		gv, has := g.Get(kv.K)
		if !has {
			return false
		}
		if n, isNum := kv.V.(jsonx.Num); isNum {
			if f := n.Float(); f > 9007199254740992 || f < -9007199254740992 {
				continue
			}
		}
		if !jsonx.Equal(gv, kv.V) {
			return false
		}
	}
	return true
}
