// Package model is the executable reference semantics written from the property statements.
// It is three-valued: wherever the statements are silent it answers DontCare (DESIGN.md §3).
package model

import (
	"encoding/base64"
	"fmt"
	"math"
	"math/big"
	"regexp"
	"strconv"
	"strings"
	"unicode/utf8"

	"verif/internal/jsonx"
	"verif/internal/sg"
)

// Verdict of the model for one document.
type Verdict int

const (
	Accept Verdict = iota
	Reject
	DontCare
)

func (v Verdict) String() string { return [...]string{"accept", "reject", "dontcare"}[v] }

// Fault is one violated rule.
type Fault struct {
	Rule string // type, required, minimum, maximum, exclusiveMinimum, exclusiveMaximum, multipleOf, minLength, maxLength, pattern, minItems, maxItems, enum, anyOf
	Path string
}

// Result of an evaluation.
type Result struct {
	V         Verdict
	Faults    []Fault
	DontCares []string
}

// Defects switches on models of recorded tool defects (known findings); the zero value is the pure model.
type Defects struct {
	LenBytes                  bool // F4: string length counted in bytes
	OuterArrayLimits          bool // F5: every array depth uses the outermost min/maxItems
	InlineItemNoRule          bool // F23: constraints of inline primitive array items are not enforced
	IntBoundTrunc             bool // F2: fractional bounds on integers truncated toward zero
	AddPropLax                bool // F9: typed additionalProperties integer accepts fractions (mapstructure)
	AnyOfMerged               bool // F18: anyOf document must also decode into the merged struct
	NullObjZero               bool // F28: null for required nullable object runs validators on zero struct
	MaxZeroIgnored            bool // maxLength/maxItems/minimum-style zero sentinel (not representable: harness never states 0)
	AddPropObjLax             bool // additionalProperties with object/array schema: values are not validated
	UndeclaredRequiredIgnored bool // a name in "required" that is not declared under "properties" is not checked
	NamedNullableNoRule       bool // a named definition typed [scalar, "null"] is "type X *T": no methods, none of its rules is checked
	AllOfNestedReuse          bool // allOf: an inline-object property of a member given by $ref keeps that definition's declared type; what later members say about the same property is lost
	AllOfFirstWins            bool // allOf members are merged; for a keyword stated by several members the first one counts
	UntypedCompDef            bool // a definition that is only allOf/anyOf (no type) whose members do not all state one type is interface{}
	NamedNullZero             bool // null at a defaulted property that refers to a validated named scalar: the zero value is validated
	Uint8ArrayBase64          bool // --min-sized-ints: an array of integers within 0..255 is a []byte and accepts base64 strings
	NamedFormat               bool // definition/root of a format string is a named struct type without methods
	NamedArrayNoLim           bool // a definition/root of type array is a named slice type without any validator
	EnumNullZero              bool // null for a defaulted enum-typed property runs the enum check on the zero value
	NullItemsNoLim            bool // an array whose items are of type "null" gets the null check but no length validator
	MapValueAnon              bool // inline object/array schemas used as additionalProperties of a property-less object are anonymous Go types
}

type evalCtx struct {
	d       *Defects
	faults  []Fault
	dc      []string
	reCache map[string]*regexp.Regexp
}

// ctxPos carries position information needed by defect models.
type ctxPos struct {
	member bool // this schema is a member of an allOf / anyOf list (its siblings may declare what it requires)
	inlineItem bool       // this schema is written inline as an array's items
	outerArr   *sg.Schema // outermost enclosing inline array (nested arrays)
	addProp    bool       // value of an additional property
	nonPtr     bool       // the Go position is not a pointer (required property without default, array item)
	viaRef     bool       // schema is a declared type of its own (reached through $ref, or the root)
	noArrLim   bool       // inside a named array type (defect model NamedArrayNoLim)
}

// Eval evaluates doc against s.
func Eval(s *sg.Schema, doc any, d *Defects) Result {
	if d == nil {
		d = &Defects{}
	}
	c := &evalCtx{d: d, reCache: map[string]*regexp.Regexp{}}
	c.eval(s, doc, "", ctxPos{viaRef: true})
	r := Result{Faults: c.faults, DontCares: c.dc}
	switch {
	case len(c.dc) > 0:
		r.V = DontCare
	case len(c.faults) > 0:
		r.V = Reject
	default:
		r.V = Accept
	}
	return r
}

func (c *evalCtx) fault(rule, path string) { c.faults = append(c.faults, Fault{rule, path}) }
func (c *evalCtx) dontcare(why, path string) {
	c.dc = append(c.dc, why+"@"+path)
}

// FormatOK reports whether text is a canonical member of the format (the only texts the harness asserts on).
func FormatOK(format, text string) bool {
	switch format {
	case "date":
		return reDate.MatchString(text) && validDate(text)
	case "time":
		return reTime.MatchString(text)
	case "date-time":
		return reDateTime.MatchString(text) && validDate(text[:10])
	case "ipv4":
		return reIPv4.MatchString(text)
	case "ipv6":
		return canonIPv6[text]
	}
	return true
}

var (
	reDate     = regexp.MustCompile(`^[0-9]{4}-(0[1-9]|1[0-2])-(0[1-9]|[12][0-9]|3[01])$`)
	reTime     = regexp.MustCompile(`^([01][0-9]|2[0-3]):[0-5][0-9]:[0-5][0-9]$`)
	reDateTime = regexp.MustCompile(`^[0-9]{4}-(0[1-9]|1[0-2])-(0[1-9]|[12][0-9]|3[01])T([01][0-9]|2[0-3]):[0-5][0-9]:[0-5][0-9](\.[0-9]{0,8}[1-9])?(Z|[+-](0[0-9]|1[0-4]):(00|30|45))$`)
	reIPv4     = regexp.MustCompile(`^(25[0-5]|2[0-4][0-9]|1[0-9][0-9]|[1-9]?[0-9])(\.(25[0-5]|2[0-4][0-9]|1[0-9][0-9]|[1-9]?[0-9])){3}$`)
	canonIPv6  = map[string]bool{"::1": true, "2001:db8::1": true, "fe80::1234:5678": true, "::": true, "2001:db8:0:1:1:1:1:1": true, "ffff:ffff:ffff:ffff:ffff:ffff:ffff:ffff": true}
)

// validDate: a calendar date of the years 0001..9999 (proleptic Gregorian, as RFC 3339 and Go's time package read it).
func validDate(text string) bool {
	y, _ := strconv.Atoi(text[0:4])
	m, _ := strconv.Atoi(text[5:7])
	d, _ := strconv.Atoi(text[8:10])
	if y < 1 {
		return false
	}
	days := []int{31, 28, 31, 30, 31, 30, 31, 31, 30, 31, 30, 31}[m-1]
	if m == 2 && y%4 == 0 && (y%100 != 0 || y%400 == 0) {
		days = 29
	}
	return d >= 1 && d <= days
}

func (c *evalCtx) eval(s *sg.Schema, v any, path string, pos ctxPos) {
	if s == nil {
		return
	}
	if s.BoolForm != nil {
		if !*s.BoolForm {
			c.dontcare("false-schema", path)
		}
		return
	}
	if s.Ref != "" {
		if s.Target == nil {
			c.dontcare("unresolved-ref", path)
			return
		}
		if c.d.UntypedCompDef && untypedMixedComposition(s.Target) {
			return // defect model: such a definition is interface{}
		}
		// a referenced definition is never an "inline item"
		if s.HasEnum || len(s.Types) > 0 || hasTypeSpecificKeywords(s) {
			// validation keywords next to a $ref: ignored up to draft-07, applied since 2019-09 - no opinion (strata
			// state their verdicts for documents on which both readings agree)
			c.dontcare("ref-with-sibling-keywords", path)
			return
		}
		c.eval(s.Target, v, path, ctxPos{addProp: pos.addProp, nonPtr: pos.nonPtr, viaRef: true, member: pos.member})
		return
	}
	if s.Ext != nil {
		if _, ok := s.Ext.Get("type"); ok {
			c.dontcare("custom-go-type", path)
			return
		}
	}

	if c.d.AllOfFirstWins && len(s.AllOf) > 1 {
		// defect model: the members are merged keyword by keyword, the first member that states a keyword wins
		c.eval(mergeFirstWins(s.AllOf, 0, c.d.AllOfNestedReuse), v, path, ctxPos{})
	} else if c.d.AllOfNestedReuse && len(s.AllOf) > 1 {
		// defect model: the nested struct type a referenced definition declared for its inline-object property is
		// reused for the merged struct; later members are evaluated without that property
		claimed := map[string]bool{}
		for _, b := range s.AllOf {
			rb := b.Resolve()
			eb := b
			if rb != nil && len(claimed) > 0 {
				cp := *rb
				cp.Props = nil
				for _, p := range rb.Props {
					if !claimed[p.Name] {
						cp.Props = append(cp.Props, p)
					}
				}
				eb = &cp
			}
			c.eval(eb, v, path, ctxPos{member: true})
			if b.Ref != "" && rb != nil {
				for _, p := range rb.Props {
					if declaresNestedStruct(p.S) {
						claimed[p.Name] = true
					}
				}
			}
		}
	} else {
		for _, b := range s.AllOf {
			c.eval(b, v, path, ctxPos{member: true})
		}
	}
	if len(s.AnyOf) > 0 {
		c.evalAnyOf(s, v, path)
	}

	// Type.
	kind := jsonx.Kind(v)
	if c.d.NamedFormat && pos.viaRef && isFormatString(s) {
		// defect model: "type X netip.Addr" — a struct without methods
		if kind != "object" && kind != "null" {
			c.fault("type", path)
		}
		return
	}
	if len(s.Types) > 0 {
		t, nullable, ok := s.NonNullType()
		if !ok {
			c.dontcare("multi-type", path)
			return
		}
		if kind == "null" {
			if !nullable {
				c.dontcare("null-at-non-nullable", path)
			}
			if nullable && c.d.NullObjZero && pos.nonPtr && t == "object" && len(s.Props) > 0 {
				c.zeroStructRules(s, path)
			}
			return // null: nothing else is checked
		}
		if !typeMatches(t, v) {
			if t == "integer" && kind == "number" && pos.addProp && c.d.AddPropLax {
				return // mapstructure truncates
			}
			if t == "array" && kind == "string" && c.d.Uint8ArrayBase64 && isUint8Items(s) {
				// defect model: []uint8 is []byte, encoding/json fills it from a base64 string
				if _, err := base64.StdEncoding.DecodeString(v.(string)); err == nil {
					return
				}
			}
			if t == "integer" && kind == "number" {
				n := v.(jsonx.Num)
				if n.IsIntegral() && !n.PlainInt() {
					c.dontcare("integer-with-fraction-notation", path)
					return
				}
			}
			if t == "null" {
				c.fault("type", path)
				return
			}
			c.fault("type", path)
			return
		}
		if kind == "number" && !numberInRange(t, v.(jsonx.Num)) {
			c.dontcare("number-out-of-interop-range", path)
			return
		}
	} else {
		if hasTypeSpecificKeywords(s) && kind != "null" {
			// no type keyword but keywords that only speak about one JSON type: the statements are about typed
			// positions (the tool maps an untyped schema to interface{} whatever else it says)
			c.dontcare("untyped-schema-with-type-specific-keywords", path)
			return
		}
		if kind == "number" && !numberInRange("number", v.(jsonx.Num)) {
			c.dontcare("number-out-of-interop-range", path)
			return
		}
	}

	if s.HasEnum {
		found := false
		for _, e := range s.Enum {
			if jsonx.Equal(e, v) {
				found = true
				break
			}
		}
		if !found {
			c.fault("enum", path)
		}
	}

	skipRules := pos.inlineItem && c.d.InlineItemNoRule && !s.HasEnum
	if c.d.NamedNullableNoRule && pos.viaRef && !s.HasEnum && len(s.Types) == 2 {
		if t, nullable, ok := s.NonNullType(); ok && nullable && (t == "integer" || t == "number" || t == "string") {
			skipRules = true
		}
	}

	switch kind {
	case "number":
		if !skipRules {
			c.evalNumber(s, v.(jsonx.Num), path)
		}
	case "string":
		if !skipRules {
			c.evalString(s, v.(string), path)
		}
	case "array":
		c.evalArray(s, v.([]any), path, pos)
	case "object":
		c.evalObject(s, v.(jsonx.Obj), path, pos)
	}
}

// isUint8Items: array whose items are integers with stated bounds inside 0..255 (what --min-sized-ints turns into uint8).
func isUint8Items(s *sg.Schema) bool {
	it := s.Items.Resolve()
	if it == nil || it.HasEnum {
		return false
	}
	t, _, ok := it.NonNullType()
	if !ok || t != "integer" {
		return false
	}
	lo, hi := math.Inf(-1), math.Inf(1)
	if it.Min != nil {
		lo = *it.Min
	}
	if f, ok := it.ExMin.(float64); ok && f+1 > lo {
		lo = f + 1
	}
	if it.Max != nil {
		hi = *it.Max
	}
	if f, ok := it.ExMax.(float64); ok && f-1 < hi {
		hi = f - 1
	}
	return lo >= 0 && hi <= 256
}

// untypedMixedComposition: a schema without type, properties and enum that consists of allOf/anyOf only. Behind a
// reference the tool takes such a definition for "anything" (interface{}), whatever its members say.
func untypedMixedComposition(t *sg.Schema) bool {
	if t == nil || len(t.Types) > 0 || t.HasEnum || len(t.Props) > 0 {
		return false
	}
	return len(t.AnyOf) > 0 || len(t.AllOf) > 0
}

// mergeFirstWins builds the schema the tool's allOf merge yields: scalar keywords from the first member that states
// them, required lists concatenated, properties merged by name (recursively), references looked through.
func mergeFirstWins(members []*sg.Schema, depth int, reuse bool) *sg.Schema {
	out := &sg.Schema{}
	claimed := map[string]bool{}
	for _, m := range members {
		viaRef := m != nil && m.Ref != ""
		m = m.Resolve()
		if m == nil || depth > 20 {
			continue
		}
		if len(m.AllOf) > 0 {
			m = mergeFirstWins(append([]*sg.Schema{shallowWithoutAllOf(m)}, m.AllOf...), depth+1, reuse)
		}
		if len(out.Types) == 0 {
			out.Types = m.Types
		}
		if out.Min == nil {
			out.Min = m.Min
		}
		if out.Max == nil {
			out.Max = m.Max
		}
		if out.ExMin == nil {
			out.ExMin = m.ExMin
		}
		if out.ExMax == nil {
			out.ExMax = m.ExMax
		}
		if out.MultipleOf == nil {
			out.MultipleOf = m.MultipleOf
		}
		if out.MinLen == 0 {
			out.MinLen = m.MinLen
		}
		if out.MaxLen == 0 {
			out.MaxLen = m.MaxLen
		}
		if out.MinItems == 0 {
			out.MinItems = m.MinItems
		}
		if out.MaxItems == 0 {
			out.MaxItems = m.MaxItems
		}
		if out.Pattern == "" {
			out.Pattern = m.Pattern
		}
		if out.Format == "" {
			out.Format = m.Format
		}
		if m.HasEnum {
			out.HasEnum = true
			out.Enum = append(out.Enum, m.Enum...)
		}
		if !out.HasDefault && m.HasDefault {
			out.HasDefault, out.Default = true, m.Default
		}
		out.Required = append(out.Required, m.Required...)
		if out.AddProps == nil && out.AddPropsBool == nil {
			out.AddProps, out.AddPropsBool = m.AddProps, m.AddPropsBool
		}
		if m.Items != nil {
			if out.Items == nil {
				out.Items = m.Items
			} else {
				out.Items = mergeFirstWins([]*sg.Schema{out.Items, m.Items}, depth+1, reuse)
			}
		}
		if len(m.AnyOf) > 0 && len(out.AnyOf) == 0 {
			out.AnyOf = m.AnyOf
		}
		for _, p := range m.Props {
			found := false
			for i := range out.Props {
				if out.Props[i].Name == p.Name {
					if !(reuse && claimed[p.Name]) {
						out.Props[i].S = mergeFirstWins([]*sg.Schema{out.Props[i].S, p.S}, depth+1, reuse)
					}
					found = true
				}
			}
			if !found {
				out.Props = append(out.Props, sg.Prop{Name: p.Name, S: p.S})
				if viaRef && declaresNestedStruct(p.S) {
					claimed[p.Name] = true
				}
			}
		}
	}
	return out
}

// declaresNestedStruct: an inline object schema with properties - the generator declares a struct type for it.
func declaresNestedStruct(s *sg.Schema) bool {
	if s == nil || s.Ref != "" || len(s.Props) == 0 {
		return false
	}
	t, _, ok := s.NonNullType()
	return ok && t == "object"
}

func shallowWithoutAllOf(m *sg.Schema) *sg.Schema {
	c := *m
	c.AllOf = nil
	return &c
}

func hasTypeSpecificKeywords(s *sg.Schema) bool {
	return len(s.Props) > 0 || len(s.Required) > 0 || s.AddProps != nil || s.AddPropsBool != nil || s.Items != nil || s.MinItems > 0 || s.MaxItems > 0 ||
		s.Min != nil || s.Max != nil || s.ExMin != nil || s.ExMax != nil || s.MultipleOf != nil || s.MinLen > 0 || s.MaxLen > 0 || s.Pattern != "" || s.Format != ""
}

// enumHasZero reports whether the zero value of the enum's Go type is a member (defect model EnumNullZero).
func enumHasZero(s *sg.Schema) bool {
	kind := ""
	if len(s.Types) == 1 {
		kind = jsonKind(s.Types[0])
	} else {
		for _, e := range s.Enum {
			k := jsonx.Kind(e)
			if kind == "" {
				kind = k
			} else if kind != k {
				kind = "mixed"
			}
		}
	}
	var zero any
	switch kind {
	case "string":
		zero = ""
	case "number":
		zero = jsonx.Num("0")
	case "boolean":
		zero = false
	default:
		zero = nil
	}
	for _, e := range s.Enum {
		if jsonx.Equal(e, zero) {
			return true
		}
	}
	return false
}

func jsonKind(t string) string {
	if t == "integer" {
		return "number"
	}
	return t
}

func isFormatString(s *sg.Schema) bool {
	if t, _, ok := s.NonNullType(); !ok || t != "string" || s.HasEnum {
		return false
	}
	switch s.Format {
	case "date", "time", "date-time", "ipv4", "ipv6":
		return true
	}
	return false
}

// zeroStructRules models F28: UnmarshalJSON("null") on a non-pointer struct runs the value validators
// of its non-pointer primitive fields on their zero values.
func (c *evalCtx) zeroStructRules(s *sg.Schema, path string) {
	for _, p := range s.Props {
		if !s.IsRequired(p.Name) || p.S.HasDefault || p.S.Ref != "" || p.S.HasEnum {
			continue
		}
		t, nullable, ok := p.S.NonNullType()
		if !ok || nullable {
			continue
		}
		switch t {
		case "string":
			if p.S.Format == "" {
				c.evalString(p.S, "", path+"/"+p.Name)
			}
		case "integer", "number":
			c.evalNumber(p.S, "0", path+"/"+p.Name)
		}
	}
}

func typeMatches(t string, v any) bool {
	switch t {
	case "string":
		_, ok := v.(string)
		return ok
	case "boolean":
		_, ok := v.(bool)
		return ok
	case "number":
		_, ok := v.(jsonx.Num)
		return ok
	case "integer":
		n, ok := v.(jsonx.Num)
		return ok && n.PlainInt()
	case "array":
		_, ok := v.([]any)
		return ok
	case "object":
		_, ok := v.(jsonx.Obj)
		return ok
	case "null":
		return v == nil
	}
	return false
}

var (
	maxI64 = new(big.Rat).SetInt(new(big.Int).SetUint64(math.MaxInt64))
	minI64 = new(big.Rat).SetInt(new(big.Int).SetInt64(math.MinInt64))
	max53  = new(big.Rat).SetInt64(1 << 53)
)

// numberInRange: integers within int64, numbers exactly representable (|x| <= 2^53 and short decimal).
func numberInRange(t string, n jsonx.Num) bool {
	r, ok := n.Rat()
	if !ok {
		return false
	}
	if t == "integer" {
		return r.Cmp(maxI64) <= 0 && r.Cmp(minI64) >= 0
	}
	abs := new(big.Rat).Abs(r)
	if abs.Cmp(max53) > 0 {
		return false
	}
	// must round-trip exactly through float64
	f, exact := r.Float64()
	_ = f
	if !exact {
		// decimal fractions like 0.1 are inexact in binary but round-trip textually; allow short ones
		return len(strings.TrimLeft(string(n), "-")) <= 12
	}
	return true
}

func (c *evalCtx) evalNumber(s *sg.Schema, n jsonx.Num, path string) {
	if s.Min == nil && s.Max == nil && s.ExMin == nil && s.ExMax == nil && s.MultipleOf == nil {
		return
	}
	t, _, _ := s.NonNullType()
	isInt := t == "integer"
	if isInt {
		// bounds at or beyond +-2^63 cannot be written exactly in a schema that is read as float64 (RFC 8259
		// interoperability range, DESIGN §3.2); the tool's conversion there is the recorded finding int64-bound-overflow
		for _, b := range []any{s.Min, s.Max, s.ExMin, s.ExMax} {
			var f float64
			switch t := b.(type) {
			case *float64:
				if t == nil {
					continue
				}
				f = *t
			case float64:
				f = t
			default:
				continue
			}
			if math.Abs(f) >= 9223372036854775807 {
				c.dontcare("integer-bound-at-or-beyond-2^63", path)
				return
			}
		}
	}
	// Integers are compared exactly (documents may exceed 2^53); numbers as float64, like every JSON decoder in Go.
	xr, _ := n.Rat()
	if !isInt || xr == nil {
		xr = new(big.Rat).SetFloat64(n.Float())
		if xr == nil {
			c.dontcare("number-not-finite", path)
			return
		}
	}
	// Effective lower/upper bound: the tighter of the stated ones, exclusive wins a tie (the statement's
	// "intersection of all stated bounds"). The defect model IntBoundTrunc truncates the chosen constant toward zero.
	type bnd struct {
		v    float64
		excl bool
		rule string
	}
	pick := func(cands []bnd, lower bool) *bnd {
		var best *bnd
		for i := range cands {
			c := &cands[i]
			if best == nil {
				best = c
				continue
			}
			tighter := c.v > best.v
			if !lower {
				tighter = c.v < best.v
			}
			if tighter || (c.v == best.v && c.excl && !best.excl) {
				best = c
			}
		}
		return best
	}
	var lows, highs []bnd
	if s.Min != nil {
		b, _ := s.ExMin.(bool)
		r := "minimum"
		if b {
			r = "exclusiveMinimum"
		}
		lows = append(lows, bnd{*s.Min, b, r})
	}
	if f, ok := s.ExMin.(float64); ok {
		lows = append(lows, bnd{f, true, "exclusiveMinimum"})
	}
	if s.Max != nil {
		b, _ := s.ExMax.(bool)
		r := "maximum"
		if b {
			r = "exclusiveMaximum"
		}
		highs = append(highs, bnd{*s.Max, b, r})
	}
	if f, ok := s.ExMax.(float64); ok {
		highs = append(highs, bnd{f, true, "exclusiveMaximum"})
	}
	conv := func(b float64) *big.Rat {
		if isInt && c.d.IntBoundTrunc {
			b = math.Trunc(b)
		}
		r := new(big.Rat).SetFloat64(b)
		if r == nil {
			r = new(big.Rat)
		}
		return r
	}
	if lo := pick(lows, true); lo != nil {
		cmp := xr.Cmp(conv(lo.v))
		if cmp < 0 || (cmp == 0 && lo.excl) {
			c.fault(lo.rule, path)
		}
	}
	if hi := pick(highs, false); hi != nil {
		cmp := xr.Cmp(conv(hi.v))
		if cmp > 0 || (cmp == 0 && hi.excl) {
			c.fault(hi.rule, path)
		}
	}
	if s.MultipleOf != nil {
		m := *s.MultipleOf
		r, _ := n.Rat()
		mr := new(big.Rat).SetFloat64(m)
		if mr == nil || mr.Sign() <= 0 {
			c.dontcare("multipleOf-nonpositive", path)
			return
		}
		q := new(big.Rat).Quo(r, mr)
		if q.IsInt() {
			return
		}
		// distance to nearest multiple must be clearly non-zero (tool tolerance 1e-10)
		fq, _ := q.Float64()
		dist := math.Abs(fq-math.Round(fq)) * m
		if dist < 1e-3 {
			c.dontcare("multipleOf-near-multiple", path)
			return
		}
		c.fault("multipleOf", path)
	}
}

func (c *evalCtx) evalString(s *sg.Schema, str string, path string) {
	if s.Format != "" {
		switch s.Format {
		case "date", "time", "date-time", "ipv4", "ipv6":
			if !FormatOK(s.Format, str) {
				c.dontcare("format-noncanonical", path)
			}
			if s.MinLen != 0 || s.MaxLen != 0 || s.Pattern != "" {
				c.dontcare("format-with-string-rules", path)
			}
			return
		}
	}
	l := utf8.RuneCountInString(str)
	if c.d.LenBytes {
		l = len(str)
	}
	if s.MinLen != 0 && l < s.MinLen {
		c.fault("minLength", path)
	}
	if s.MaxLen != 0 && l > s.MaxLen {
		c.fault("maxLength", path)
	}
	if s.Pattern != "" {
		re, ok := c.reCache[s.Pattern]
		if !ok {
			var err error
			re, err = regexp.Compile(s.Pattern)
			if err != nil {
				re = nil
			}
			c.reCache[s.Pattern] = re
		}
		if re == nil {
			c.dontcare("pattern-not-re2", path)
		} else if !re.MatchString(str) {
			c.fault("pattern", path)
		}
	}
}

func (c *evalCtx) evalArray(s *sg.Schema, a []any, path string, pos ctxPos) {
	lim := s
	if t, _, ok := s.NonNullType(); c.d.OuterArrayLimits && pos.outerArr != nil && ok && t == "array" {
		lim = pos.outerArr
	}
	noLim := pos.noArrLim || (c.d.NamedArrayNoLim && pos.viaRef)
	if c.d.NullItemsNoLim && s.Items != nil && len(s.Items.Types) == 1 && s.Items.Types[0] == "null" && s.Items.Ref == "" {
		noLim = true
	}
	if !noLim {
		if lim.MinItems != 0 && len(a) < lim.MinItems {
			c.fault("minItems", path)
		}
		if lim.MaxItems != 0 && len(a) > lim.MaxItems {
			c.fault("maxItems", path)
		}
	}
	if s.Items == nil {
		return
	}
	outer := pos.outerArr
	if outer == nil {
		outer = s
	}
	for i, e := range a {
		ip := fmt.Sprintf("%s/%d", path, i)
		if noLim && s.Items.Ref == "" {
			c.anonItem(s.Items, e, ip, ctxPos{inlineItem: true, outerArr: outer, nonPtr: true, noArrLim: true})
			continue
		}
		c.eval(s.Items, e, ip, ctxPos{inlineItem: s.Items.Ref == "", outerArr: outer, nonPtr: true})
	}
}

// anonItem models an inline item schema inside a named array type: the element type is an anonymous
// Go type without unmarshaler, so only Go typing and the rules of named field types apply.
func (c *evalCtx) anonItem(it *sg.Schema, e any, path string, pos ctxPos) {
	if (len(it.AllOf) > 0 || len(it.AnyOf) > 0) && len(it.Types) == 0 && !it.HasEnum {
		return // an untyped composition as the inline item of a named array is generated as interface{}
	}
	if it.HasEnum || len(it.AnyOf) > 0 {
		c.eval(it, e, path, pos)
		return
	}
	if (len(it.AllOf) > 0 || len(it.AnyOf) > 0) && len(it.Types) == 0 {
		return // an untyped composition as the inline item of a named array is generated as interface{}
	}
	if len(it.AllOf) > 0 {
		// merged anonymous struct: Go typing of the union of the branches' properties only
		if e == nil {
			return
		}
		o, isObj := e.(jsonx.Obj)
		if !isObj {
			c.fault("type", path)
			return
		}
		view := mergedView(it)
		for _, kv := range o {
			if p := view.Prop(kv.K); p != nil {
				c.goDecode(p, kv.V, path+"/"+kv.K)
			}
		}
		return
	}
	t, _, ok := it.NonNullType()
	if !ok {
		c.eval(it, e, path, pos)
		return
	}
	switch {
	case t == "object" && len(it.Props) > 0:
		if e == nil {
			return
		}
		o, isObj := e.(jsonx.Obj)
		if !isObj {
			c.fault("type", path)
			return
		}
		for _, kv := range o {
			if p := it.Prop(kv.K); p != nil {
				c.goDecode(p, kv.V, path+"/"+kv.K)
			}
		}
	case t == "array":
		if e == nil {
			return
		}
		a, isArr := e.([]any)
		if !isArr {
			c.fault("type", path)
			return
		}
		c.evalArray(it, a, path, pos)
	default:
		c.goDecode(it, e, path)
	}
}

func (c *evalCtx) evalObject(s *sg.Schema, o jsonx.Obj, path string, pos ctxPos) {
	seen := map[string]bool{}
	for _, kv := range o {
		if seen[kv.K] {
			c.dontcare("duplicate-key", path)
		}
		seen[kv.K] = true
	}
	for _, r := range s.Required {
		if seen[r] {
			continue
		}
		if p := s.Prop(r); p != nil && p.Resolve() != nil && p.HasDefault {
			c.dontcare("required-with-default-absent", path+"/"+r)
			continue
		}
		if s.Prop(r) == nil && len(s.Props) == 0 {
			c.dontcare("required-without-properties", path+"/"+r)
			continue
		}
		if c.d.UndeclaredRequiredIgnored && s.Prop(r) == nil && !pos.member && len(s.AllOf) == 0 && len(s.AnyOf) == 0 {
			// defect model: a required name without a declared property is not checked - on a plain object only: in a
			// composition a sibling member may declare the name, and the merged struct checks it
			continue
		}
		c.fault("required", path+"/"+r)
	}
	// Absent (or null) keys that declare a default: the tool applies the default and then runs the field's
	// validators on it. In the pure model a default is valid for its schema by construction (otherwise the case is
	// outside the statements: DontCare); under a defect model the default is judged like a document value, because
	// a defective validator may reject it (e.g. default 1 against "maximum 1.5" truncated to "< 1").
	for _, p := range s.Props {
		if !p.S.HasDefault {
			continue
		}
		if v, present := o.Get(p.Name); present && v != nil {
			continue
		}
		sub := &evalCtx{d: c.d, reCache: c.reCache}
		sub.eval(p.S, p.S.Default, path+"/"+p.Name, ctxPos{})
		if len(sub.dc) > 0 {
			c.dontcare("default-in-dontcare-zone", path+"/"+p.Name)
		} else if len(sub.faults) > 0 {
			if *c.d == (Defects{}) {
				c.dontcare("default-not-valid-for-its-schema", path+"/"+p.Name)
			} else {
				c.faults = append(c.faults, sub.faults...)
			}
		}
	}
	lower := map[string]bool{}
	for _, p := range s.Props {
		lower[strings.ToLower(p.Name)] = true
	}
	for _, kv := range o {
		if p := s.Prop(kv.K); p != nil {
			if kv.V == nil && p.HasDefault {
				// null with default: default applies (C09)
				if rp := p.Resolve(); c.d.EnumNullZero && rp != nil && rp.HasEnum {
					if !enumHasZero(rp) {
						c.fault("enum", path+"/"+kv.K)
					}
				} else if c.d.NamedNullZero && p.Ref != "" && rp != nil && !rp.HasEnum {
					// defect model: the field is a non-pointer named type whose UnmarshalJSON is called with null and
					// validates the zero value
					if t, nullable, ok := rp.NonNullType(); ok && !nullable {
						switch t {
						case "integer", "number":
							c.evalNumber(rp, jsonx.N(0), path+"/"+kv.K)
						case "string":
							c.evalString(rp, "", path+"/"+kv.K)
						}
					}
				}
				continue
			}
			c.eval(p, kv.V, path+"/"+kv.K, ctxPos{nonPtr: s.IsRequired(kv.K) && !p.HasDefault})
			continue
		}
		// undeclared key
		if len(s.Props) > 0 && lower[strings.ToLower(kv.K)] {
			c.dontcare("key-case-folds-onto-declared", path+"/"+kv.K)
			continue
		}
		switch {
		case s.AddPropsBool != nil && !*s.AddPropsBool:
			c.dontcare("additionalProperties-false", path+"/"+kv.K)
		case s.AddProps != nil:
			ap := s.AddProps.Resolve()
			if ap != nil {
				if t, _, ok := ap.NonNullType(); ok && (t == "object" || t == "array") && len(s.Props) > 0 {
					// typed by container kind only
					if c.d.AddPropObjLax {
						continue
					}
				}
			}
			if c.d.MapValueAnon && len(s.Props) == 0 && s.AddProps.Ref == "" {
				// map[string]struct{...}: the value type has no unmarshaler of its own
				c.anonItem(s.AddProps, kv.V, path+"/"+kv.K, ctxPos{addProp: true, nonPtr: true, noArrLim: true})
				continue
			}
			c.eval(s.AddProps, kv.V, path+"/"+kv.K, ctxPos{addProp: true})
		}
	}
}

func (c *evalCtx) evalAnyOf(s *sg.Schema, v any, path string) {
	ok := false
	anyDC := false
	for _, b := range s.AnyOf {
		sub := &evalCtx{d: c.d, reCache: c.reCache}
		sub.eval(b, v, path, ctxPos{member: true})
		if len(sub.dc) > 0 {
			anyDC = true
			continue
		}
		if len(sub.faults) == 0 {
			ok = true
		}
	}
	if anyDC {
		c.dontcare("anyOf-branch-dontcare", path)
		return
	}
	if !ok {
		c.fault("anyOf", path)
		return
	}
	if c.d.AnyOfMerged {
		if o, isObj := v.(jsonx.Obj); isObj {
			merged := map[string]*sg.Schema{}
			for _, b := range s.AnyOf {
				if rb := b.Resolve(); rb != nil {
					for _, p := range rb.Props {
						if _, dup := merged[p.Name]; !dup {
							merged[p.Name] = p.S
						}
					}
				}
			}
			for _, kv := range o {
				if p, has := merged[kv.K]; has {
					c.goDecode(p, kv.V, path+"/"+kv.K)
				}
			}
		}
	}
}

// goDecode models decoding into a field of the merged anyOf struct: Go type rules always apply,
// value rules only where the field's type has an unmarshaler of its own (named types).
func (c *evalCtx) goDecode(p *sg.Schema, v any, path string) {
	rp := p.Resolve()
	if rp == nil {
		return
	}
	if p.Ref != "" || rp.HasEnum || len(rp.Props) > 0 {
		c.eval(p, v, path, ctxPos{})
		return
	}
	if v == nil {
		return
	}
	t, _, ok := rp.NonNullType()
	if !ok {
		return
	}
	if t == "array" {
		a, isArr := v.([]any)
		if !isArr {
			c.fault("type", path)
			return
		}
		if rp.Items != nil {
			for i, e := range a {
				c.goDecode(rp.Items, e, fmt.Sprintf("%s/%d", path, i))
			}
		}
		return
	}
	if !typeMatches(t, v) {
		c.fault("type", path)
	}
}
