// Package stage makes a private scratch copy of /repo's working tree, builds the real CLI from it
// and runs it as a monitored child process.
package stage

import (
	"bytes"
	"context"
	"fmt"
	"os"
	"os/exec"
	"path/filepath"
	"runtime"
	"strings"
	"sync"
	"syscall"
	"time"
)

// RepoDir is the tree under test.
var RepoDir = envOr("VERIF_REPO", "/repo")

func envOr(k, d string) string {
	if v := os.Getenv(k); v != "" {
		return v
	}
	return d
}

// Stage is one scratch area; Close removes everything.
type Stage struct {
	Root string
	Repo string
	Bin  string
	mu   sync.Mutex
	n    int
}

// GoEnv is the environment for every go command.
func GoEnv(extra ...string) []string {
	env := []string{}
	for _, e := range os.Environ() {
		if strings.HasPrefix(e, "GOFLAGS=") || strings.HasPrefix(e, "GOWORK=") || strings.HasPrefix(e, "GOPROXY=") ||
			strings.HasPrefix(e, "GOSUMDB=") || strings.HasPrefix(e, "GOTOOLCHAIN=") || strings.HasPrefix(e, "GORACE=") ||
			strings.HasPrefix(e, "GOCOVERDIR=") {
			continue
		}
		env = append(env, e)
	}
	env = append(env, "GOFLAGS=-mod=mod", "GOWORK=off", "GOPROXY=off", "GOSUMDB=off", "GOTOOLCHAIN=local", "CGO_ENABLED=1")
	return append(env, extra...)
}

// New copies the working tree of /repo (without .git) into a fresh scratch directory.
func New() (*Stage, error) {
	base := os.Getenv("VERIF_SCRATCH")
	if base == "" {
		base = os.TempDir()
	}
	root, err := os.MkdirTemp(base, "verif-")
	if err != nil {
		return nil, err
	}
	s := &Stage{Root: root, Repo: filepath.Join(root, "repo"), Bin: filepath.Join(root, "bin")}
	if err := os.MkdirAll(s.Bin, 0o755); err != nil {
		return nil, err
	}
	cmd := exec.Command("rsync", "-a", "--exclude", ".git", RepoDir+"/", s.Repo+"/")
	if out, err := cmd.CombinedOutput(); err != nil {
		s.Close()
		return nil, fmt.Errorf("rsync: %v: %s", err, out)
	}
	return s, nil
}

// Close removes the scratch area.
func (s *Stage) Close() {
	if os.Getenv("VERIF_KEEP") != "" {
		fmt.Fprintln(os.Stderr, "keeping scratch", s.Root)
		return
	}
	_ = exec.Command("chmod", "-R", "u+rwx", s.Root).Run()
	_ = os.RemoveAll(s.Root)
}

// TempDir makes a fresh directory inside the scratch area.
func (s *Stage) TempDir(prefix string) string {
	s.mu.Lock()
	s.n++
	n := s.n
	s.mu.Unlock()
	d := filepath.Join(s.Root, fmt.Sprintf("%s%06d", prefix, n))
	_ = os.MkdirAll(d, 0o755)
	return d
}

// BuildCLI builds the real CLI from the scratch copy (tags verif).
func (s *Stage) BuildCLI(name string, flags ...string) (string, error) {
	out := filepath.Join(s.Bin, name)
	args := append([]string{"build", "-tags", "verif", "-o", out}, flags...)
	args = append(args, ".")
	cmd := exec.Command("go", args...)
	cmd.Dir = s.Repo
	cmd.Env = GoEnv()
	if b, err := cmd.CombinedOutput(); err != nil {
		return "", fmt.Errorf("BUILD-FAIL (tree under test does not build): %v\n%s", err, b)
	}
	return out, nil
}

// GoRun runs a go command inside dir.
func GoRun(dir string, env []string, args ...string) ([]byte, error) {
	cmd := exec.Command("go", args...)
	cmd.Dir = dir
	cmd.Env = GoEnv(env...)
	return cmd.CombinedOutput()
}

// ProcResult is what the process monitor observed.
type ProcResult struct {
	Exit     int // exit status; -1 if killed by signal
	Signal   string
	Stdout   []byte
	Stderr   []byte
	CPU      time.Duration
	TimedOut bool // wall-clock watchdog fired: inconclusive, never a violation
	CPULimit bool // RLIMIT_CPU hit (SIGXCPU/SIGKILL after cpu seconds)
	Err      error
}

// Proc describes a child process run.
type Proc struct {
	Path   string
	Args   []string
	Dir    string
	Stdin  []byte
	Env    []string
	CPUSec int           // RLIMIT_CPU seconds (0 = 20)
	Wall   time.Duration // watchdog (0 = 120s)
}

// Run executes the child under a CPU rlimit and a wall-clock watchdog.
func Run(p Proc) ProcResult {
	cpu := p.CPUSec
	if cpu == 0 {
		cpu = 20
	}
	wall := p.Wall
	if wall == 0 {
		wall = 120 * time.Second
	}
	ctx, cancel := context.WithTimeout(context.Background(), wall)
	defer cancel()
	// ulimit through sh keeps the limit logical (CPU seconds), robust to machine load.
	script := fmt.Sprintf("ulimit -t %d; exec \"$0\" \"$@\"", cpu)
	args := append([]string{"-c", script, p.Path}, p.Args...)
	cmd := exec.CommandContext(ctx, "/bin/sh", args...)
	cmd.Dir = p.Dir
	if p.Env != nil {
		cmd.Env = p.Env
	}
	var so, se bytes.Buffer
	cmd.Stdout, cmd.Stderr = &so, &se
	if p.Stdin != nil {
		cmd.Stdin = bytes.NewReader(p.Stdin)
	}
	cmd.WaitDelay = 2 * time.Second
	err := cmd.Run()
	r := ProcResult{Stdout: so.Bytes(), Stderr: se.Bytes(), Err: err}
	if ctx.Err() != nil {
		r.TimedOut = true
	}
	if cmd.ProcessState != nil {
		r.CPU = cmd.ProcessState.UserTime() + cmd.ProcessState.SystemTime()
		if ws, ok := cmd.ProcessState.Sys().(syscall.WaitStatus); ok {
			if ws.Signaled() {
				r.Exit = -1
				r.Signal = ws.Signal().String()
				if (ws.Signal() == syscall.SIGXCPU || ws.Signal() == syscall.SIGKILL) && !r.TimedOut && r.CPU >= time.Duration(cpu)*time.Second-500*time.Millisecond {
					r.CPULimit = true
				}
			} else {
				r.Exit = ws.ExitStatus()
			}
		}
	} else {
		r.Exit = -2
	}
	return r
}

// Parallel runs f(i) for i in [0,n) on all cores.
func Parallel(n int, f func(i int)) {
	w := runtime.NumCPU()
	if w > n {
		w = n
	}
	if w < 1 {
		w = 1
	}
	var wg sync.WaitGroup
	ch := make(chan int, n)
	for i := 0; i < n; i++ {
		ch <- i
	}
	close(ch)
	for k := 0; k < w; k++ {
		wg.Add(1)
		go func() {
			defer wg.Done()
			for i := range ch {
				f(i)
			}
		}()
	}
	wg.Wait()
}
