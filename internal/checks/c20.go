package checks

import (
	"bytes"
	"encoding/json"
	"fmt"
	"os"
	"path/filepath"
	"sort"
	"strings"

	"verif/internal/batch"
	"verif/internal/cli"
	"verif/internal/evid"
	"verif/internal/gocheck"
	"verif/internal/jsonx"
	"verif/internal/sg"
	"verif/internal/stage"
)

func init() { Register("C20", c20) }

type c20map struct {
	pkg      string // import path
	out      string // output file relative to the module root
	rootType string // expected root type name
}

type c20case struct {
	fs    *sg.FileSet
	maps  map[string]c20map // by file name (s0, ...)
	flags []string
	sig   string
	// localBase: every file carries its own definition "Base" and an allOf over "#/$defs/Base"
	localBase bool
	// anyDefs: untyped definitions referred to across packages
	anyDefs bool
	// noPermute: the case is about one particular argument order (colliding names: §3.11)
	noPermute bool
	// defOut: how the default output is spelled on the command line ("" = defpkg/default.go)
	defOut string
	// noCopies: no root type or definition of the case may come out a second time under a numbered name (X_1)
	noCopies bool
	// wantCopies: type name -> number of declarations (X, X_1, ...) the run must contain: same-named definitions of
	// DIFFERENT content in several schemas of one package are each declared
	wantCopies map[string]int
}

const c20Mod = "example.com/mod"

func c20ModFiles(env *batch.Env) []batch.File {
	mod := fmt.Sprintf("module %s\n\ngo 1.23.0\n\nrequire (\n\tgithub.com/atombender/go-jsonschema v0.0.0\n\tgithub.com/go-viper/mapstructure/v2 v2.1.0\n\tgopkg.in/yaml.v3 v3.0.1\n)\n\nreplace github.com/atombender/go-jsonschema => %s\n", c20Mod, env.St.Repo)
	var sum []byte
	for _, f := range []string{"go.sum", "tests/go.sum"} {
		b, _ := os.ReadFile(filepath.Join(env.St.Repo, f))
		sum = append(sum, b...)
	}
	return []batch.File{{Path: "go.mod", Data: []byte(mod)}, {Path: "go.sum", Data: sum}}
}

func genC20Case(ctx *Ctx, i int) *c20case {
	r := sg.NewRng(ctx.Seed, fmt.Sprintf("C20-case-%d", i))
	o := sg.FSOpts{IDs: true, Dirs: i%2 == 0, YAML: i%5 == 0, DistinctNames: true,
		Gen: sg.Opts{MaxDepth: 2, PDefault: 0.2, PAddProps: 0.2, NoFormats: i%3 != 0, W: map[string]float64{"object": 3, "ref": 2.5, "enum": 2, "compose": 0}}}
	fs := sg.GenFileSet(r, o)
	// distinct property-path type names across files too: prefix the root file names (already distinct: s0, s1, ...)
	c := &c20case{fs: fs, maps: map[string]c20map{}}
	layout := i % 4 // 0: all default, 1: one package several files, 2: distinct packages, 3: mixed incl. equal last path elements
	for k, f := range fs.Files {
		m := c20map{pkg: c20Mod + "/defpkg", out: "defpkg/default.go", rootType: f.RootType()}
		if f.ID != "" {
			switch layout {
			case 1:
				m.pkg, m.out = c20Mod+"/one", fmt.Sprintf("one/%s.go", f.Name)
				if (i/4)%3 == 1 {
					// the value of a mapping is everything after the FIRST '=': file names may contain one
					m.out = fmt.Sprintf("one/%s=v2.go", f.Name)
				}
				if (i/4)%3 == 2 {
					// several ids mapped to ONE file of that package
					m.out = "one/all.go"
				}
			case 2:
				m.pkg, m.out = fmt.Sprintf("%s/pk%d", c20Mod, k), fmt.Sprintf("pk%d/%s.go", k, f.Name)
				if (i/4)%3 == 1 {
					m.out = fmt.Sprintf("pk%d/rev=%d-%s.go", k, k, f.Name)
				}
			case 3:
				if k%2 == 0 {
					m.pkg, m.out = fmt.Sprintf("%s/grp%d/v1", c20Mod, k), fmt.Sprintf("grp%d/v1/%s.go", k, f.Name)
				} else if r.Chance(0.5) {
					m.pkg, m.out = c20Mod+"/shared", fmt.Sprintf("shared/%s.go", f.Name)
				}
			}
			if m.out != "defpkg/default.go" {
				if r.Chance(0.5) {
					c.flags = append(c.flags, "--schema-package="+f.ID+"="+m.pkg, "--schema-output="+f.ID+"="+m.out)
				} else {
					c.flags = append(c.flags, "--schema-package", f.ID+"="+m.pkg, "--schema-output", f.ID+"="+m.out)
				}
			}
			if r.Chance(0.35) {
				m.rootType = "Root" + strings.ToUpper(f.Name)
				c.flags = append(c.flags, "--schema-root-type", f.ID+"="+m.rootType)
			}
		}
		c.maps[f.Name] = m
	}
	if layout == 0 && (i/4)%3 == 1 {
		// the default output spelled in a way that is not its shortest form, and the first schema with an id mapped to
		// that very file with that very spelling: one file, written once, holding everything
		c.defOut = []string{"./defpkg/default.go", "defpkg//default.go", "x/../defpkg/default.go", "defpkg/./default.go"}[(i/12)%4]
		for _, f := range fs.Files {
			if f.ID != "" {
				c.flags = append(c.flags, "--schema-output", f.ID+"="+c.defOut)
				break
			}
		}
	}
	// Go forbids import cycles: drop cross-file references that would close a cycle between the mapped packages
	pkgOf := map[*sg.Schema]string{}
	for _, f := range fs.Files {
		pkgOf[f.Root] = c.maps[f.Name].pkg
		for _, d := range f.Root.Defs {
			pkgOf[d.S] = c.maps[f.Name].pkg
		}
	}
	edges := map[string]map[string]bool{}
	var reach func(from, to string, seen map[string]bool) bool
	reach = func(from, to string, seen map[string]bool) bool {
		if from == to {
			return true
		}
		if seen[from] {
			return false
		}
		seen[from] = true
		for nx := range edges[from] {
			if reach(nx, to, seen) {
				return true
			}
		}
		return false
	}
	for _, f := range fs.Files {
		src := c.maps[f.Name].pkg
		for pi := range f.Root.Props {
			p := f.Root.Props[pi].S
			if p.Ref == "" || strings.HasPrefix(p.Ref, "#") {
				continue
			}
			dst, ok := pkgOf[p.Target]
			if !ok || dst == src {
				continue
			}
			if reach(dst, src, map[string]bool{}) {
				f.Root.Props[pi].S = &sg.Schema{Types: []string{"string"}}
				continue
			}
			if edges[src] == nil {
				edges[src] = map[string]bool{}
			}
			edges[src][dst] = true
		}
	}
	if i%6 == 5 {
		c.flags = append(c.flags, "--extra-imports")
	}
	if layout == 2 && len(fs.Files) > 1 {
		// an "anything" definition (no type, properties or enum) in one package, referred to from another: the
		// reference is interface{}, so the referring file must not import a package it does not use
		for k, f := range fs.Files {
			nx := fs.Files[(k+1)%len(fs.Files)]
			if c.maps[f.Name].pkg == c.maps[nx.Name].pkg || len(nx.Root.Types) != 1 || nx.Root.Types[0] != "object" {
				continue
			}
			meta := &sg.Schema{Desc: "free form"}
			f.Root.Defs = append(f.Root.Defs, sg.Prop{Name: fmt.Sprintf("Meta%d", k), S: meta})
			rel, err := filepath.Rel(filepath.Dir(nx.Path), f.Path)
			if err != nil {
				continue
			}
			nx.Root.Props = append(nx.Root.Props, sg.Prop{Name: fmt.Sprintf("meta%d", k), S: &sg.Schema{Ref: filepath.ToSlash(rel) + "#/$defs/" + fmt.Sprintf("Meta%d", k), Target: meta}})
			c.anyDefs = true
		}
	}
	if layout == 2 && (i/4)%2 == 0 {
		share := map[string]int{}
		for _, f := range fs.Files {
			share[c.maps[f.Name].pkg]++
		}
		for k, f := range fs.Files {
			// only schemas with a package of their own: in a shared package the equal names collide (DESIGN §3.11)
			if len(f.Root.Types) == 1 && f.Root.Types[0] == "object" && share[c.maps[f.Name].pkg] == 1 {
				addLocalBase(f.Root, fmt.Sprintf("%d", k))
				c.localBase = true
			}
		}
	}
	c.sig = fmt.Sprintf("files=%d layout=%d dirs=%v yaml=%v", len(fs.Files), layout, o.Dirs, o.YAML)
	return c
}

func (c *c20case) inv(env *batch.Env, order []int, extra []*sg.SchemaFile, extraFlags []string) *cli.Inv {
	files := c20ModFiles(env)
	for _, f := range c.fs.Files {
		files = append(files, batch.File{Path: filepath.Join("schemas", f.Path), Data: f.Data()})
	}
	defOut := "defpkg/default.go"
	if c.defOut != "" {
		defOut = c.defOut
	}
	args := append([]string{"-p", c20Mod + "/defpkg", "-o", defOut}, c.flags...)
	args = append(args, extraFlags...)
	var inputs []string
	for _, k := range order {
		inputs = append(inputs, filepath.Join("schemas", c.fs.Files[k].Path))
	}
	for _, f := range extra {
		files = append(files, batch.File{Path: filepath.Join("schemas", f.Path), Data: f.Data()})
	}
	// decoys: files of the same base name as the schemas, in the working directory and one level up from each schema
	// directory - not part of the invocation, never referred to (relative references resolve against the referring
	// document, not against where the tool happens to run)
	have := map[string]bool{}
	for _, f := range files {
		have[f.Path] = true
	}
	for _, f := range c.fs.Files {
		for _, d := range []string{filepath.Base(f.Path), filepath.Join("schemas", filepath.Base(f.Path)), filepath.Join(filepath.Dir(filepath.Dir(filepath.Join("schemas", f.Path))), filepath.Base(f.Path))} {
			if !have[d] && !strings.HasPrefix(d, "..") {
				have[d] = true
				files = append(files, batch.File{Path: d, Data: []byte(`{"$id":"https://example.com/decoy/` + f.Name + `","type":"object","properties":{"decoyOnly":{"type":"string"}},"required":["decoyOnly"]}`)})
			}
		}
	}
	return &cli.Inv{Files: files, Args: append(args, inputs...)}
}

func c20(ctx *Ctx) (*Outcome, error) {
	n := ctx.N(90, 1500)
	type res struct {
		problems []string
		skipped  string
		runs     int
		builds   int
		dir      string
	}
	cases := make([]*c20case, n)
	results := make([]res, n)
	for i := range cases {
		cases[i] = genC20Case(ctx, i)
	}
	cases = append(cases, c20NameTakenCases()...)
	cases = append(cases, c20NearNameCases()...)
	cases = append(cases, c20EnumConstCases()...)
	cases = append(cases, c20SharedIDCases()...)
	cases = append(cases, c20TypelessRootCases()...)
	cases = append(cases, c20SameNameDefaultCases()...)
	cases = append(cases, c20TypedRefDefinitionCases()...)
	n = len(cases)
	results = make([]res, n)
	stage.Parallel(n, func(i int) {
		c := cases[i]
		r := sg.NewRng(ctx.Seed, fmt.Sprintf("C20-run-%d", i))
		var rs res
		ident := make([]int, len(c.fs.Files))
		for k := range ident {
			ident[k] = k
		}
		base := cli.Run(ctx.Env, c.inv(ctx.Env, ident, nil, nil))
		rs.runs++
		rs.dir = base.Dir
		if base.Proc.Exit != 0 {
			rs.skipped = "refused: " + base.Failed()
			results[i] = rs
			return
		}
		outs := base.Outputs()
		// (1)+(2) file and declaration census
		expectFiles := map[string]string{} // out -> package name
		for _, f := range c.fs.Files {
			m := c.maps[f.Name]
			expectFiles[m.out] = m.pkg[strings.LastIndex(m.pkg, "/")+1:]
		}
		parsed := map[string]map[string]string{}
		for out, pkgName := range expectFiles {
			src, ok := outs[out]
			if !ok {
				rs.problems = append(rs.problems, fmt.Sprintf("expected output file %s was not written (written: %v)", out, keysOf(outs)))
				continue
			}
			fset, af, err := gocheck.ParseOnly(src)
			if err != nil {
				rs.problems = append(rs.problems, fmt.Sprintf("%s does not parse: %v", out, err))
				continue
			}
			if af.Name.Name != pkgName {
				rs.problems = append(rs.problems, fmt.Sprintf("%s declares package %s, mapped package is %s", out, af.Name.Name, pkgName))
			}
			parsed[out] = gocheck.DeclStrings(fset, af, false)
		}
		for out := range outs {
			if _, ok := expectFiles[out]; !ok && strings.HasSuffix(out, ".go") {
				rs.problems = append(rs.problems, "unexpected output file "+out)
			}
		}
		expectNames := map[string]map[string]bool{}
		for _, f := range c.fs.Files {
			m := c.maps[f.Name]
			if expectNames[m.out] == nil {
				expectNames[m.out] = map[string]bool{}
			}
			expectNames[m.out][m.rootType] = true
			for _, d := range f.Root.Defs {
				expectNames[m.out][d.Name] = true
			}
		}
		for _, f := range c.fs.Files {
			m := c.maps[f.Name]
			want := []string{m.rootType}
			for _, d := range f.Root.Defs {
				want = append(want, d.Name)
			}
			for _, tn := range want {
				count, where := 0, []string{}
				for out, decls := range parsed {
					if out != m.out && expectNames[out][tn] {
						continue // another schema legitimately declares a type of this name in its own file
					}
					if _, ok := decls["type "+tn]; ok {
						count++
						where = append(where, out)
					}
				}
				switch {
				case count == 0:
					// definitions that the tool maps to interface{} (untyped, no properties, no enum) have no declaration
					if tn != m.rootType && isUndeclaredDef(f.Root, tn) {
						continue
					}
					rs.problems = append(rs.problems, fmt.Sprintf("type %s of schema %s is declared nowhere", tn, f.Name))
				case count > 1:
					rs.problems = append(rs.problems, fmt.Sprintf("type %s of schema %s is declared %d times: %v", tn, f.Name, count, where))
				case where[0] != m.out:
					rs.problems = append(rs.problems, fmt.Sprintf("type %s of schema %s is declared in %s, mapped output is %s", tn, f.Name, where[0], m.out))
				}
			}
		}
		for base, want := range c.wantCopies {
			got := 0
			for _, decls := range parsed {
				for d := range decls {
					tn := strings.TrimPrefix(d, "type ")
					if !strings.HasPrefix(d, "type ") {
						continue
					}
					if tn == base {
						got++
					} else if strings.HasPrefix(tn, base+"_") && strings.Trim(tn[len(base)+1:], "0123456789") == "" {
						got++
					}
				}
			}
			if got != want {
				rs.problems = append(rs.problems, fmt.Sprintf("%d schemas define a type %s of their own (different content), %d declarations %s / %s_N are emitted", want, base, got, base, base))
			}
		}
		if c.noCopies {
			for out, decls := range parsed {
				for d := range decls {
					if !strings.HasPrefix(d, "type ") {
						continue
					}
					tn := strings.TrimPrefix(d, "type ")
					if k := strings.LastIndexByte(tn, '_'); k > 0 && strings.Trim(tn[k+1:], "0123456789") == "" && tn[k+1:] != "" {
						for _, names := range expectNames {
							if names[tn[:k]] {
								rs.problems = append(rs.problems, fmt.Sprintf("type %s is declared a second time as %s in %s", tn[:k], tn, out))
							}
						}
					}
				}
			}
		}
		// (4) the emitted packages build together
		if out, err := stage.GoRun(base.Dir, nil, "build", "./..."); err != nil {
			rs.problems = append(rs.problems, "go build ./... of the emitted packages fails: "+trunc(string(out), 500))
		}
		rs.builds++
		// (5) argument permutations
		perms := allPerms(len(ident), ctx.N(5, 23), r)
		if c.noPermute {
			perms = nil
		}
		for _, p := range perms {
			pr := cli.Run(ctx.Env, c.inv(ctx.Env, p, nil, nil))
			rs.runs++
			if d := diffOutputs(outs, pr.Outputs(), nil); d != "" || pr.Proc.Exit != 0 {
				rs.problems = append(rs.problems, fmt.Sprintf("argument order %v changes the result (exit %d): %s", p, pr.Proc.Exit, d))
			}
			pr.Cleanup()
		}
		// (5b) a schema with an output file of its own, generated alone, yields that file byte-identically
		if len(c.fs.Files) > 1 {
			share := map[string]int{}
			for _, f := range c.fs.Files {
				share[c.maps[f.Name].out]++
			}
			solo := 0
			for k, f := range c.fs.Files {
				m := c.maps[f.Name]
				if share[m.out] != 1 || solo >= ctx.N(2, 4) {
					continue
				}
				if len(f.Root.Types) == 0 && len(f.Root.Props) > 0 {
					// a root without `type` that carries properties: on its own the tool emits nothing for it, through a
					// reference it is read as an object - DESIGN §3.17, not asserted
					continue
				}
				solo++
				sr := cli.Run(ctx.Env, c.inv(ctx.Env, []int{k}, nil, nil))
				rs.runs++
				if sr.Proc.Exit != 0 {
					rs.problems = append(rs.problems, fmt.Sprintf("schema %s alone is refused although the whole set is accepted: %s", f.Name, sr.Failed()))
				} else if so := sr.Outputs(); !bytes.Equal(so[m.out], outs[m.out]) {
					rs.problems = append(rs.problems, fmt.Sprintf("the code of schema %s (%s) depends on which other schemas are in the run: alone vs together: %s", f.Name, m.out, declDiff(so[m.out], outs[m.out])))
				}
				sr.Cleanup()
			}
		}
		// (5c) field census of the composed struct: it carries the fields of its own file's Base
		if c.localBase {
			for k, f := range c.fs.Files {
				m := c.maps[f.Name]
				decls := parsed[m.out]
				if decls == nil {
					continue
				}
				tag := fmt.Sprintf("%d", k)
				found := false
				for name, text := range decls {
					if strings.HasPrefix(name, "type ") && strings.HasSuffix(name, "Details"+tag) {
						found = true
						if !strings.Contains(text, "Fk"+tag+" ") || !strings.Contains(text, "Own"+tag+" ") {
							rs.problems = append(rs.problems, fmt.Sprintf("struct %s of schema %s lacks the fields of its own Base/own member: %s", name, f.Name, trunc(text, 300)))
						}
					}
				}
				hasBase := false
				for _, d := range f.Root.Defs {
					hasBase = hasBase || d.Name == "Base"
				}
				if !found && hasBase {
					rs.problems = append(rs.problems, fmt.Sprintf("schema %s: no struct declared for the allOf property details%s", f.Name, tag))
				}
			}
		}
		// (6) unrelated extra files (own id, own package and output, disjoint names)
		for k := 0; k < ctx.N(2, 4); k++ {
			ex := sg.GenFileSet(r, sg.FSOpts{N: 1 + k%2, IDs: true, DistinctNames: true, Gen: sg.Opts{MaxDepth: 2, NoFormats: true}})
			var exFlags []string
			var exFiles []*sg.SchemaFile
			for x, f := range ex.Files {
				f.Name = fmt.Sprintf("u%d", x)
				f.Path = filepath.Join("unrelated", f.Name+".json")
				f.ID = "https://example.com/unrelated/" + f.Name
				f.Root.ID = f.ID
				for di := range f.Root.Defs {
					f.Root.Defs[di].Name = "U" + f.Root.Defs[di].Name
				}
				f.Root.Walk(func(s *sg.Schema) {
					for _, pre := range []string{"#/$defs/", "#/definitions/"} {
						if strings.HasPrefix(s.Ref, pre) && !strings.HasPrefix(s.Ref, pre+"U") {
							s.Ref = pre + "U" + s.Ref[len(pre):]
						}
					}
					if s.Ref != "" && !strings.HasPrefix(s.Ref, "#") {
						s.Ref, s.Target = "", nil // no references into the original set
						s.Types = []string{"string"}
					}
				})
				if x == 0 && len(f.Root.Types) == 1 && f.Root.Types[0] == "object" {
					addLocalBase(f.Root, "x")
				}
				exFlags = append(exFlags, "--schema-package", f.ID+"="+c20Mod+"/extra", "--schema-output", f.ID+"="+fmt.Sprintf("extra/%s.go", f.Name))
				exFiles = append(exFiles, f)
			}
			inv := c.inv(ctx.Env, ident, exFiles, exFlags)
			pos := r.IntN(3)
			var exIn []string
			for _, f := range exFiles {
				exIn = append(exIn, filepath.Join("schemas", f.Path))
			}
			nIn := len(ident)
			head, tail := inv.Args[:len(inv.Args)-nIn], inv.Args[len(inv.Args)-nIn:]
			switch pos {
			case 0:
				inv.Args = append(append(append([]string{}, head...), exIn...), tail...)
			case 1:
				inv.Args = append(append(append([]string{}, head...), tail...), exIn...)
			default:
				mid := nIn / 2
				inv.Args = append(append(append(append([]string{}, head...), tail[:mid]...), exIn...), tail[mid:]...)
			}
			er := cli.Run(ctx.Env, inv)
			rs.runs++
			if er.Proc.Exit != 0 {
				rs.problems = append(rs.problems, "adding unrelated files makes the run fail: "+er.Failed())
			} else if d := diffOutputs(outs, er.Outputs(), func(name string) bool { return strings.HasPrefix(name, "extra/") }); d != "" {
				rs.problems = append(rs.problems, fmt.Sprintf("adding unrelated files (position %d) changes the code of the original schemas: %s", pos, d))
			}
			er.Cleanup()
		}
		results[i] = rs
	})
	var viols []Viol
	sigs := map[string]bool{}
	var samples []any
	runs, builds, okCases, skipped := 0, 0, 0, 0
	// two-step use: a referenced schema is generated on its own (package + output), and the referring schema later with
	// a package mapping only ("the other package exists already"): the referring file must name the same types as
	// when both are generated in one run
	for v := 0; v < ctx.N(6, 12); v++ {
		other := `{"$id":"https://example.com/two/other","type":"object","properties":{"order":{"$ref":"#/$defs/Order"}},"$defs":{` +
			`"Order":{"type":"object","properties":{"item":{"type":"object","properties":{"productId":{"type":"string"}},"required":["productId"]},"state":{"type":"string","enum":["new","done"]}}},` +
			`"OrderItem":{"type":"object","properties":{"sku":{"type":"string"},"qty":{"type":"integer"}},"required":["sku"]},` +
			`"order_state":{"type":"integer","minimum":1},"OrderState":{"type":"boolean"}}}`
		refs := [][]string{{"OrderItem"}, {"OrderItem", "Order"}, {"Order", "OrderItem"}, {"OrderState", "order_state"}, {"order_state", "OrderItem", "OrderState"}, {"Order"}}[v%6]
		props := ""
		for k, r := range refs {
			if k > 0 {
				props += ","
			}
			props += fmt.Sprintf(`"p%d":{"$ref":"other.json#/$defs/%s"}`, k, r)
		}
		mainS := `{"$id":"https://example.com/two/main","type":"object","properties":{` + props + `}}`
		files := append(c20ModFiles(ctx.Env), batch.File{Path: "schemas/other.json", Data: []byte(other)}, batch.File{Path: "schemas/main.json", Data: []byte(mainS)})
		common := []string{"-p", c20Mod + "/defpkg", "-o", "defpkg/default.go", "--schema-package", "https://example.com/two/other=" + c20Mod + "/other", "--schema-package", "https://example.com/two/main=" + c20Mod + "/mainpkg", "--schema-output", "https://example.com/two/main=mainpkg/main.go"}
		if v >= 6 {
			common = append(common, "--extra-imports")
		}
		joint := cli.Run(ctx.Env, &cli.Inv{Files: files, Args: append(append([]string{}, common...), "--schema-output", "https://example.com/two/other=other/other.go", "schemas/main.json")})
		twostep := cli.Run(ctx.Env, &cli.Inv{Files: files, Args: append(append([]string{}, common...), "schemas/main.json")})
		alone := cli.Run(ctx.Env, &cli.Inv{Files: files, Args: append(append([]string{}, common...), "--schema-output", "https://example.com/two/other=other/other.go", "schemas/other.json")})
		runs += 3
		sigs[fmt.Sprintf("two-step refs=%v", refs)] = true
		problem := ""
		switch {
		case joint.Proc.Exit != 0 || twostep.Proc.Exit != 0 || alone.Proc.Exit != 0:
			problem = fmt.Sprintf("two-step layout refused: joint=%d (%s) twostep=%d (%s) alone=%d", joint.Proc.Exit, joint.Failed(), twostep.Proc.Exit, twostep.Failed(), alone.Proc.Exit)
		case !bytes.Equal(joint.Outputs()["mainpkg/main.go"], twostep.Outputs()["mainpkg/main.go"]):
			problem = "the referring file names other types when the referenced schema is mapped to a package without an output file: " + declDiff(joint.Outputs()["mainpkg/main.go"], twostep.Outputs()["mainpkg/main.go"])
		case !bytes.Equal(joint.Outputs()["other/other.go"], alone.Outputs()["other/other.go"]):
			problem = "the referenced package differs between 'generated on its own' and 'generated through the reference': " + declDiff(joint.Outputs()["other/other.go"], alone.Outputs()["other/other.go"])
		}
		if problem != "" && len(viols) < 10 {
			rp := filepath.Join(evid.ReplayDir(), fmt.Sprintf("C20-twostep-%d", v))
			_ = os.RemoveAll(rp)
			_ = osexec("cp", "-r", twostep.Dir, rp)
			viols = append(viols, Viol{Replay: rp, Summary: trunc(problem, 700) + fmt.Sprintf("\n refs=%v", refs)})
		}
		joint.Cleanup()
		twostep.Cleanup()
		alone.Cleanup()
	}
	skipReasons := map[string]int{}
	vseen := map[string]bool{}
	knownHits := map[string]int{}
	for i, c := range cases {
		rs := results[i]
		runs += rs.runs
		builds += rs.builds
		if rs.skipped != "" {
			skipped++
			skipReasons[classifyDiag(rs.skipped)]++
			_ = os.RemoveAll(rs.dir)
			continue
		}
		okCases++
		sigs[c.sig+"|"+strings.Join(optNames(c.flags), ",")] = true
		if len(samples) < 4 && i%23 == 2 {
			samples = append(samples, map[string]any{"files": fileNames(c.fs), "flags": c.flags, "cli_runs": rs.runs, "problems": len(rs.problems)})
		}
		for _, p := range rs.problems {
			if sig := c20Explain(ctx, c, p); sig != "" {
				knownHits[sig]++
				continue
			}
			key := classifyDiag(p)
			if vseen[key] || len(viols) >= 10 {
				continue
			}
			vseen[key] = true
			rp := filepath.Join(evid.ReplayDir(), fmt.Sprintf("C20-%d", len(viols)))
			_ = os.RemoveAll(rp)
			_ = osexec("cp", "-r", rs.dir, rp)
			b, _ := json.MarshalIndent(map[string]any{"property": "C20", "flags": c.flags, "files": fileNames(c.fs), "problem": p}, "", " ")
			_ = os.WriteFile(filepath.Join(rp, "verif-summary.json"), b, 0o644)
			viols = append(viols, Viol{Replay: rp, Summary: trunc(p, 700) + fmt.Sprintf("\n flags=%v files=%v", c.flags, fileNames(c.fs))})
		}
		_ = os.RemoveAll(rs.dir)
	}
	o := &Outcome{Level: "exploration", Violations: viols}
	o.Coverage = map[string]any{
		"evaluations":         runs,
		"distinct_nontrivial": len(sigs),
		"rule":                "sets of 1-4 schema files with random cross references (whole files and definitions, JSON/YAML, spread over directories) x id / package / output / root-type mappings (all default, one package several files, distinct packages, mixed incl. import paths with equal last element) run through the real CLI inside a Go module whose import paths match the mappings; monitors: file census (mapped path, package clause), declaration census (root type and every definition of every schema exactly once, in its mapped file), go build ./... of everything emitted, and history relations: every/ sampled permutations of the arguments and the same invocation plus 1-2 unrelated schema files (own ids, package, outputs) at the front/middle/end must leave every original output byte-identical; distinct_nontrivial = distinct (layout, mapping flags) combinations",
		"samples":             samples,
		"cases":               okCases,
		"cases_refused":       skipped,
		"refusal_reasons":     skipReasons,
		"cli_runs":            runs,
		"go_builds":           builds,
		"known_finding_hits":  knownHits,
	}
	if len(samples) == 0 {
		o.Coverage["samples"] = []any{"none"}
	}
	o.Assumptions = []string{"unrelated/original schemas use disjoint type names (DESIGN §3.11: same-package name collisions necessarily produce order-dependent suffixes)", "in the random layouts a schema mapped with --schema-package is always given a --schema-output too (package without output means 'do not emit' by design of the tool); the two-step stratum covers the package-only mapping of a referenced schema"}
	for s := range knownHits {
		if e, ok := ctx.Known.Get(s); ok {
			o.KnownLines = append(o.KnownLines, fmt.Sprintf("sig=%s %s", e.Sig, e.Text))
		}
	}
	sort.Strings(o.KnownLines)
	if okCases < n/2 {
		o.Inconclusive = fmt.Sprintf("only %d of %d cases accepted: %v", okCases, n, skipReasons)
	}
	return o, nil
}

// c20NameTakenCases: an earlier file declares a type whose Go name is the root type name of a later file (definition
// "customer" of order.json, file customer.json under --resolve-extension .json): the later file's own definitions
// are still declared.
func c20NameTakenCases() []*c20case {
	var out []*c20case
	for v := 0; v < 4; v++ {
		cust := &sg.Schema{Types: []string{"object"}, Props: []sg.Prop{{Name: "name", S: &sg.Schema{Types: []string{"string"}}}}}
		order := &sg.Schema{ID: "https://example.com/nt/order", Types: []string{"object"}, Defs: []sg.Prop{{Name: "Customer", S: cust}},
			Props: []sg.Prop{{Name: "buyer", S: &sg.Schema{Ref: "#/$defs/Customer", Target: cust}}}}
		loyalty := &sg.Schema{Types: []string{"object"}, Props: []sg.Prop{{Name: "points", S: &sg.Schema{Types: []string{"integer"}, Min: sg.Fp(0)}}}, Required: []string{"points"}}
		customer := &sg.Schema{ID: "https://example.com/nt/customer", Types: []string{"object"}, Defs: []sg.Prop{{Name: "Loyalty", S: loyalty}},
			Props: []sg.Prop{{Name: "name", S: &sg.Schema{Types: []string{"string"}}}}}
		if v%2 == 1 {
			customer.Props = append(customer.Props, sg.Prop{Name: "tier", S: &sg.Schema{Ref: "#/$defs/Loyalty", Target: loyalty}})
		}
		fo := &sg.SchemaFile{Path: "order.json", Root: order, ID: order.ID, Name: "ntorder"}
		fc := &sg.SchemaFile{Path: "customer.json", Root: customer, ID: customer.ID, Name: "ntcustomer"}
		c := &c20case{fs: &sg.FileSet{Files: []*sg.SchemaFile{fo, fc}}, maps: map[string]c20map{}, flags: []string{"--resolve-extension", ".json"}}
		if v >= 2 {
			c.fs.Files = []*sg.SchemaFile{fc, fo}
		}
		// both roots and the definition "customer" want the name Customer; which schema ends up behind that name is not
		// asserted here - only that every name is declared, and declared once
		c.maps["ntorder"] = c20map{pkg: c20Mod + "/defpkg", out: "defpkg/default.go", rootType: "Order"}
		c.maps["ntcustomer"] = c20map{pkg: c20Mod + "/defpkg", out: "defpkg/default.go", rootType: "Customer"}
		c.noPermute = true
		c.sig = fmt.Sprintf("name-taken layout v=%d", v)
		out = append(out, c)
	}
	return out
}

// addLocalBase gives a schema a definition "Base" of its own and a property composed from it: the same local
// reference text ("#/$defs/Base") then means a different definition in every file of the run.
func addLocalBase(root *sg.Schema, tag string) {
	base := &sg.Schema{Types: []string{"object"}, Props: []sg.Prop{{Name: "fk" + tag, S: &sg.Schema{Types: []string{"integer"}}}, {Name: "common", S: &sg.Schema{Types: []string{"string"}}}}, Required: []string{"fk" + tag}}
	root.Defs = append(root.Defs, sg.Prop{Name: "Base", S: base})
	root.Props = append(root.Props, sg.Prop{Name: "details" + tag, S: &sg.Schema{AllOf: []*sg.Schema{{Ref: "#/$defs/Base", Target: base}, {Types: []string{"object"}, Props: []sg.Prop{{Name: "own" + tag, S: &sg.Schema{Types: []string{"boolean"}}}}}}}})
}

func c20Explain(ctx *Ctx, c *c20case, problem string) string { return "" }

func isUndeclaredDef(root *sg.Schema, name string) bool {
	for _, d := range root.Defs {
		if d.Name == name {
			s := d.S
			return len(s.Types) == 0 && len(s.Props) == 0 && !s.HasEnum
		}
	}
	return false
}

func keysOf(m map[string][]byte) []string {
	var out []string
	for k := range m {
		out = append(out, k)
	}
	sort.Strings(out)
	return out
}

func diffOutputs(a, b map[string][]byte, ignore func(string) bool) string {
	for name, av := range a {
		if ignore != nil && ignore(name) {
			continue
		}
		bv, ok := b[name]
		if !ok {
			return "file " + name + " is no longer written"
		}
		if !bytes.Equal(av, bv) {
			// the statement is about the code generated for a schema: compare declaration by declaration (the order of
			// declarations inside a file shared by several schemas may follow the processing order)
			if d := declDiff(av, bv); d != "" {
				return "file " + name + " differs: " + d
			}
		}
	}
	for name := range b {
		if ignore != nil && ignore(name) {
			continue
		}
		if _, ok := a[name]; !ok {
			return "additional file " + name
		}
	}
	return ""
}

func allPerms(n, limit int, r *sg.Rng) [][]int {
	if n <= 1 {
		return nil
	}
	var out [][]int
	var rec func(cur []int, used []bool)
	rec = func(cur []int, used []bool) {
		if len(cur) == n {
			id := true
			for i, v := range cur {
				id = id && i == v
			}
			if !id {
				out = append(out, append([]int{}, cur...))
			}
			return
		}
		for i := 0; i < n; i++ {
			if !used[i] {
				used[i] = true
				rec(append(cur, i), used)
				used[i] = false
			}
		}
	}
	rec(nil, make([]bool, n))
	if len(out) > limit {
		r.Shuffle(len(out), func(i, j int) { out[i], out[j] = out[j], out[i] })
		out = out[:limit]
	}
	return out
}

var _ = jsonx.Marshal

func declDiff(a, b []byte) string {
	if !bytes.HasSuffix(a, []byte("\n")) && len(a) == 0 {
		return "empty"
	}
	fa, filea, ea := gocheck.ParseOnly(a)
	fb, fileb, eb := gocheck.ParseOnly(b)
	if ea != nil || eb != nil {
		return firstDiff(string(a), string(b))
	}
	da, db := gocheck.DeclStrings(fa, filea, false), gocheck.DeclStrings(fb, fileb, false)
	for k, v := range da {
		if w, ok := db[k]; !ok {
			return "declaration " + k + " disappears"
		} else if v != w {
			return "declaration " + k + " differs: " + firstDiff(v, w)
		}
	}
	for k := range db {
		if _, ok := da[k]; !ok {
			return "additional declaration " + k
		}
	}
	return ""
}

// c20NearNameCases: files whose relative paths differ only in a leading run of the letters of "file:" (fi/address.json
// and ie/address.json, e.json and f.json, email.json and mail.json, fname.json and lname.json) - each is a schema of
// its own, in a package of its own, referred to from a third file.
func c20NearNameCases() []*c20case {
	var out []*c20case
	pairs := [][2]string{{"fi/address.json", "ie/address.json"}, {"e.json", "f.json"}, {"email.json", "mail.json"}, {"fname.json", "lname.json"}, {"el/item.yaml", "le/item.yaml"}}
	for v, pr := range pairs {
		for ord := 0; ord < 2; ord++ {
			mk := func(k int, path string) *sg.SchemaFile {
				code := &sg.Schema{Types: []string{"string"}, MinLen: k + 2}
				root := &sg.Schema{ID: fmt.Sprintf("https://example.com/near/%d/%d", v, k), Types: []string{"object"}, Defs: []sg.Prop{{Name: "Code", S: code}},
					Props: []sg.Prop{{Name: fmt.Sprintf("own%d", k), S: &sg.Schema{Types: []string{"integer"}}}, {Name: "code", S: &sg.Schema{Ref: "#/$defs/Code", Target: code}}}, Required: []string{fmt.Sprintf("own%d", k)}}
				return &sg.SchemaFile{Path: path, Root: root, ID: root.ID, Name: fmt.Sprintf("near%d", k), YAML: strings.HasSuffix(path, ".yaml")}
			}
			a, b := mk(0, pr[0]), mk(1, pr[1])
			main := &sg.Schema{ID: fmt.Sprintf("https://example.com/near/%d/main", v), Types: []string{"object"}, Props: []sg.Prop{
				{Name: "first", S: &sg.Schema{Ref: pr[0], Target: a.Root}}, {Name: "second", S: &sg.Schema{Ref: pr[1], Target: b.Root}},
				{Name: "firstCode", S: &sg.Schema{Ref: pr[0] + "#/$defs/Code", Target: a.Root.Defs[0].S}}, {Name: "secondCode", S: &sg.Schema{Ref: pr[1] + "#/$defs/Code", Target: b.Root.Defs[0].S}}}}
			fm := &sg.SchemaFile{Path: "customer.json", Root: main, ID: main.ID, Name: "nearmain"}
			c := &c20case{fs: &sg.FileSet{Files: []*sg.SchemaFile{fm, a, b}}, maps: map[string]c20map{}, noPermute: true, sig: fmt.Sprintf("near-names %s / %s order=%d", pr[0], pr[1], ord)}
			if ord == 1 {
				c.fs.Files = []*sg.SchemaFile{b, a, fm}
			}
			c.maps["nearmain"] = c20map{pkg: c20Mod + "/defpkg", out: "defpkg/default.go", rootType: "CustomerJson"}
			for k, f := range []*sg.SchemaFile{a, b} {
				m := c20map{pkg: fmt.Sprintf("%s/near%d", c20Mod, k), out: fmt.Sprintf("near%d/gen.go", k), rootType: fmt.Sprintf("Near%d", k)}
				c.maps[f.Name] = m
				c.flags = append(c.flags, "--schema-package", f.ID+"="+m.pkg, "--schema-output", f.ID+"="+m.out, "--schema-root-type", f.ID+"="+m.rootType)
			}
			out = append(out, c)
		}
	}
	return out
}

// c20EnumConstCases: two schemas, each in a package and file of its own, each with a string enum definition of the
// SAME name whose values are different strings that map to the same constant identifier ("in-progress" /
// "in_progress"): each schema's file holds all of its constants, whatever else is generated in the run.
func c20EnumConstCases() []*c20case {
	var out []*c20case
	for v := 0; v < 3; v++ {
		vals := [][2][]any{{{"open", "in-progress", "done"}, {"open", "in_progress", "closed"}}, {{"a b", "c"}, {"a-b", "c"}}, {{"X.Y", "z"}, {"x y", "z"}}}[v]
		mk := func(k int, name string) *sg.SchemaFile {
			st := &sg.Schema{Types: []string{"string"}, HasEnum: true, Enum: vals[k]}
			root := &sg.Schema{ID: fmt.Sprintf("https://example.com/enumconst/%d/%s", v, name), Types: []string{"object"}, Defs: []sg.Prop{{Name: "Status", S: st}},
				Props: []sg.Prop{{Name: "status", S: &sg.Schema{Ref: "#/$defs/Status", Target: st}}, {Name: name + "No", S: &sg.Schema{Types: []string{"integer"}}}}}
			return &sg.SchemaFile{Path: name + ".json", Root: root, ID: root.ID, Name: name}
		}
		a, b := mk(0, "orders"), mk(1, "tickets")
		c := &c20case{fs: &sg.FileSet{Files: []*sg.SchemaFile{a, b}}, maps: map[string]c20map{}, sig: fmt.Sprintf("enum-constants-across-packages v=%d", v)}
		for _, f := range []*sg.SchemaFile{a, b} {
			m := c20map{pkg: c20Mod + "/" + f.Name, out: f.Name + "/gen.go", rootType: f.RootType()}
			c.maps[f.Name] = m
			c.flags = append(c.flags, "--schema-package", f.ID+"="+m.pkg, "--schema-output", f.ID+"="+m.out)
		}
		out = append(out, c)
	}
	return out
}

// c20SharedIDCases: two (three) schema FILES that carry the same $id - an id names a mapping, not a file - next to a
// schema in another package that refers to one of them (whole file and one of its definitions): every file's root type
// and every definition is still declared exactly once, in the file the shared id is mapped to (or the default output),
// for every order of the arguments, with the referring schema before, between or after them.
func c20SharedIDCases() []*c20case {
	var out []*c20case
	for v := 0; v < 6; v++ {
		const id = "https://example.com/shared/billing"
		mk := func(name string, k int) *sg.SchemaFile {
			line := &sg.Schema{Types: []string{"object"}, Props: []sg.Prop{{Name: fmt.Sprintf("%sQty", name), S: &sg.Schema{Types: []string{"integer"}, Min: sg.Fp(float64(k))}}}, Required: []string{fmt.Sprintf("%sQty", name)}}
			spare := &sg.Schema{Types: []string{"string"}, HasEnum: true, Enum: []any{name + "-a", name + "-b"}}
			root := &sg.Schema{ID: id, Types: []string{"object"}, Defs: []sg.Prop{{Name: strings.ToUpper(name[:1]) + name[1:] + "Line", S: line}, {Name: strings.ToUpper(name[:1]) + name[1:] + "Spare", S: spare}},
				Props: []sg.Prop{{Name: name + "No", S: &sg.Schema{Types: []string{"integer"}}}, {Name: "lines", S: &sg.Schema{Types: []string{"array"}, Items: &sg.Schema{Ref: "#/$defs/" + strings.ToUpper(name[:1]) + name[1:] + "Line", Target: line}}}}, Required: []string{name + "No"}}
			if v%3 == 2 {
				root.IDKey = "id"
			}
			return &sg.SchemaFile{Path: name + ".json", Root: root, ID: id, Name: name}
		}
		files := []*sg.SchemaFile{mk("customer", 1), mk("invoice", 2)}
		if v >= 3 {
			files = append(files, mk("receipt", 3))
		}
		inv := files[1]
		order := &sg.Schema{ID: "https://example.com/shared/orders", Types: []string{"object"}, Props: []sg.Prop{{Name: "orderNo", S: &sg.Schema{Types: []string{"integer"}}},
			{Name: "bill", S: &sg.Schema{Ref: "invoice.json", Target: inv.Root}}, {Name: "firstLine", S: &sg.Schema{Ref: "invoice.json#/$defs/InvoiceLine", Target: inv.Root.Defs[0].S}}}}
		fo := &sg.SchemaFile{Path: "order.json", Root: order, ID: order.ID, Name: "order"}
		c := &c20case{maps: map[string]c20map{}, sig: fmt.Sprintf("shared-id v=%d", v)}
		switch v % 3 {
		case 0:
			c.fs = &sg.FileSet{Files: append(append([]*sg.SchemaFile{}, files...), fo)}
		case 1:
			c.fs = &sg.FileSet{Files: append([]*sg.SchemaFile{fo}, files...)}
		default:
			c.fs = &sg.FileSet{Files: append(append([]*sg.SchemaFile{files[0], fo}, files[1:]...))}
		}
		bm := c20map{pkg: c20Mod + "/billing", out: "billing/billing.go"}
		c.flags = append(c.flags, "--schema-package", id+"="+bm.pkg, "--schema-output", id+"="+bm.out)
		for _, f := range files {
			m := bm
			m.rootType = f.RootType()
			c.maps[f.Name] = m
		}
		om := c20map{pkg: c20Mod + "/orders", out: "orders/orders.go", rootType: "OrderJson"}
		c.maps["order"] = om
		c.flags = append(c.flags, "--schema-package", order.ID+"="+om.pkg, "--schema-output", order.ID+"="+om.out)
		out = append(out, c)
	}
	return out
}

// c20TypelessRootCases: a schema file whose root has properties but no `type` keyword, mapped to a package of its own,
// referred to from another schema as a whole file - inside an allOf / anyOf member AND as a plain $ref, in either order
// of the two properties: the referenced root is declared once, every referrer is typed with that one declaration.
func c20TypelessRootCases() []*c20case {
	var out []*c20case
	for v := 0; v < 8; v++ {
		party := &sg.Schema{ID: "https://example.com/typeless/party", Props: []sg.Prop{{Name: "name", S: &sg.Schema{Types: []string{"string"}, MinLen: 1}}, {Name: "vat", S: &sg.Schema{Types: []string{"string"}}}}, Required: []string{"name"}}
		if v%2 == 1 {
			party.Types = []string{"object"} // the typed twin of the same layout
		}
		ref := func() *sg.Schema { return &sg.Schema{Ref: "party.json", Target: party} }
		own := &sg.Schema{Types: []string{"object"}, Props: []sg.Prop{{Name: "poBox", S: &sg.Schema{Types: []string{"string"}}}}}
		comp := &sg.Schema{AllOf: []*sg.Schema{ref(), own}}
		if (v/2)%2 == 1 {
			comp = &sg.Schema{AnyOf: []*sg.Schema{ref(), own}}
		}
		names := [2]string{"billing", "shipping"} // the composed one sorts first
		if (v/4)%2 == 1 {
			names = [2]string{"zbilling", "shipping"} // the plain one sorts first
		}
		order := &sg.Schema{ID: "https://example.com/typeless/order", Types: []string{"object"}, Props: []sg.Prop{{Name: names[0], S: comp}, {Name: names[1], S: ref()}, {Name: "contacts", S: &sg.Schema{Types: []string{"array"}, Items: ref()}}}}
		fp := &sg.SchemaFile{Path: "party.json", Root: party, ID: party.ID, Name: "party"}
		fo := &sg.SchemaFile{Path: "order.json", Root: order, ID: order.ID, Name: "order"}
		c := &c20case{fs: &sg.FileSet{Files: []*sg.SchemaFile{fo, fp}}, maps: map[string]c20map{}, sig: fmt.Sprintf("typeless-referenced-root v=%d", v), noCopies: true}
		for _, f := range []*sg.SchemaFile{fo, fp} {
			m := c20map{pkg: c20Mod + "/" + f.Name, out: f.Name + "/gen.go", rootType: f.RootType()}
			c.maps[f.Name] = m
			c.flags = append(c.flags, "--schema-package", f.ID+"="+m.pkg, "--schema-output", f.ID+"="+m.out)
		}
		out = append(out, c)
	}
	return out
}

// c20SameNameDefaultCases: two (three) schema files in ONE package and output, each with a definition `Retry` that
// differs from the others only in a default, a title or a description next to a default: every schema's definition
// is declared (Retry, Retry_1, ...), in every order of the arguments.
func c20SameNameDefaultCases() []*c20case {
	var out []*c20case
	for v := 0; v < 6; v++ {
		mk := func(name string, def int64, k int) *sg.SchemaFile {
			attempts := &sg.Schema{Types: []string{"integer"}, Min: sg.Fp(0), Default: jsonx.N(def), HasDefault: true}
			retry := &sg.Schema{Types: []string{"object"}, Props: []sg.Prop{{Name: "attempts", S: attempts}, {Name: "backoff", S: &sg.Schema{Types: []string{"string"}}}}}
			switch v % 3 {
			case 1:
				retry.Title = fmt.Sprintf("Retry policy of %s", name)
			case 2:
				attempts.Desc = fmt.Sprintf("attempts for %s", name)
			}
			root := &sg.Schema{ID: "https://example.com/samename/" + name, Types: []string{"object"}, Defs: []sg.Prop{{Name: "Retry", S: retry}},
				Props: []sg.Prop{{Name: name + "Retry", S: &sg.Schema{Ref: "#/$defs/Retry", Target: retry}}, {Name: name + "No", S: &sg.Schema{Types: []string{"integer"}}}}}
			return &sg.SchemaFile{Path: name + ".json", Root: root, ID: root.ID, Name: name}
		}
		files := []*sg.SchemaFile{mk("ingest", 3, 0), mk("export", 5, 1)}
		if v >= 3 {
			files = append(files, mk("archive", 7, 2))
		}
		c := &c20case{fs: &sg.FileSet{Files: files}, maps: map[string]c20map{}, sig: fmt.Sprintf("same-name-different-default v=%d", v), noPermute: true, wantCopies: map[string]int{"Retry": len(files)}}
		for _, f := range files {
			c.maps[f.Name] = c20map{pkg: c20Mod + "/defpkg", out: "defpkg/default.go", rootType: f.RootType()}
		}
		out = append(out, c)
		// the same files in reverse order on the command line
		rev := *c
		rev.fs = &sg.FileSet{}
		for k := len(files) - 1; k >= 0; k-- {
			rev.fs.Files = append(rev.fs.Files, files[k])
		}
		rev.sig += " reversed"
		out = append(out, &rev)
	}
	return out
}

// c20TypedRefDefinitionCases: a definition that is nothing but a reference into ANOTHER package's schema, with and without a
// `type` next to the `$ref`, itself referred to several times locally (property, second property, array items): every
// visit of the definition is qualified with the other package, and the packages build together.
func c20TypedRefDefinitionCases() []*c20case {
	var out []*c20case
	for v := 0; v < 6; v++ {
		measure := &sg.Schema{Types: []string{"object"}, Props: []sg.Prop{{Name: "value", S: &sg.Schema{Types: []string{"number"}}}, {Name: "unit", S: &sg.Schema{Types: []string{"string"}}}}, Required: []string{"value"}}
		b := &sg.Schema{ID: "https://example.com/typedref/b", Types: []string{"object"}, Defs: []sg.Prop{{Name: "Measure", S: measure}}, Props: []sg.Prop{{Name: "bNo", S: &sg.Schema{Types: []string{"integer"}}}}}
		unit := jsonx.Obj{{K: "$ref", V: "b.json#/$defs/Measure"}}
		if v%2 == 0 {
			unit = append(jsonx.Obj{{K: "type", V: "object"}}, unit...)
		}
		local := func() *sg.Schema { return &sg.Schema{Extra: jsonx.Obj{{K: "$ref", V: "#/definitions/Unit"}}} }
		a := &sg.Schema{ID: "https://example.com/typedref/a", Types: []string{"object"}, Props: []sg.Prop{{Name: "first", S: local()}, {Name: "second", S: local()},
			{Name: "series", S: &sg.Schema{Types: []string{"array"}, Items: local()}}, {Name: "aNo", S: &sg.Schema{Types: []string{"integer"}}}}}
		a.Extra = append(a.Extra, jsonx.KV{K: "definitions", V: jsonx.Obj{{K: "Unit", V: unit}}})
		if (v/2)%3 == 1 {
			// a direct cross-file reference before the local ones
			a.Props = append([]sg.Prop{{Name: "aDirect", S: &sg.Schema{Ref: "b.json#/$defs/Measure", Target: measure}}}, a.Props...)
		}
		fa := &sg.SchemaFile{Path: "a.json", Root: a, ID: a.ID, Name: "a"}
		fb := &sg.SchemaFile{Path: "b.json", Root: b, ID: b.ID, Name: "b"}
		c := &c20case{fs: &sg.FileSet{Files: []*sg.SchemaFile{fa, fb}}, maps: map[string]c20map{}, sig: fmt.Sprintf("typed-ref-definition v=%d", v)}
		if (v/2)%3 == 2 {
			c.fs.Files = []*sg.SchemaFile{fb, fa}
		}
		for _, f := range []*sg.SchemaFile{fa, fb} {
			m := c20map{pkg: c20Mod + "/p" + f.Name, out: "p" + f.Name + "/gen.go", rootType: f.RootType()}
			c.maps[f.Name] = m
			c.flags = append(c.flags, "--schema-package", f.ID+"="+m.pkg, "--schema-output", f.ID+"="+m.out)
		}
		out = append(out, c)
	}
	return out
}
