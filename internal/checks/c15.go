package checks

import (
	"encoding/json"
	"fmt"
	"math"
	"os"
	"path/filepath"
	"reflect"
	"strings"

	"verif/internal/batch"
	"verif/internal/docgen"
	"verif/internal/evid"
	"verif/internal/gocheck"
	"verif/internal/jsonx"
	"verif/internal/sem"
	"verif/internal/sg"
)

func init() { Register("C15", c15) }

// intInterval returns the integer interval admitted by the stated bounds (ok=false for fractional bounds).
func intInterval(s *sg.Schema) (lo, hi float64, hasLo, hasHi, ok bool) {
	ok = true
	frac := func(f float64) bool { return f != math.Trunc(f) }
	setLo := func(v float64) {
		if !hasLo || v > lo {
			lo, hasLo = v, true
		}
	}
	setHi := func(v float64) {
		if !hasHi || v < hi {
			hi, hasHi = v, true
		}
	}
	if s.Min != nil {
		if frac(*s.Min) {
			ok = false
		}
		if b, isB := s.ExMin.(bool); isB && b {
			setLo(*s.Min + 1)
		} else {
			setLo(*s.Min)
		}
	}
	if f, isF := s.ExMin.(float64); isF {
		if frac(f) {
			ok = false
		}
		setLo(f + 1)
	}
	if s.Max != nil {
		if frac(*s.Max) {
			ok = false
		}
		if b, isB := s.ExMax.(bool); isB && b {
			setHi(*s.Max - 1)
		} else {
			setHi(*s.Max)
		}
	}
	if f, isF := s.ExMax.(float64); isF {
		if frac(f) {
			ok = false
		}
		setHi(f - 1)
	}
	return
}

var intRanges = map[string][2]float64{
	"int8": {-128, 127}, "int16": {-32768, 32767}, "int32": {-2147483648, 2147483647}, "int64": {-9223372036854775808, 9223372036854775807},
	"uint8": {0, 255}, "uint16": {0, 65535}, "uint32": {0, 4294967295}, "uint64": {0, 18446744073709551615},
}
var intWidth = map[string]int{"int8": 8, "int16": 16, "int32": 32, "int64": 64, "uint8": 8, "uint16": 16, "uint32": 32, "uint64": 64}

// typeVerdict checks the statement's clause on the chosen type: contains every admitted integer, and no narrower
// signed or unsigned type does.
func typeVerdict(s *sg.Schema, chosen string) string {
	lo, hi, hasLo, hasHi, ok := intInterval(s)
	if !ok {
		return "" // fractional bounds: recorded finding int-bound-trunc territory
	}
	if hasLo && hasHi && lo > hi {
		return "" // empty interval: any type will do
	}
	if hasHugeIntBound(s) {
		return "" // bounds at or beyond +-2^63: float64 cannot express them (DESIGN §3.2, finding int64-bound-overflow)
	}
	rng, known := intRanges[chosen]
	if !known {
		return fmt.Sprintf("field type %q is not a sized integer type", chosen)
	}
	contains := func(r [2]float64) bool {
		if hasLo {
			if lo < r[0] {
				return false
			}
		} else if r[0] != -9223372036854775808 {
			return false
		}
		if hasHi {
			if hi > r[1] {
				return false
			}
		} else if r[1] < 9223372036854775807 {
			return false
		}
		return true
	}
	// an interval without a lower bound needs int64; without an upper bound int64 or uint64
	if !contains(rng) {
		return fmt.Sprintf("type %s cannot represent every admitted integer [%v,%v] (lo stated=%v hi stated=%v)", chosen, lo, hi, hasLo, hasHi)
	}
	for name, r := range intRanges {
		if intWidth[name] < intWidth[chosen] && contains(r) {
			return fmt.Sprintf("type %s is not the narrowest: %s also represents every admitted integer [%v,%v]", chosen, name, lo, hi)
		}
	}
	return ""
}

func c15(ctx *Ctx) (*Outcome, error) {
	n := ctx.N(350, 6000)
	var cases []*sem.Case
	for i := 0; i < n; i++ {
		r := sg.NewRng(ctx.Seed, fmt.Sprintf("C15-case-%d", i))
		hazard := i%10 == 9
		g := sg.NewGen(r, sg.Opts{MaxDepth: 2, NoFormats: true, IntLimits: true, Hazard: hazard, PNullable: 0.3, PDefault: 0.15,
			W: map[string]float64{"integer": 14, "number": 0.5, "string": 0.5, "enum": 1.5, "ref": 3, "array": 1.5, "untyped": 0.2, "compose": 0, "map": 0.2}})
		root := g.Root()
		if i%4 == 1 {
			// OpenAPI-style width annotations on integers: "format" says nothing about which numbers are valid
			root.Walk(func(x *sg.Schema) {
				if t, _, ok := x.NonNullType(); ok && t == "integer" && x.Ref == "" && !x.HasEnum && r.Chance(0.5) {
					x.Format = sg.PickOf(r, []string{"int32", "int64", "uint8", "int16", "uint32", "uint64", "byte", "int8"})
				}
			})
		}
		off := &sem.Case{Root: root, Sig: root.Sig()}
		off.Pair = &sem.Case{Root: root, Sig: root.Sig(), Args: []string{"--min-sized-ints"}}
		cases = append(cases, off)
	}
	for i := 0; i < 54; i++ {
		off := intFormatCase(i)
		off.Pair = &sem.Case{Root: off.Root, Sig: off.Sig, Args: []string{"--min-sized-ints"}}
		cases = append(cases, off)
	}
	for i := 0; i < 12; i++ {
		off := sizedTwinCase(i)
		on := sizedTwinCase(i)
		on.Args = []string{"--min-sized-ints"}
		off.Pair = on
		cases = append(cases, off)
	}
	for i := 0; i < 72; i++ {
		// bounds that meet in one point or in none
		off := emptyIntervalCase(i)
		off.Pair = &sem.Case{Root: off.Root, Sig: off.Sig, Args: []string{"--min-sized-ints"}}
		cases = append(cases, off)
	}
	// integers whose every stated bound coincides with a limit of the chosen type (inclusive form, draft-04 boolean
	// exclusive form true/false, numeric exclusive form), all optional and nothing else in the file that can fail:
	// with the flag no check is left - the file must still build and accept the same documents
	for i := 0; i < 24; i++ {
		mk := []func() *sg.Schema{
			func() *sg.Schema {
				return &sg.Schema{Types: []string{"integer"}, Min: sg.Fp(0), ExMin: false, Max: sg.Fp(255), ExMax: false}
			},
			func() *sg.Schema {
				return &sg.Schema{Types: []string{"integer"}, Min: sg.Fp(-1), ExMin: true, Max: sg.Fp(65536), ExMax: true}
			},
			func() *sg.Schema { return &sg.Schema{Types: []string{"integer"}, Min: sg.Fp(-128), Max: sg.Fp(127)} },
			func() *sg.Schema {
				return &sg.Schema{Types: []string{"integer"}, Min: sg.Fp(0), Max: sg.Fp(65535), ExMax: false}
			},
			func() *sg.Schema {
				return &sg.Schema{Types: []string{"integer"}, ExMin: float64(-32769), ExMax: float64(32768)}
			},
			func() *sg.Schema {
				return &sg.Schema{Types: []string{"integer"}, Min: sg.Fp(-2147483649), ExMin: true, Max: sg.Fp(2147483647)}
			},
		}
		root := &sg.Schema{Types: []string{"object"}}
		for k := range mk {
			if (i>>uint(k%3))&1 == 1 && i%4 != 3 {
				continue
			}
			s := mk[k]()
			switch (i / 8) % 3 {
			case 1:
				// through a named definition
				root.Defs = append(root.Defs, sg.Prop{Name: fmt.Sprintf("Int%d", k), S: s})
				s = &sg.Schema{Ref: fmt.Sprintf("#/$defs/Int%d", k), Target: s}
			case 2:
				s.Types = []string{"integer", "null"}
			}
			root.Props = append(root.Props, sg.Prop{Name: fmt.Sprintf("f%d", k), S: s})
		}
		if len(root.Props) == 0 {
			root.Props = append(root.Props, sg.Prop{Name: "f0", S: mk[0]()})
		}
		off := &sem.Case{Root: root, Sig: fmt.Sprintf("minsized-implied/%d", i)}
		off.Pair = &sem.Case{Root: root, Sig: off.Sig, Args: []string{"--min-sized-ints"}}
		cases = append(cases, off)
	}
	// a default that lies outside the stated bounds, on a limit of some sized type (what an absent key decodes to is
	// not judged - the default is not valid for its schema -, but a PRESENT value is held to the bounds whatever the
	// default is, with and without the flag)
	for i := 0; i < 6; i++ {
		type bd struct{ min, max, def float64 }
		sets := [][]bd{
			{{1, 100, 0}, {0, 100, 255}}, {{-100, 100, -128}, {-100, 100, 127}}, {{0, 1000, 65535}, {-1000, 1000, -32768}},
			{{1, 100, 255}, {0, 200, 255}}, {{10, 20, 0}, {-5, 5, 127}}, {{0, 255, 255}, {-128, 127, -128}},
		}[i%6]
		root := &sg.Schema{Types: []string{"object"}}
		var docs []docgen.Doc
		for k, b := range sets {
			name := fmt.Sprintf("n%d", k)
			s := &sg.Schema{Types: []string{"integer"}, Min: sg.Fp(b.min), Max: sg.Fp(b.max), Default: jsonx.N(int64(b.def)), HasDefault: true}
			root.Props = append(root.Props, sg.Prop{Name: name, S: s})
			for _, v := range []float64{b.min - 1, b.min, b.max, b.max + 1, b.def, -129, -128, 127, 128, 255, 256, 0, 65535, 65536} {
				st := "reject"
				if v >= b.min && v <= b.max {
					st = "accept"
				}
				docs = append(docs, docgen.Doc{V: jsonx.Obj{{K: name, V: jsonx.N(int64(v))}}, Class: "bound", Label: "present-next-to-odd-default", Stated: st})
			}
		}
		off := &sem.Case{Root: root, Sig: fmt.Sprintf("minsized-odd-default/%d", i), NoAuto: true, Docs: docs}
		off.Pair = &sem.Case{Root: root, Sig: off.Sig, Args: []string{"--min-sized-ints"}}
		cases = append(cases, off)
	}
	// integer positions whose bound lies beyond the 64-bit range: whatever type is chosen, it is an integer type - a
	// non-integral number stays rejected with and without the flag (in-range integers are left out: recorded finding
	// int64-bound-overflow speaks about the bound check itself)
	for i := 0; i < 4; i++ {
		mk := func() *sg.Schema {
			switch i % 4 {
			case 0:
				return &sg.Schema{Types: []string{"integer"}, Min: sg.Fp(-1e20)}
			case 1:
				return &sg.Schema{Types: []string{"integer"}, ExMin: float64(-1e19)}
			case 2:
				return &sg.Schema{Types: []string{"integer", "null"}, Min: sg.Fp(-1e20)}
			}
			return &sg.Schema{Types: []string{"integer"}, Min: sg.Fp(-1e300)}
		}
		def := mk()
		root := &sg.Schema{Types: []string{"object"}, Defs: []sg.Prop{{Name: "Delta", S: def}}, Props: []sg.Prop{{Name: "offset", S: mk()}, {Name: "viaDef", S: &sg.Schema{Ref: "#/$defs/Delta", Target: def}},
			{Name: "deltas", S: &sg.Schema{Types: []string{"array"}, Items: mk()}}}}
		var docs []docgen.Doc
		for _, d := range []string{`{"offset":1.5}`, `{"offset":-0.25}`, `{"viaDef":2.5}`, `{"deltas":[1,2.25]}`, `{"offset":"x"}`, `{"deltas":[true]}`, `{"offset":1e-3}`} {
			v, _ := jsonx.Parse([]byte(d))
			docs = append(docs, docgen.Doc{V: v, Class: "bound", Label: "non-integral-at-huge-bound"})
		}
		off := &sem.Case{Root: root, Sig: fmt.Sprintf("minsized-huge-bound/%d", i), NoAuto: true, Docs: docs}
		off.Pair = &sem.Case{Root: root, Sig: off.Sig, Args: []string{"--min-sized-ints"}}
		cases = append(cases, off)
	}
	// own properties next to an allOf, integer bounds on type limits
	for i := 0; i < 6; i += 2 {
		// (even indices: the allOf member is inline; a member given by reference to a definition with implied bounds is
		// the shape of recorded finding minsized-regenerated-node, which has its pinned witness below)
		off := propsNextToAllOfCase(i)
		off.Pair = &sem.Case{Root: off.Root, Sig: off.Sig, Args: []string{"--min-sized-ints"}}
		cases = append(cases, off)
	}
	// nullable named definitions (recorded finding named-nullable-scalar-no-rules shows on the flag-off side)
	for i := 0; i < 4; i++ {
		off := nullableDefCase(i)
		off.NoAuto = true
		off.Pair = &sem.Case{Root: off.Root, Sig: off.Sig, Args: []string{"--min-sized-ints"}}
		cases = append(cases, off)
	}
	// pinned witness of the recorded finding minsized-regenerated-node
	{
		def := &sg.Schema{Types: []string{"object"}, Props: []sg.Prop{{Name: "b", S: &sg.Schema{Types: []string{"integer"}, Min: sg.Fp(-128), Max: sg.Fp(0)}}}, Required: []string{"b"}}
		root := &sg.Schema{Types: []string{"object"}, Props: []sg.Prop{{Name: "p", S: &sg.Schema{Types: []string{"object"}, AllOf: []*sg.Schema{{Ref: "#/$defs/D", Target: def},
			{Types: []string{"object"}, Props: []sg.Prop{{Name: "c", S: &sg.Schema{Types: []string{"boolean"}}}}}}}}}, Defs: []sg.Prop{{Name: "D", S: def}}}
		doc, _ := jsonx.Parse([]byte(`{"p":{"b":-32769}}`))
		w := &sem.Case{Root: root, Sig: "witness:minsized-regenerated-node", NoAuto: true, Witness: "minsized-regenerated-node", Docs: []docgen.Doc{{V: doc, Class: "pinned", Label: "witness"}}}
		w.Pair = &sem.Case{Root: root, Sig: w.Sig, Args: []string{"--min-sized-ints"}, Witness: w.Witness}
		cases = append(cases, w)
	}
	// pinned witness of the recorded finding minsized-collision-equal-after-clearing
	{
		bounded := &sg.Schema{Types: []string{"integer"}, Min: sg.Fp(0), Max: sg.Fp(255)}
		free := &sg.Schema{Types: []string{"integer"}}
		root := &sg.Schema{Types: []string{"object"}, Defs: []sg.Prop{{Name: "Kind", S: bounded}, {Name: "kind", S: free}},
			Props: []sg.Prop{{Name: "a", S: &sg.Schema{Ref: "#/$defs/Kind", Target: bounded}}, {Name: "b", S: &sg.Schema{Ref: "#/$defs/kind", Target: free}}}}
		doc, _ := jsonx.Parse([]byte(`{"a":7,"b":300}`))
		w := &sem.Case{Root: root, Sig: "witness:minsized-collision-equal-after-clearing", NoAuto: true, Witness: "minsized-collision-equal-after-clearing", Docs: []docgen.Doc{{V: doc, Class: "pinned", Label: "witness"}}}
		w.Pair = &sem.Case{Root: root, Sig: w.Sig, Args: []string{"--min-sized-ints"}, Witness: w.Witness}
		cases = append(cases, w)
	}
	cfg := &sem.Config{Prop: "C15", Tier: ctx.Tier, Seed: ctx.Seed, Cases: cases, Classes: docgen.Classes{"bound": true, "nullok": true, "enum": true, "delopt": true}, Valid: 4, PerSite: 8, MaxDocs: 130,
		Env: ctx.Env, Values: true, IntLim: true, NoMulti: true, Own: classOwner("bound", "valid", "nullok", "enum", "delopt", "pinned")}
	// census of chosen types (flag-on programs): direct integer properties of the root
	census, censusBad := 0, 0
	typesSeen := map[string]int{}
	var cviol []Viol
	asym, asymBad := 0, 0
	asymKnown := map[string]int{}
	cfg.AfterBatch = func(cases []*sem.Case) {
		for _, c := range cases {
			// the flag narrows types, nothing else: a schema whose code is generated and builds without the flag is
			// generated and builds with it (else no document at all is accepted with the flag)
			if off, on := sem.ProgramOf(c), sem.ProgramOf(c.Pair); off != nil && on != nil && off.Usable() && !on.Usable() && !on.Proc.TimedOut && c.Witness == "" {
				asym++
				problem := ""
				if on.Proc.Exit != 0 {
					problem = "refused with the flag: " + trunc(firstFailed(on), 300)
				} else if on.Report != nil {
					problem = "emitted code does not build with the flag: " + trunc(on.Report.Summary(), 300)
				}
				if sig := genFindingFor(ctx, c.Root, c.Pair.Args, problem); sig != "" {
					asymKnown[sig]++
					continue
				}
				asymBad++
				if len(cviol) < 5 {
					b, _ := json.MarshalIndent(map[string]any{"property": "C15", "kind": "flag-on program missing", "problem": problem, "schema": json.RawMessage(jsonx.Marshal(c.Root.ToJSON())), "emitted": string(on.Src)}, "", " ")
					path := filepath.Join(evid.ReplayDir(), fmt.Sprintf("C15-census-%d.json", len(cviol)))
					_ = os.WriteFile(path, b, 0o644)
					cviol = append(cviol, Viol{Replay: path, Summary: "generated and built without --min-sized-ints, but " + problem + "\n schema=" + trunc(string(jsonx.Marshal(c.Root.ToJSON())), 600)})
				}
			}
		}
		for _, c := range cases {
			p := sem.ProgramOf(c.Pair)
			if p == nil || !p.Usable() {
				continue
			}
			fields := gocheck.StructFields(p.Report.Fset, p.Report.File, "RootJson")
			for _, pr := range c.Root.Props {
				s := pr.S
				chosen := ""
				if s.Ref != "" {
					if s.Target == nil || !isPlainInt(s.Target) {
						continue
					}
					chosen = strings.TrimPrefix(gocheck.UnderlyingOf(p.Report.Fset, p.Report.File, strings.TrimPrefix(strings.TrimPrefix(s.Ref, "#/$defs/"), "#/definitions/")), "*")
					s = s.Target
				} else {
					if !isPlainInt(s) {
						continue
					}
					for _, f := range fields {
						if strings.Contains(f.Tag, `json:"`+pr.Name+`"`) || strings.Contains(f.Tag, `json:"`+pr.Name+`,`) {
							chosen = strings.TrimPrefix(f.Type, "*")
						}
					}
				}
				if chosen == "" {
					continue
				}
				census++
				typesSeen[chosen]++
				if msg := typeVerdict(s, chosen); msg != "" {
					censusBad++
					if len(cviol) < 5 {
						b, _ := json.MarshalIndent(map[string]any{"property": "C15", "kind": "type-census", "problem": msg, "schema": json.RawMessage(jsonx.Marshal(s.ToJSON())), "property_name": pr.Name, "emitted": string(p.Src)}, "", " ")
						path := filepath.Join(evid.ReplayDir(), fmt.Sprintf("C15-census-%d.json", len(cviol)))
						_ = os.WriteFile(path, b, 0o644)
						cviol = append(cviol, Viol{Replay: path, Summary: "type census: " + msg + " schema=" + string(jsonx.Marshal(s.ToJSON()))})
					}
				}
			}
		}
	}
	rep, err := sem.Run(cfg)
	if err != nil {
		return nil, err
	}
	o := FromSem(ctx, rep, "integer-heavy schemas whose bounds (boolean and numeric exclusive forms, one- and two-sided) are drawn from the 8/16/32/64-bit signed/unsigned limits and their neighbours; each is generated WITHOUT and WITH --min-sized-ints and both compiled programs run on the same documents (values on/next to every stated bound and every type limit, nulls, absents); each side's verdict is compared with the model (hence with each other) and accepted values must decode identically; plus a go/ast census of the chosen field type of every direct integer property: contains every admitted integer and no narrower sized type does",
		6000, commonAssumptions)
	o.Coverage["flag_on_program_missing_while_flag_off_builds"] = asym
	o.Coverage["flag_on_program_missing_unexplained"] = asymBad
	o.Coverage["flag_on_program_missing_explained_by_recorded_finding"] = asymKnown
	o.Coverage["type_census_fields"] = census
	o.Coverage["type_census_by_type"] = typesSeen
	o.Coverage["type_census_violations"] = censusBad
	o.Violations = append(o.Violations, cviol...)
	_ = reflect.DeepEqual
	_ = batch.NewCmd
	return o, nil
}

func isPlainInt(s *sg.Schema) bool {
	t, _, ok := s.NonNullType()
	return ok && t == "integer" && !s.HasEnum && s.Ext == nil
}
