package checks

import (
	"bufio"
	"bytes"
	"encoding/json"
	"fmt"
	"os"
	"path/filepath"

	"verif/internal/docgen"
	"verif/internal/evid"
	"verif/internal/sem"
	"verif/internal/sg"
	"verif/internal/stage"
)

func init() { Register("C05", c05) }

type nbReq struct {
	Min   *float64 `json:"min"`
	Max   *float64 `json:"max"`
	ExMin any      `json:"exmin"`
	ExMax any      `json:"exmax"`
}

type nbRes struct {
	Min   *float64 `json:"min"`
	Max   *float64 `json:"max"`
	ExMin bool     `json:"exmin"`
	ExMax bool     `json:"exmax"`
	Panic string   `json:"panic"`
}

// statedMember is the property statement: intersection of all stated bounds, exclusive wins ties.
func statedMember(r nbReq, v float64) bool {
	if r.Min != nil {
		if b, ok := r.ExMin.(bool); ok && b {
			if !(v > *r.Min) {
				return false
			}
		} else if !(v >= *r.Min) {
			return false
		}
	}
	if f, ok := r.ExMin.(float64); ok && !(v > f) {
		return false
	}
	if r.Max != nil {
		if b, ok := r.ExMax.(bool); ok && b {
			if !(v < *r.Max) {
				return false
			}
		} else if !(v <= *r.Max) {
			return false
		}
	}
	if f, ok := r.ExMax.(float64); ok && !(v < f) {
		return false
	}
	return true
}

func normMember(r nbRes, v float64) bool {
	if r.Min != nil {
		if r.ExMin {
			if !(v > *r.Min) {
				return false
			}
		} else if !(v >= *r.Min) {
			return false
		}
	}
	if r.Max != nil {
		if r.ExMax {
			if !(v < *r.Max) {
				return false
			}
		} else if !(v <= *r.Max) {
			return false
		}
	}
	return true
}

// normBoundsMonitor enumerates every presence/kind pattern x every assignment of grid constants and
// checks the result of the real NormalizeBounds semantically on probe values.
func normBoundsMonitor(ctx *Ctx) (calls, distinct int, viols []Viol, samples []any, err error) {
	bin, err := ctx.Env.BuildInDrv(false)
	if err != nil {
		return 0, 0, nil, nil, err
	}
	grid := []float64{-2, 0, 1, 1.5, 3}
	if !ctx.Quick() {
		grid = []float64{-2.5, -1, 0, 1, 1.5, 3, 1e9}
	}
	exKinds := []string{"none", "true", "false", "num"}
	var reqs []nbReq
	for _, hasMin := range []bool{false, true} {
		for _, hasMax := range []bool{false, true} {
			for _, ek := range exKinds {
				for _, xk := range exKinds {
					// enumerate constants
					mins := []float64{0}
					if hasMin {
						mins = grid
					}
					maxs := []float64{0}
					if hasMax {
						maxs = grid
					}
					ems := []float64{0}
					if ek == "num" {
						ems = grid
					}
					xms := []float64{0}
					if xk == "num" {
						xms = grid
					}
					for _, a := range mins {
						for _, b := range maxs {
							for _, c := range ems {
								for _, d := range xms {
									var r nbReq
									if hasMin {
										r.Min = sg.Fp(a)
									}
									if hasMax {
										r.Max = sg.Fp(b)
									}
									switch ek {
									case "true":
										r.ExMin = true
									case "false":
										r.ExMin = false
									case "num":
										r.ExMin = c
									}
									switch xk {
									case "true":
										r.ExMax = true
									case "false":
										r.ExMax = false
									case "num":
										r.ExMax = d
									}
									reqs = append(reqs, r)
								}
							}
						}
					}
				}
			}
		}
	}
	var in bytes.Buffer
	for _, r := range reqs {
		j, _ := json.Marshal(r)
		in.Write(j)
		in.WriteByte('\n')
	}
	pr := stage.Run(stage.Proc{Path: bin, Args: []string{"normbounds"}, Stdin: in.Bytes(), CPUSec: 120})
	if pr.Exit != 0 {
		return 0, 0, nil, nil, fmt.Errorf("normbounds driver failed: exit=%d %s", pr.Exit, pr.Stderr)
	}
	sc := bufio.NewScanner(bytes.NewReader(pr.Stdout))
	var probes []float64
	for _, g := range grid {
		probes = append(probes, g-0.5, g-0.25, g, g+0.25, g+0.5)
	}
	i := 0
	patterns := map[string]bool{}
	seenV := map[string]bool{}
	for sc.Scan() {
		if i >= len(reqs) {
			break
		}
		var res nbRes
		if err := json.Unmarshal(sc.Bytes(), &res); err != nil {
			return 0, 0, nil, nil, fmt.Errorf("bad driver line: %v", err)
		}
		r := reqs[i]
		i++
		calls++
		pat := fmt.Sprintf("min=%v max=%v exmin=%T exmax=%T", r.Min != nil, r.Max != nil, r.ExMin, r.ExMax)
		// order type of the constants
		ot := ""
		if r.Min != nil {
			if f, ok := r.ExMin.(float64); ok {
				ot += fmt.Sprint(" m?x:", cmp3(*r.Min, f))
			}
		}
		if r.Max != nil {
			if f, ok := r.ExMax.(float64); ok {
				ot += fmt.Sprint(" M?X:", cmp3(*r.Max, f))
			}
		}
		patterns[pat+ot] = true
		if len(samples) < 4 && calls%1777 == 5 {
			samples = append(samples, map[string]any{"call": r, "result": res})
		}
		bad := ""
		if res.Panic != "" {
			bad = "panic: " + res.Panic
		}
		for _, v := range probes {
			if bad != "" {
				break
			}
			if statedMember(r, v) != normMember(res, v) {
				bad = fmt.Sprintf("value %v: stated bounds say member=%v, normalised bounds say %v", v, statedMember(r, v), normMember(res, v))
			}
		}
		if bad != "" {
			key := pat + ot
			if seenV[key] || len(viols) >= 10 {
				continue
			}
			seenV[key] = true
			b, _ := json.MarshalIndent(map[string]any{"property": "C05", "monitor": "NormalizeBounds", "call": r, "result": res, "problem": bad}, "", " ")
			p := filepath.Join(evid.ReplayDir(), fmt.Sprintf("C05-normbounds-%d.json", len(viols)))
			_ = os.WriteFile(p, b, 0o644)
			j, _ := json.Marshal(r)
			viols = append(viols, Viol{Replay: p, Summary: fmt.Sprintf("NormalizeBounds(%s) -> %s: %s", j, sc.Text(), bad)})
		}
	}
	if i != len(reqs) {
		return calls, len(patterns), viols, samples, fmt.Errorf("driver answered %d of %d calls", i, len(reqs))
	}
	return calls, len(patterns), viols, samples, nil
}

func cmp3(a, b float64) string {
	switch {
	case a < b:
		return "<"
	case a > b:
		return ">"
	}
	return "="
}

// c05Strata enumerates every keyword pattern on required/optional/nullable/definition positions, integer and number.
func c05Strata(ctx *Ctx) []*sem.Case { return numericStrata(ctx, "C05", false, nil) }

// numericStrata enumerates every bound-keyword pattern x {integer, number} on required/optional/nullable/definition
// positions; fracInt also puts fractional constants on integers (recorded finding int-bound-trunc territory).
func numericStrata(ctx *Ctx, salt string, fracInt bool, args []string) []*sem.Case {
	var out []*sem.Case
	exKinds := []string{"none", "true", "false", "num"}
	i := 0
	for _, typ := range []string{"integer", "number"} {
		for _, hasMin := range []bool{false, true} {
			for _, hasMax := range []bool{false, true} {
				for _, ek := range exKinds {
					for _, xk := range exKinds {
						i++
						r := sg.NewRng(ctx.Seed, fmt.Sprintf("%s-strata-%d", salt, i))
						mk := func() *sg.Schema {
							s := &sg.Schema{Types: []string{typ}}
							lo := sg.PickOf(r, []float64{-10, -3, 0, 1, 2})
							hi := lo + sg.PickOf(r, []float64{1, 2, 5, 10})
							if (typ == "number" || fracInt) && r.Chance(0.5) {
								lo += 0.5
								hi += 0.25
							}
							if typ == "number" && r.Chance(0.2) {
								// whole-number bounds that no 64-bit integer holds (a uint64 range written as a number, 1e19 ...):
								// values well inside the interval are ordinary documents
								hi = sg.PickOf(r, []float64{18446744073709551615, 1e19, 1e20, 9223372036854775808, 1.7976931348623157e308})
								if r.Chance(0.5) {
									lo = -sg.PickOf(r, []float64{1e19, 9223372036854775808, 1e30})
								}
							}
							rel := func(b float64) float64 { // exclusive constant relative to the inclusive one
								switch r.IntN(3) {
								case 0:
									return b
								case 1:
									return b - 1
								}
								return b + 1
							}
							if hasMin {
								s.Min = sg.Fp(lo)
							}
							if hasMax {
								s.Max = sg.Fp(hi)
							}
							switch ek {
							case "true":
								s.ExMin = true
							case "false":
								s.ExMin = false
							case "num":
								s.ExMin = rel(lo)
							}
							switch xk {
							case "true":
								s.ExMax = true
							case "false":
								s.ExMax = false
							case "num":
								s.ExMax = rel(hi)
							}
							if r.Chance(0.15) {
								// annotations, OpenAPI style: nothing about validity changes
								if typ == "integer" {
									s.Format = sg.PickOf(r, []string{"int32", "int64"})
								} else {
									s.Format = sg.PickOf(r, []string{"float", "double"})
								}
							}
							if r.Chance(0.25) {
								if typ == "integer" {
									s.MultipleOf = sg.Fp(sg.PickOf(r, []float64{2, 3, 5, 1}))
								} else {
									s.MultipleOf = sg.Fp(sg.PickOf(r, []float64{0.25, 0.5, 1.5, 2, 1}))
								}
							}
							return s
						}
						nullable := mk()
						nullable.Types = []string{typ, "null"}
						def := mk()
						root := &sg.Schema{Types: []string{"object"},
							Props: []sg.Prop{
								{Name: "req", S: mk()}, {Name: "opt", S: mk()}, {Name: "nul", S: nullable}, {Name: "nulreq", S: func() *sg.Schema { s := mk(); s.Types = []string{"null", typ}; return s }()},
								{Name: "viaDef", S: &sg.Schema{Ref: "#/$defs/Num", Target: def}},
							},
							Required: []string{"req", "nulreq"},
							Defs:     []sg.Prop{{Name: "Num", S: def}}}
						out = append(out, &sem.Case{Root: root, Args: args, Sig: fmt.Sprintf("strata:%s min=%v max=%v exmin=%s exmax=%s", typ, hasMin, hasMax, ek, xk)})
					}
				}
			}
		}
	}
	return out
}

func c05(ctx *Ctx) (*Outcome, error) {
	calls, pats, nbViols, nbSamples, err := normBoundsMonitor(ctx)
	if err != nil {
		return nil, err
	}
	cases := c05Strata(ctx)
	for i := 0; i < 20; i++ {
		cases = append(cases, crossPackageCase(i))
	}
	for i := 0; i < 12; i++ {
		cases = append(cases, nullableDefCase(i))
	}
	for i := 0; i < 8; i++ {
		cases = append(cases, extFieldCase(i))
	}
	for i := 0; i < 5; i++ {
		cases = append(cases, draftNumericCase(i))
	}
	for i := 0; i < 2; i++ {
		cases = append(cases, legacyNumericKeywordCase(i))
	}
	for i := 0; i < 72; i++ {
		cases = append(cases, emptyIntervalCase(i))
	}
	for i := 0; i < 30; i++ {
		cases = append(cases, fractionalIntBoundCase(i))
	}
	for i := 0; i < 24; i++ {
		// same-named integer definitions with different bounds, without and with the flag
		c := sizedTwinCase(i % 12)
		if i >= 12 {
			c.Args = []string{"--min-sized-ints"}
		}
		cases = append(cases, c)
	}
	// every keyword pattern once more with --min-sized-ints: the flag changes types, never what a bound means
	for k, sc := range numericStrata(ctx, "C05-sized", false, []string{"--min-sized-ints"}) {
		if k%2 == 0 {
			cases = append(cases, sc)
		}
	}
	n := ctx.N(150, 4000)
	for i := 0; i < n; i++ {
		r := sg.NewRng(ctx.Seed, fmt.Sprintf("C05-case-%d", i))
		g := sg.NewGen(r, sg.Opts{MaxDepth: 2, NoFormats: true, PNullable: 0.3, RootKinds: true, W: map[string]float64{"integer": 8, "number": 8, "string": 0.5, "enum": 0.3, "ref": 2.5, "array": 1.5}})
		root := g.Root()
		cases = append(cases, &sem.Case{Root: root, Sig: root.Sig()})
	}
	cfg := &sem.Config{Prop: "C05", Tier: ctx.Tier, Seed: ctx.Seed, Cases: cases, Classes: docgen.Classes{"bound": true, "nullok": true, "delopt": true}, Valid: 4, PerSite: 6, MaxDocs: 160,
		Env: ctx.Env, Own: classOwner("bound", "valid", "nullok", "delopt")}
	rep, err := sem.Run(cfg)
	if err != nil {
		return nil, err
	}
	o := FromSem(ctx, rep, "(a) NormalizeBounds called for every presence/kind pattern (minimum, maximum present/absent; each exclusive keyword absent/true/false/number) x every assignment of grid constants, result checked semantically on probe values on/next to/between the constants (exhaustive over that grid); (b) generated code: all 2x2x4x4 keyword patterns x {integer,number} on required/optional/nullable/definition positions plus random numeric schemas; documents on each bound, one step inside/outside (+-1, +-0.5, +-1ulp), between, absent, null; verdict vs model; distinct_nontrivial = (schema signature or stratum, class) pairs + NormalizeBounds (pattern, order type) classes",
		3000, append(append([]string{}, commonAssumptions...), "multipleOf only with dyadic divisors; values at least 1e-3 away from a multiple (DESIGN §3.3)"))
	o.Coverage["normalizebounds_calls"] = calls
	o.Coverage["normalizebounds_pattern_ordertypes"] = pats
	o.Coverage["normalizebounds_exhaustive_over_grid"] = true
	o.Coverage["normalizebounds_samples"] = nbSamples
	o.Coverage["evaluations"] = rep.Decided + calls
	o.Coverage["distinct_nontrivial"] = len(rep.Sigs) + pats
	o.Violations = append(nbViols, o.Violations...)
	return o, nil
}
