package checks

import (
	"encoding/json"
	"fmt"
	"os"
	"path/filepath"
	"regexp"
	"sort"
	"strings"

	"verif/internal/batch"
	"verif/internal/docgen"
	"verif/internal/evid"
	"verif/internal/gocheck"
	"verif/internal/jsonx"
	"verif/internal/sem"
	"verif/internal/sg"
)

func init() { Register("C10", c10) }

// inlineRefs returns a copy of root in which every reference is replaced by a copy of its target (no definitions left).
func inlineRefs(root *sg.Schema) *sg.Schema {
	var inl func(s *sg.Schema, depth int) *sg.Schema
	inl = func(s *sg.Schema, depth int) *sg.Schema {
		if s == nil {
			return nil
		}
		if s.Ref != "" && s.Target != nil && depth < 20 {
			t := inl(s.Target, depth+1)
			// keywords next to $ref (default, description) are kept on the copy
			if s.HasDefault {
				t.HasDefault, t.Default = true, s.Default
			}
			return t
		}
		n := *s
		n.Defs = nil
		n.Items = inl(s.Items, depth)
		n.AddProps = inl(s.AddProps, depth)
		n.Props = nil
		for _, p := range s.Props {
			n.Props = append(n.Props, sg.Prop{Name: p.Name, S: inl(p.S, depth)})
		}
		n.AllOf, n.AnyOf = nil, nil
		for _, b := range s.AllOf {
			n.AllOf = append(n.AllOf, inl(b, depth))
		}
		for _, b := range s.AnyOf {
			n.AnyOf = append(n.AnyOf, inl(b, depth))
		}
		return &n
	}
	return inl(root, 0)
}

// externalise moves definitions of root into sibling files laid out over directories and rewrites the references.
func externalise(r *sg.Rng, root *sg.Schema, idx int) (*sg.Schema, []batch.File, string, string, []string) {
	c := root.Clone()
	dirs := []string{"", "lib", "lib/deep", "../shared"}
	rootDir := sg.PickOf(r, []string{"", "main", "main/sub"})
	rootFile := filepath.Join(rootDir, "root.json")
	var args []string
	useExt := r.Chance(0.3)
	if useExt {
		args = append(args, "--resolve-extension", ".json")
	}
	moved := map[*sg.Schema]string{} // definition schema -> file path (relative to the program dir)
	for k, d := range c.Defs {
		// explicitly typed definitions may move (a referenced file whose root has no type is refused by the tool)
		if len(d.S.Types) > 0 && r.Chance(0.8) {
			dir := filepath.Clean(filepath.Join(rootDir, sg.PickOf(r, dirs)))
			if strings.HasPrefix(dir, "..") {
				dir = "shared"
			}
			ext := ".json"
			if r.Chance(0.2) {
				ext = ".yaml"
			}
			moved[d.S] = filepath.Join(dir, fmt.Sprintf("def%d%s", k, ext))
		}
	}
	// a moved definition may only reference moved definitions (chains of files); iterate to a fixpoint
	for changed := true; changed; {
		changed = false
		for t := range moved {
			bad := false
			t.Walk(func(x *sg.Schema) {
				if x.Ref != "" {
					if _, ok := moved[x.Target]; !ok {
						bad = true
					}
				}
			})
			if bad {
				delete(moved, t)
				changed = true
			}
		}
	}
	var keep []sg.Prop
	for _, d := range c.Defs {
		if _, ok := moved[d.S]; !ok {
			keep = append(keep, d)
		}
	}
	c.Defs = keep
	rewriteFrom := ""
	rewrite := func(x *sg.Schema) {
		if x.Ref == "" || x.Target == nil {
			return
		}
		path, ok := moved[x.Target]
		if !ok {
			return
		}
		rel, _ := filepath.Rel(filepath.Dir(rewriteFrom), path)
		if useExt && strings.HasSuffix(rel, ".json") && r.Chance(0.7) {
			rel = strings.TrimSuffix(rel, ".json")
		}
		switch r.IntN(4) {
		case 0:
			if !strings.HasPrefix(rel, ".") {
				rel = "./" + rel
			}
		case 1:
			if !strings.HasPrefix(rel, ".") {
				rel = "file://" + rel
			}
		}
		x.Ref = rel
	}
	rewriteFrom = rootFile
	c.Walk(rewrite)
	for t, path := range moved {
		rewriteFrom = path
		t.Walk(rewrite)
	}
	var files []batch.File
	for t, path := range moved {
		var data []byte
		if strings.HasSuffix(path, ".yaml") {
			data = sg.ToYAML(t.ToJSON(), sg.YAMLBlock)
		} else {
			data = jsonx.MarshalIndent(t.ToJSON())
		}
		files = append(files, batch.File{Path: path, Data: data})
	}
	sort.Slice(files, func(a, b int) bool { return files[a].Path < files[b].Path })
	cwd := sg.PickOf(r, []string{"", rootDir, "elsewhere"})
	return c, files, rootFile, cwd, args
}

// recursiveCase builds self / mutually recursive definitions and documents nested 1..64 deep with a fault only at the
// deepest level.
func recursiveCase(r *sg.Rng, i int) *sem.Case {
	depths := []int{1, 2, 3, 5, 8, 16, 33, 64}
	node := &sg.Schema{Types: []string{"object"}}
	val := &sg.Schema{Types: []string{"integer"}, Min: sg.Fp(0), Max: sg.Fp(9)}
	root := &sg.Schema{Types: []string{"object"}}
	var mkDoc func(d int, leaf any) any
	switch i % 3 {
	case 0: // linked list: next -> Node
		node.Props = []sg.Prop{{Name: "value", S: val}, {Name: "next", S: &sg.Schema{Ref: "#/$defs/Node", Target: node}}}
		node.Required = []string{"value"}
		root.Props = []sg.Prop{{Name: "head", S: &sg.Schema{Ref: "#/$defs/Node", Target: node}}}
		root.Defs = []sg.Prop{{Name: "Node", S: node}}
		mkDoc = func(d int, leaf any) any {
			var cur any = jsonx.Obj{{K: "value", V: leaf}}
			for k := 1; k < d; k++ {
				cur = jsonx.Obj{{K: "value", V: jsonx.N(int64(k % 10))}, {K: "next", V: cur}}
			}
			return jsonx.Obj{{K: "head", V: cur}}
		}
	case 1: // tree: children -> [Node]
		node.Props = []sg.Prop{{Name: "value", S: val}, {Name: "children", S: &sg.Schema{Types: []string{"array"}, Items: &sg.Schema{Ref: "#/definitions/Node", Target: node}}}}
		node.Required = []string{"value"}
		root.Props = []sg.Prop{{Name: "tree", S: &sg.Schema{Ref: "#/definitions/Node", Target: node}}}
		root.Defs = []sg.Prop{{Name: "Node", S: node}}
		root.DefsKey = "definitions"
		mkDoc = func(d int, leaf any) any {
			var cur any = jsonx.Obj{{K: "value", V: leaf}}
			for k := 1; k < d; k++ {
				cur = jsonx.Obj{{K: "value", V: jsonx.N(int64(k % 10))}, {K: "children", V: []any{jsonx.Obj{{K: "value", V: jsonx.N(1)}}, cur}}}
			}
			return jsonx.Obj{{K: "tree", V: cur}}
		}
	default: // mutual recursion A -> B -> A
		a := &sg.Schema{Types: []string{"object"}}
		b := &sg.Schema{Types: []string{"object"}}
		a.Props = []sg.Prop{{Name: "value", S: val}, {Name: "b", S: &sg.Schema{Ref: "#/$defs/B", Target: b}}}
		a.Required = []string{"value"}
		b.Props = []sg.Prop{{Name: "flag", S: &sg.Schema{Types: []string{"boolean"}}}, {Name: "a", S: &sg.Schema{Ref: "#/$defs/A", Target: a}}}
		b.Required = []string{"flag"}
		root.Props = []sg.Prop{{Name: "start", S: &sg.Schema{Ref: "#/$defs/A", Target: a}}}
		root.Defs = []sg.Prop{{Name: "A", S: a}, {Name: "B", S: b}}
		mkDoc = func(d int, leaf any) any {
			var cur any = jsonx.Obj{{K: "value", V: leaf}}
			for k := 1; k < d; k++ {
				if k%2 == 1 {
					cur = jsonx.Obj{{K: "flag", V: true}, {K: "a", V: cur}}
				} else {
					cur = jsonx.Obj{{K: "value", V: jsonx.N(int64(k % 10))}, {K: "b", V: cur}}
				}
			}
			if d%2 == 0 {
				cur = jsonx.Obj{{K: "value", V: jsonx.N(1)}, {K: "b", V: cur}}
			}
			return jsonx.Obj{{K: "start", V: cur}}
		}
	}
	c := &sem.Case{Root: root, Sig: fmt.Sprintf("recursive:%d", i%3), NoAuto: true}
	for _, d := range depths {
		c.Docs = append(c.Docs, docgen.Doc{V: mkDoc(d, jsonx.N(5)), Class: "deep", Label: fmt.Sprintf("depth-%d-valid", d)})
		c.Docs = append(c.Docs, docgen.Doc{V: mkDoc(d, jsonx.N(10)), Class: "deep", Label: fmt.Sprintf("depth-%d-bound-fault-at-leaf", d)})
		c.Docs = append(c.Docs, docgen.Doc{V: mkDoc(d, "x"), Class: "deep", Label: fmt.Sprintf("depth-%d-type-fault-at-leaf", d)})
	}
	if i%2 == 1 {
		c.Args = []string{"--extra-imports"}
	}
	return c
}

// fileCycleCase: recursion through files - team.json -> member.yaml -> team.json - with the root file spelled in
// ways a path cleaner would change and from different working directories: the reference that comes back to the file
// named on the command line must land on the very same document.
func fileCycleCase(i int) *sem.Case {
	team := &sg.Schema{Types: []string{"object"}}
	member := &sg.Schema{Types: []string{"object"}}
	yaml := i%2 == 0
	mfile := "member.json"
	if yaml {
		mfile = "member.yaml"
	}
	team.Props = []sg.Prop{{Name: "name", S: &sg.Schema{Types: []string{"string"}, MinLen: 1}}, {Name: "lead", S: &sg.Schema{Ref: mfile, Target: member}},
		{Name: "members", S: &sg.Schema{Types: []string{"array"}, Items: &sg.Schema{Ref: mfile, Target: member}}}}
	team.Required = []string{"name"}
	member.Props = []sg.Prop{{Name: "login", S: &sg.Schema{Types: []string{"string"}, MaxLen: 8}}, {Name: "team", S: &sg.Schema{Ref: "team.json", Target: team}}}
	member.Required = []string{"login"}
	spell := []struct{ cwd, in string }{{"", "org/team.json"}, {"", "./org/team.json"}, {"", "org//team.json"}, {"", "org/../org/team.json"}, {"org", "team.json"}, {"org", "./team.json"}, {"org", "../org/team.json"}, {"org", ".//team.json"}}[(i/2)%8]
	mdata := jsonx.MarshalIndent(member.ToJSON())
	if yaml {
		mdata = sg.ToYAML(member.ToJSON(), sg.YAMLBlock)
	}
	c := &sem.Case{Root: team, Sig: fmt.Sprintf("file-cycle/%s|%s|%v", spell.cwd, spell.in, yaml), NoAuto: true, RootFile: "org/team.json", Cwd: spell.cwd, Input: spell.in,
		Extra: []batch.File{{Path: "org/" + mfile, Data: mdata}}}
	if (i/16)%2 == 1 {
		c.Args = []string{"--extra-imports"}
	}
	var mk func(d int, login string, name any) any
	mk = func(d int, login string, name any) any {
		t := jsonx.Obj{{K: "name", V: name}}
		if d > 0 {
			inner := mk(d-1, login, name)
			t = append(t, jsonx.KV{K: "lead", V: jsonx.Obj{{K: "login", V: "l"}, {K: "team", V: inner}}})
		} else {
			t = append(t, jsonx.KV{K: "members", V: []any{jsonx.Obj{{K: "login", V: login}}}})
		}
		return t
	}
	for _, d := range []int{0, 1, 2, 8, 40} {
		c.Docs = append(c.Docs, docgen.Doc{V: mk(d, "ok", "n"), Class: "deep", Label: fmt.Sprintf("cycle-depth-%d-valid", d)},
			docgen.Doc{V: mk(d, "waytoolonglogin", "n"), Class: "deep", Label: fmt.Sprintf("cycle-depth-%d-login-too-long", d)},
			docgen.Doc{V: mk(d, "ok", jsonx.N(5)), Class: "deep", Label: fmt.Sprintf("cycle-depth-%d-name-type", d)})
	}
	return c
}

// sameStemCase: referenced files whose paths are equal up to the last dot-suffix (item.json / item.yaml,
// address.v1 / address.v2 found through --resolve-extension): each reference must reach its own document.
func sameStemCase(i int) *sem.Case {
	a := &sg.Schema{Types: []string{"object"}, Props: []sg.Prop{{Name: "id", S: &sg.Schema{Types: []string{"integer"}, Min: sg.Fp(1)}}}, Required: []string{"id"}}
	b := &sg.Schema{Types: []string{"object"}, Props: []sg.Prop{{Name: "name", S: &sg.Schema{Types: []string{"string"}, MinLen: 2}}}, Required: []string{"name"}}
	type variant struct {
		refA, fileA, refB, fileB string
		args                     []string
		decoyA, decoyB           string // a file named <text of the reference><resolve extension> with OTHER content: the literal name wins
	}
	v := []variant{
		{"shapes/item.json", "shapes/item.json", "shapes/item.yaml", "shapes/item.yaml", nil, "", ""},
		{"shapes/item.yaml", "shapes/item.yaml", "shapes/item.json", "shapes/item.json", nil, "", ""},
		{"defs/address.v1", "defs/address.v1.json", "defs/address.v2", "defs/address.v2.json", []string{"--resolve-extension", ".json"}, "", ""},
		{"defs/address", "defs/address.json", "defs/address.v1", "defs/address.v1.json", []string{"--resolve-extension", ".json"}, "", ""},
		{"defs/part.a.json", "defs/part.a.json", "defs/part.b.json", "defs/part.b.json", nil, "", ""},
		{"shapes/box.json", "shapes/box.json", "shapes/lid.json", "shapes/lid.json", []string{"--resolve-extension", ".yaml", "--resolve-extension", ".json"}, "shapes/box.json.yaml", "shapes/lid.json.json"},
		{"defs/part", "defs/part", "defs/cover", "defs/cover", []string{"--resolve-extension", ".json", "--resolve-extension", ".yaml"}, "defs/part.json", "defs/cover.yaml"},
	}[i%7]
	root := &sg.Schema{Types: []string{"object"}, Props: []sg.Prop{{Name: "first", S: &sg.Schema{Ref: v.refA, Target: a}}, {Name: "second", S: &sg.Schema{Ref: v.refB, Target: b}}}}
	if (i/7)%2 == 1 {
		// the other generation order
		root.Props = []sg.Prop{{Name: "zfirst", S: &sg.Schema{Ref: v.refA, Target: a}}, {Name: "asecond", S: &sg.Schema{Ref: v.refB, Target: b}}}
	}
	data := func(s *sg.Schema, file string) []byte {
		if strings.HasSuffix(file, ".yaml") {
			return sg.ToYAML(s.ToJSON(), sg.YAMLBlock)
		}
		return jsonx.MarshalIndent(s.ToJSON())
	}
	c := &sem.Case{Root: root, Sig: fmt.Sprintf("same-stem/%d", i%14), NoAuto: true, Args: v.args,
		Extra: []batch.File{{Path: v.fileA, Data: data(a, v.fileA)}, {Path: v.fileB, Data: data(b, v.fileB)}}}
	if v.decoyA != "" {
		// the twins hold the OTHER schema
		c.Extra = append(c.Extra, batch.File{Path: v.decoyA, Data: data(b, v.decoyA)}, batch.File{Path: v.decoyB, Data: data(a, v.decoyB)})
	}
	if v.args != nil {
		c.RootType = "Root" // --resolve-extension .json trims the extension of root.json as well
	}
	ka, kb := root.Props[0].Name, root.Props[1].Name
	okA, okB := jsonx.Obj{{K: "id", V: jsonx.N(7)}}, jsonx.Obj{{K: "name", V: "bolt"}}
	for _, d := range []jsonx.Obj{
		{{K: ka, V: okA}, {K: kb, V: okB}}, {{K: ka, V: okA}}, {{K: kb, V: okB}},
		{{K: ka, V: okB}}, {{K: kb, V: okA}}, {{K: ka, V: jsonx.Obj{{K: "id", V: jsonx.N(0)}}}}, {{K: kb, V: jsonx.Obj{{K: "name", V: "x"}}}},
		{{K: ka, V: jsonx.Obj{}}}, {{K: kb, V: jsonx.Obj{}}},
	} {
		c.Docs = append(c.Docs, docgen.Doc{V: d, Class: "deep", Label: "same-stem"})
	}
	return c
}

func c10(ctx *Ctx) (*Outcome, error) {
	n := ctx.N(300, 5000)
	var cases []*sem.Case
	for i := 0; i < n; i++ {
		r := sg.NewRng(ctx.Seed, fmt.Sprintf("C10-case-%d", i))
		g := sg.NewGen(r, sg.Opts{MaxDepth: 3, PNullable: 0.15, PDefault: 0.1, PAddProps: 0.15, W: map[string]float64{"ref": 7, "object": 2, "array": 2, "compose": 0.8, "map": 0.8}})
		root := g.Root()
		if len(root.Defs) == 0 {
			continue
		}
		twin := inlineRefs(root)
		var c *sem.Case
		if i%2 == 0 {
			// same-file definitions vs inlined twin
			c = &sem.Case{Root: root, Sig: "same-file|" + root.Sig()}
		} else {
			// definitions factored out into sibling files over a directory layout, run from some working directory
			ext, files, rootFile, cwd, args := externalise(r, root, i)
			c = &sem.Case{Root: ext, Extra: files, RootFile: rootFile, Cwd: cwd, Args: args, Sig: "files|" + root.Sig(), AbsInput: i%8 == 7}
			if len(args) > 0 {
				c.RootType = "Root" // --resolve-extension .json trims the extension from the root type name
			}
		}
		c.Pair = &sem.Case{Root: twin, Sig: c.Sig}
		cases = append(cases, c)
	}
	// same reference text in two documents of one run, resolving to different definitions
	for i := 0; i < ctx.N(12, 90); i++ {
		if c := sameRefTextTwinCase(ctx, i, sg.NewRng(ctx.Seed, fmt.Sprintf("C10-twin-%d", i)), 1<<30); c != nil {
			cases = append(cases, c)
		}
	}
	nrec := ctx.N(12, 60)
	for i := 0; i < nrec; i++ {
		cases = append(cases, recursiveCase(sg.NewRng(ctx.Seed, fmt.Sprintf("C10-rec-%d", i)), i))
	}
	for i := 0; i < ctx.N(16, 32); i++ {
		cases = append(cases, fileCycleCase(i))
	}
	for i := 0; i < 36; i++ {
		cases = append(cases, definitionCycleCase(i))
	}
	for i := 0; i < 10; i++ {
		cases = append(cases, spellingChainCase(i))
	}
	for i := 0; i < ctx.N(8, 24); i++ {
		// a definition of one name in two files of a run, equal up to its defaults: every referrer decodes with the
		// defaults of its own file's definition
		if c := sameNameTwinCase(ctx, i, sg.NewRng(ctx.Seed, fmt.Sprintf("C10-samename-%d", i))); c != nil {
			// (default application is asserted for this stratum only: across the random reference shapes it meets
			// defaults inside map values, which are C09's and C04's recorded territory - map-value-anon-struct)
			c.Defaults = true
			for _, g := range c.Group {
				g.Defaults = true
			}
			cases = append(cases, c)
		}
	}
	for i := 0; i < ctx.N(14, 28); i++ {
		cases = append(cases, sameStemCase(i))
	}
	for i := 0; i < 20; i++ {
		cases = append(cases, crossPackageCase(i))
	}
	for i := 0; i < 12; i++ {
		cases = append(cases, sameBaseDirCase(i))
	}
	for i := 0; i < 6; i++ {
		cases = append(cases, selfRefTwinCase(i))
	}
	for i := 0; i < 6; i++ {
		cases = append(cases, symlinkDirCase(i))
	}
	for i := 0; i < 9; i++ {
		cases = append(cases, nestedSameDefCase(i))
	}
	for i := 0; i < 6; i++ {
		cases = append(cases, aliasDefinitionCase(i))
	}
	for i := 0; i < 4; i++ {
		cases = append(cases, sameNameDefTwoFilesCase(i))
	}
	for i := 0; i < 8; i++ {
		cases = append(cases, bothDefsKeywordsCase(i))
	}
	// pinned witness: root self reference "#" is generated as interface{} (recorded finding root-self-ref-untyped)
	{
		root := &sg.Schema{Types: []string{"object"}, Props: []sg.Prop{{Name: "value", S: &sg.Schema{Types: []string{"integer"}, Max: sg.Fp(9)}}}}
		root.Props = append(root.Props, sg.Prop{Name: "self", S: &sg.Schema{Ref: "#", Target: root}})
		doc, _ := jsonx.Parse([]byte(`{"value":1,"self":{"value":100}}`))
		cases = append(cases, &sem.Case{Root: root, Sig: "witness:root-self-ref-untyped", NoAuto: true, Witness: "root-self-ref-untyped", Docs: []docgen.Doc{{V: doc, Class: "pinned", Label: "witness"}}})
	}
	cfg := &sem.Config{Prop: "C10", Tier: ctx.Tier, Seed: ctx.Seed, Cases: cases, Classes: docgen.Classes{"type": true, "required": true, "bound": true, "string": true, "items": true, "enum": true, "delopt": true}, Valid: 4, PerSite: 2, MaxDocs: 70,
		Env: ctx.Env, Values: true}
	// a reference form that the generator refuses while it accepts the inlined twin is not transparent either
	var gviol []Viol
	refusedRef, cycleRuns := 0, 0
	shared, sharedBad := 0, 0
	var cviol []Viol
	cfg.AfterBatch = func(cases []*sem.Case) {
		for _, c := range cases {
			p, q := sem.ProgramOf(c), sem.ProgramOf(c.Pair)
			if p == nil || q == nil || c.Witness != "" {
				continue
			}
			if p.Proc.Exit != 0 && q.Proc.Exit == 0 && !p.Proc.TimedOut {
				refusedRef++
				if len(gviol) < 4 {
					rp := filepath.Join(evid.ReplayDir(), fmt.Sprintf("C10-refused-%d", len(gviol)))
					_ = os.RemoveAll(rp)
					_ = osexec("cp", "-r", p.Dir, rp)
					b, _ := json.MarshalIndent(map[string]any{"property": "C10", "kind": "reference form refused, inlined twin accepted", "argv": p.Args, "inputs": p.Inputs, "cwd": p.Cwd, "stderr": string(p.Proc.Stderr)}, "", " ")
					_ = os.WriteFile(filepath.Join(rp, "verif-summary.json"), b, 0o644)
					gviol = append(gviol, Viol{Replay: rp, Summary: fmt.Sprintf("the reference form is refused (%s) while its inlined twin is generated\n args=%v inputs=%v cwd=%q", trunc(firstFailed(p), 300), p.Args, p.Inputs, p.Cwd)})
				}
			}
		}
		// recursion through files: every spelling of the root file must be generated, and generated as code that builds
		for _, c := range cases {
			p := sem.ProgramOf(c)
			if p == nil || !reC10Stratum.MatchString(c.Sig) || p.Proc.TimedOut {
				continue
			}
			cycleRuns++
			problem := ""
			if p.Proc.Exit != 0 {
				problem = "refused: " + trunc(firstFailed(p), 300)
			} else if p.Report != nil && !p.Report.OK() {
				problem = "emitted code does not build: " + trunc(p.Report.Summary(), 300)
			}
			if problem != "" && len(gviol) < 6 {
				rp := filepath.Join(evid.ReplayDir(), fmt.Sprintf("C10-cycle-%d", len(gviol)))
				_ = os.RemoveAll(rp)
				_ = osexec("cp", "-r", p.Dir, rp)
				b, _ := json.MarshalIndent(map[string]any{"property": "C10", "kind": "recursion through files", "argv": p.Args, "inputs": p.Inputs, "cwd": p.Cwd, "problem": problem, "stderr": string(p.Proc.Stderr)}, "", " ")
				_ = os.WriteFile(filepath.Join(rp, "verif-summary.json"), b, 0o644)
				gviol = append(gviol, Viol{Replay: rp, Summary: fmt.Sprintf("reference stratum %s with the root spelled %q (cwd %q, args %v): %s", c.Sig, p.Inputs, p.Cwd, p.Args, problem)})
			}
		}
		// census: a file reached under several spellings is one document - its root type comes out once
		for _, c := range cases {
			p := sem.ProgramOf(c)
			if p == nil || !p.Usable() || !strings.HasPrefix(c.Sig, "spelling-chain/") {
				continue
			}
			shared++
			for _, tn := range gocheck.TypeNames(p.Report.File) {
				if strings.HasPrefix(tn, "Def") && strings.Contains(tn, "_") {
					sharedBad++
					if len(cviol) < 4 {
						b, _ := json.MarshalIndent(map[string]any{"property": "C10", "kind": "one file, several spellings: numbered copy of a type", "type": tn, "schema": json.RawMessage(jsonx.Marshal(c.Root.ToJSON())), "emitted": string(p.Src)}, "", " ")
						path := filepath.Join(evid.ReplayDir(), fmt.Sprintf("C10-census-%d.json", len(cviol)))
						_ = os.WriteFile(path, b, 0o644)
						cviol = append(cviol, Viol{Replay: path, Summary: fmt.Sprintf("stratum %s: the file reached under two spellings is declared twice (type %s next to its unnumbered twin)", c.Sig, tn)})
					}
					break
				}
			}
		}
		// census: all referrers of one definition share one named type (same-file cases)
		for _, c := range cases {
			p := sem.ProgramOf(c)
			if p == nil || !p.Usable() || !strings.HasPrefix(c.Sig, "same-file") {
				continue
			}
			fields := gocheck.StructFields(p.Report.Fset, p.Report.File, "RootJson")
			byTarget := map[*sg.Schema][]string{}
			for _, pr := range c.Root.Props {
				if pr.S.Ref == "" || pr.S.Target == nil {
					continue
				}
				for _, f := range fields {
					if strings.Contains(f.Tag, `json:"`+pr.Name+`"`) || strings.Contains(f.Tag, `json:"`+pr.Name+`,`) {
						byTarget[pr.S.Target] = append(byTarget[pr.S.Target], strings.TrimPrefix(f.Type, "*"))
					}
				}
			}
			for _, types := range byTarget {
				if len(types) < 2 {
					continue
				}
				shared++
				for _, t := range types[1:] {
					if t != types[0] {
						sharedBad++
						if len(cviol) < 4 {
							b, _ := json.MarshalIndent(map[string]any{"property": "C10", "kind": "type-sharing census", "field_types": types, "schema": json.RawMessage(jsonx.Marshal(c.Root.ToJSON())), "emitted": string(p.Src)}, "", " ")
							path := filepath.Join(evid.ReplayDir(), fmt.Sprintf("C10-census-%d.json", len(cviol)))
							_ = os.WriteFile(path, b, 0o644)
							cviol = append(cviol, Viol{Replay: path, Summary: fmt.Sprintf("referrers of one definition use different Go types: %v", types)})
						}
					}
				}
			}
		}
	}
	rep, err := sem.Run(cfg)
	if err != nil {
		return nil, err
	}
	o := FromSem(ctx, rep, "relational: each ref-heavy schema is generated in REF form (definitions in the same file, or factored out into sibling .json/.yaml files over a random directory layout with ./, file:// and extension-less reference spellings, run from a random working directory or by absolute path) and as its INLINED twin; both compiled programs run on the same valid and single-fault documents and each must give the model's verdict and decoded value (hence the same as each other); go/ast census: all referrers of one definition share one named type; recursion: linked-list, tree and mutual recursion graphs must generate within the CPU limit and documents nested 1..64 deep with a bound or type fault only at the deepest level must get the model's verdict",
		4000, commonAssumptions)
	o.Coverage["shared_definition_groups_checked"] = shared
	o.Coverage["shared_definition_violations"] = sharedBad
	o.Violations = append(o.Violations, cviol...)
	o.Violations = append(o.Violations, gviol...)
	o.Coverage["reference_forms_refused_while_twin_accepted"] = refusedRef
	o.Coverage["file_cycle_generator_runs"] = cycleRuns
	return o, nil
}

// reC10Stratum: the hand-built reference layouts; each of them is generated and built by the unchanged tool, so a
// refusal or unbuildable output is a reference form that stopped being transparent.
var reC10Stratum = regexp.MustCompile(`^(file-cycle|definition-cycle|spelling-chain|same-stem|same-base-dir|self-ref-twin|symlink-dir|same-name-def-two-files|cross-package|both-defs-keywords)/`)

// sameBaseDirCase: schema files with the SAME base name in different directories, one referring to definitions of
// the others by relative path while holding definitions of the same names itself; also a reference that spells out
// the referring file's own name (a genuine self reference).
func sameBaseDirCase(i int) *sem.Case {
	base := []string{"schema.json", "index.json", "types.yaml"}[i%3]
	idOwn := &sg.Schema{Types: []string{"integer"}, Min: sg.Fp(1)}
	idCust := &sg.Schema{Types: []string{"string"}, MinLen: 3}
	tagVend := &sg.Schema{Types: []string{"string"}, MaxLen: 2}
	cust := &sg.Schema{Types: []string{"object"}, Defs: []sg.Prop{{Name: "Id", S: idCust}}, Props: []sg.Prop{{Name: "cid", S: &sg.Schema{Ref: "#/$defs/Id", Target: idCust}}}}
	vend := &sg.Schema{Types: []string{"object"}, Defs: []sg.Prop{{Name: "Tag", S: tagVend}}, Props: []sg.Prop{{Name: "vtag", S: &sg.Schema{Ref: "#/$defs/Tag", Target: tagVend}}}}
	root := &sg.Schema{Types: []string{"object"}, Defs: []sg.Prop{{Name: "Id", S: idOwn}}}
	root.Props = []sg.Prop{
		{Name: "id", S: &sg.Schema{Ref: "#/$defs/Id", Target: idOwn}},
		{Name: "customer", S: &sg.Schema{Ref: "../customers/" + base + "#/$defs/Id", Target: idCust}},
		{Name: "tag", S: &sg.Schema{Ref: "../vendors/" + base + "#/$defs/Tag", Target: tagVend}},
	}
	if i%2 == 1 {
		// every referenced name exists in the referring file as well
		root.Props = root.Props[:2]
	}
	if (i/3)%2 == 1 {
		// ... and by its own file name
		root.Props = append(root.Props, sg.Prop{Name: "again", S: &sg.Schema{Ref: base + "#/$defs/Id", Target: idOwn}})
	}
	data := func(s *sg.Schema) []byte {
		if strings.HasSuffix(base, ".yaml") {
			return sg.ToYAML(s.ToJSON(), sg.YAMLBlock)
		}
		return jsonx.MarshalIndent(s.ToJSON())
	}
	c := &sem.Case{Root: root, RootFile: "orders/" + base, YAML: strings.HasSuffix(base, ".yaml"), Sig: fmt.Sprintf("same-base-dir/%d", i%6), NoAuto: true,
		Extra: []batch.File{{Path: "customers/" + base, Data: data(cust)}, {Path: "vendors/" + base, Data: data(vend)}}}
	if (i/6)%2 == 1 {
		c.Cwd = "orders"
	}
	for _, d := range []jsonx.Obj{
		{{K: "id", V: jsonx.N(5)}, {K: "customer", V: "abc"}, {K: "tag", V: "t"}}, {{K: "customer", V: jsonx.N(7)}}, {{K: "customer", V: "ab"}}, {{K: "customer", V: "abcd"}},
		{{K: "id", V: "abc"}}, {{K: "id", V: jsonx.N(0)}}, {{K: "tag", V: "toolong"}}, {{K: "tag", V: jsonx.N(1)}}, {{K: "again", V: jsonx.N(3)}}, {{K: "again", V: jsonx.N(0)}}, {{K: "again", V: "abc"}},
	} {
		if _, has := d.Get("again"); has && (i/3)%2 == 0 {
			continue
		}
		if _, has := d.Get("tag"); has && i%2 == 1 {
			continue
		}
		c.Docs = append(c.Docs, docgen.Doc{V: d, Class: "deep", Label: "same-base-dir"})
	}
	return c
}

// selfRefTwinCase: two documents with the same file name in different directories (v1/item.json, v2/item.json), each
// recursive through {"$ref":"#"} and with required members of its own, both pulled in by whole-file references from a
// third document (the second root's name is taken when it is generated); also a definition whose name identifierizes
// to the root's name. Documents are valid at every level for the version they belong to.
func selfRefTwinCase(i int) *sem.Case {
	mk := func(req string) *sg.Schema {
		s := &sg.Schema{Types: []string{"object"}, Props: []sg.Prop{{Name: req, S: &sg.Schema{Types: []string{"string"}, MinLen: 1}}, {Name: "n", S: &sg.Schema{Types: []string{"integer"}}}}, Required: []string{req}}
		s.Props = append(s.Props, sg.Prop{Name: "next", S: &sg.Schema{Ref: "#", Target: s}})
		return s
	}
	v1, v2 := mk("code"), mk("sku")
	paths := [][2]string{{"v1/item.json", "v2/item.json"}, {"a/node.json", "b/node.json"}, {"x/tree.yaml", "y/tree.yaml"}}[i%3]
	data := func(s *sg.Schema, file string) []byte {
		if strings.HasSuffix(file, ".yaml") {
			return sg.ToYAML(s.ToJSON(), sg.YAMLBlock)
		}
		return jsonx.MarshalIndent(s.ToJSON())
	}
	root := &sg.Schema{Types: []string{"object"}, Props: []sg.Prop{{Name: "first", S: &sg.Schema{Ref: paths[0], Target: v1}}, {Name: "second", S: &sg.Schema{Ref: paths[1], Target: v2}}}}
	if (i/3)%2 == 1 {
		root.Props = []sg.Prop{{Name: "zfirst", S: &sg.Schema{Ref: paths[0], Target: v1}}, {Name: "asecond", S: &sg.Schema{Ref: paths[1], Target: v2}}}
	}
	c := &sem.Case{Root: root, Sig: fmt.Sprintf("self-ref-twin/%d", i%6), NoAuto: true, Extra: []batch.File{{Path: paths[0], Data: data(v1, paths[0])}, {Path: paths[1], Data: data(v2, paths[1])}}}
	chain := func(req string, depth int) jsonx.Obj {
		var o jsonx.Obj
		for d := depth; d >= 0; d-- {
			n := jsonx.Obj{{K: req, V: fmt.Sprintf("%s%d", req, d)}, {K: "n", V: jsonx.N(int64(d))}}
			if o != nil {
				n = append(n, jsonx.KV{K: "next", V: o})
			}
			o = n
		}
		return o
	}
	ka, kb := root.Props[0].Name, root.Props[1].Name
	for depth := 0; depth < 3; depth++ {
		c.Docs = append(c.Docs, docgen.Doc{V: jsonx.Obj{{K: ka, V: chain("code", depth)}}, Class: "valid", Label: "v1-chain"}, docgen.Doc{V: jsonx.Obj{{K: kb, V: chain("sku", depth)}}, Class: "valid", Label: "v2-chain"},
			docgen.Doc{V: jsonx.Obj{{K: ka, V: chain("code", depth)}, {K: kb, V: chain("sku", depth)}}, Class: "valid", Label: "both"})
	}
	return c
}

// symlinkDirCase: a referenced document reached through a symbolic link (a linked directory "current" -> ../versions/v2,
// or a linked file) that itself refers to a sibling directory with "..": the reference is relative to where the
// document really is. A decoy document of the same name sits where the link path would lead lexically.
func symlinkDirCase(i int) *sem.Case {
	money := &sg.Schema{Types: []string{"object"}, Props: []sg.Prop{{Name: "amount", S: &sg.Schema{Types: []string{"number"}}}, {Name: "currency", S: &sg.Schema{Types: []string{"string"}, MinLen: 3}}}, Required: []string{"amount", "currency"}}
	decoy := &sg.Schema{Types: []string{"object"}, Props: []sg.Prop{{Name: "cents", S: &sg.Schema{Types: []string{"integer"}}}}, Required: []string{"cents"}}
	order := &sg.Schema{Types: []string{"object"}, Props: []sg.Prop{{Name: "id", S: &sg.Schema{Types: []string{"integer"}}}, {Name: "total", S: &sg.Schema{Ref: "../common/money.json", Target: money}}}, Required: []string{"total"}}
	root := &sg.Schema{Types: []string{"object"}, Props: []sg.Prop{{Name: "order", S: &sg.Schema{Ref: "current/order.json", Target: order}}}}
	j := func(s *sg.Schema) []byte { return jsonx.MarshalIndent(s.ToJSON()) }
	c := &sem.Case{Root: root, RootFile: "schemas/main.json", Sig: fmt.Sprintf("symlink-dir/%d", i%6), NoAuto: true,
		Extra: []batch.File{{Path: "versions/v2/order.json", Data: j(order)}, {Path: "versions/common/money.json", Data: j(money)}}}
	switch i % 3 {
	case 0:
		// linked directory, decoy where the lexical path leads
		c.Extra = append(c.Extra, batch.File{Path: "schemas/current", Link: "../versions/v2"}, batch.File{Path: "schemas/common/money.json", Data: j(decoy)})
	case 1:
		// linked directory, nothing at the lexical location
		c.Extra = append(c.Extra, batch.File{Path: "schemas/current", Link: "../versions/v2"})
	case 2:
		// the document itself is the link
		c.Extra = append(c.Extra, batch.File{Path: "schemas/current/order.json", Link: "../../versions/v2/order.json"}, batch.File{Path: "schemas/common/money.json", Data: j(decoy)})
	}
	if (i/3)%2 == 1 {
		c.Cwd = "schemas"
	}
	good := jsonx.Obj{{K: "amount", V: jsonx.Num("12.5")}, {K: "currency", V: "EUR"}}
	for _, total := range []any{good, jsonx.Obj{{K: "cents", V: jsonx.N(1250)}}, jsonx.Obj{{K: "amount", V: jsonx.N(1)}}, jsonx.Obj{{K: "amount", V: jsonx.N(1)}, {K: "currency", V: "E"}}, jsonx.Obj{}} {
		c.Docs = append(c.Docs, docgen.Doc{V: jsonx.Obj{{K: "order", V: jsonx.Obj{{K: "id", V: jsonx.N(1)}, {K: "total", V: total}}}}, Class: "deep", Label: "symlink-dir"})
	}
	return c
}

// sameNameDefTwoFilesCase: a definition name that exists in the referring document AND in a library document, with
// other content, both referred to from composition members (allOf / anyOf lists resolve their references ahead of the
// merge) of one referring document, in both orders: each member means the definition of the document it names.
func sameNameDefTwoFilesCase(i int) *sem.Case {
	local := &sg.Schema{Types: []string{"object"}, Props: []sg.Prop{{Name: "name", S: &sg.Schema{Types: []string{"string"}, MinLen: 1}}}, Required: []string{"name"}}
	remote := &sg.Schema{Types: []string{"object"}, Props: []sg.Prop{{Name: "sku", S: &sg.Schema{Types: []string{"integer"}, Min: sg.Fp(100)}}}, Required: []string{"sku"}}
	extra := &sg.Schema{Types: []string{"object"}, Props: []sg.Prop{{Name: "flag", S: &sg.Schema{Types: []string{"boolean"}}}}, Required: []string{"flag"}}
	lib := &sg.Schema{Types: []string{"object"}, Defs: []sg.Prop{{Name: "Item", S: remote}}}
	refL := func() *sg.Schema { return &sg.Schema{Ref: "#/$defs/Item", Target: local} }
	refR := func() *sg.Schema { return &sg.Schema{Ref: "lib/parts.json#/$defs/Item", Target: remote} }
	refE := func() *sg.Schema { return &sg.Schema{Ref: "#/$defs/Extra", Target: extra} }
	comp := func(m ...*sg.Schema) *sg.Schema {
		if (i/2)%2 == 1 {
			return &sg.Schema{AllOf: m[:1]}
		}
		return &sg.Schema{AnyOf: m}
	}
	root := &sg.Schema{Types: []string{"object"}, Defs: []sg.Prop{{Name: "Item", S: local}, {Name: "Extra", S: extra}}}
	if i%2 == 0 {
		root.Props = []sg.Prop{{Name: "alocal", S: comp(refL(), refE())}, {Name: "bremote", S: comp(refR(), refE())}}
	} else {
		root.Props = []sg.Prop{{Name: "aremote", S: comp(refR(), refE())}, {Name: "blocal", S: comp(refL(), refE())}}
	}
	c := &sem.Case{Root: root, Sig: fmt.Sprintf("same-name-def-two-files/%d", i%4), NoAuto: true, Extra: []batch.File{{Path: "lib/parts.json", Data: jsonx.MarshalIndent(lib.ToJSON())}}}
	lk, rk := "alocal", "bremote"
	if i%2 == 1 {
		lk, rk = "blocal", "aremote"
	}
	for _, d := range []jsonx.Obj{{{K: rk, V: jsonx.Obj{{K: "sku", V: jsonx.N(150)}}}}, {{K: rk, V: jsonx.Obj{{K: "name", V: "x"}}}}, {{K: rk, V: jsonx.Obj{{K: "sku", V: jsonx.N(5)}}}}, {{K: lk, V: jsonx.Obj{{K: "name", V: "x"}}}}, {{K: lk, V: jsonx.Obj{{K: "sku", V: jsonx.N(150)}}}},
		{{K: lk, V: jsonx.Obj{{K: "name", V: "x"}}}, {K: rk, V: jsonx.Obj{{K: "sku", V: jsonx.N(150)}}}}, {{K: rk, V: jsonx.Obj{}}}, {{K: lk, V: jsonx.Obj{}}}} {
		c.Docs = append(c.Docs, docgen.Doc{V: d, Class: "deep", Label: "same-name-def-two-files"})
	}
	return c
}
