package checks

import (
	"encoding/json"
	"fmt"
	"go/constant"
	"go/types"
	"os"
	"path/filepath"
	"regexp"
	"sort"
	"strconv"
	"strings"

	"verif/internal/evid"

	"verif/internal/jsonx"

	"verif/internal/batch"
	"verif/internal/docgen"
	"verif/internal/model"
	"verif/internal/sem"
	"verif/internal/sg"
)

// semSpec describes one property check built on the shared engine.
type semSpec struct {
	noCorpus bool // leave out the schemas shipped with the repository (tests/data)
	id       string
	opts     sg.Opts
	classes  docgen.Classes
	own      func(d docgen.Doc, mr model.Result) bool
	values   bool
	byValue  bool
	defaults bool
	addProps bool
	modes    []string
	nQuick   int
	nThor    int
	valid    int
	perSite  int
	maxDocs  int
	minDec   int
	rule     string
	assume   []string
	extra    func(ctx *Ctx, i int, r *sg.Rng) *sem.Case // optional stratified cases (i counts from 0; nil = stop)
	args     func(r *sg.Rng, root *sg.Schema) []string
	intLim   bool
	parity   bool
	optsFn   func(i int, o sg.Opts) sg.Opts                                         // per-case variation of the generator options
	post     func(ctx *Ctx, cases []*sem.Case, o *Outcome)                          // extra monitors after the run (programs already released)
	census   func(ctx *Ctx) (each func(cases []*sem.Case), finish func(o *Outcome)) // per-chunk census over live programs
}

var commonAssumptions = []string{
	"the reference model (internal/model) is trusted where it asserts; it answers DontCare in the zones of DESIGN.md §3",
	"known findings are suppressed only when their defect model reproduces the observed verdict/value",
	"Go toolchain and encoding/json, yaml.v3, mapstructure as installed",
}

func classOwner(classes ...string) func(d docgen.Doc, mr model.Result) bool {
	m := map[string]bool{}
	for _, c := range classes {
		m[c] = true
	}
	return func(d docgen.Doc, mr model.Result) bool {
		// documents written out by a stratum (classes the mutator does not produce) always count
		if !docgen.AllClasses[d.Class] && d.Class != "valid" && d.Class != "default" {
			return true
		}
		return m[d.Class]
	}
}

func runSem(ctx *Ctx, sp *semSpec) (*Outcome, error) {
	n := ctx.N(sp.nQuick, sp.nThor)
	var cases []*sem.Case
	if sp.extra != nil {
		for i := 0; ; i++ {
			c := sp.extra(ctx, i, sg.NewRng(ctx.Seed, fmt.Sprintf("%s-strata-%d", sp.id, i)))
			if c == nil {
				break
			}
			if c == skipCase {
				continue
			}
			cases = append(cases, c)
		}
	}
	if !sp.noCorpus {
		for k, c := range corpusCases(ctx, sp.id) {
			if sp.args != nil {
				// the check's own options (C17: --extra-imports) on top of the ones the corpus directory implies
				for _, a := range sp.args(sg.NewRng(ctx.Seed, fmt.Sprintf("%s-corpus-%d", sp.id, k)), c.Root) {
					dup := false
					for _, have := range c.Args {
						dup = dup || have == a
					}
					if !dup && strings.HasPrefix(a, "--") && a != "--capitalization" && a != "--tags" {
						c.Args = append(c.Args, a)
					}
				}
			}
			cases = append(cases, c)
		}
	}
	for i := 0; i < n; i++ {
		r := sg.NewRng(ctx.Seed, fmt.Sprintf("%s-case-%d", sp.id, i))
		o := sp.opts
		if sp.optsFn != nil {
			o = sp.optsFn(i, o)
		}
		g := sg.NewGen(r, o)
		root := g.Root()
		c := &sem.Case{Root: root, Sig: root.Sig()}
		if sp.args != nil {
			c.Args = sp.args(r, root)
		}
		cases = append(cases, c)
	}
	cfg := &sem.Config{Prop: sp.id, Tier: ctx.Tier, Seed: ctx.Seed, Cases: cases, Classes: sp.classes, Valid: sp.valid, PerSite: sp.perSite, MaxDocs: sp.maxDocs,
		Modes: sp.modes, Values: sp.values, ByValue: sp.byValue, Defaults: sp.defaults, AddProps: sp.addProps, Env: ctx.Env, Own: sp.own, IntLim: sp.intLim, Parity: sp.parity}
	if cfg.Valid == 0 {
		cfg.Valid = 4
	}
	if cfg.PerSite == 0 {
		cfg.PerSite = 3
	}
	var finish func(o *Outcome)
	if sp.census != nil {
		cfg.AfterBatch, finish = sp.census(ctx)
	}
	rep, err := sem.Run(cfg)
	if err != nil {
		return nil, err
	}
	o := FromSem(ctx, rep, sp.rule, sp.minDec, append(append([]string{}, commonAssumptions...), sp.assume...))
	if finish != nil {
		finish(o)
	}
	if sp.post != nil {
		sp.post(ctx, cases, o)
	}
	return o, nil
}

func regSem(sp *semSpec) {
	Register(sp.id, func(ctx *Ctx) (*Outcome, error) { return runSem(ctx, sp) })
}

func init() {
	regSem(&semSpec{id: "C02",
		opts:    sg.Opts{MaxDepth: 3, Descs: true, PAddProps: 0.35, IntLimits: true, AddPropsTrue: true, NullType: true, RootKinds: true, W: map[string]float64{"string": 4, "object": 3, "array": 2.5}},
		classes: docgen.Classes{"addkey": true, "delopt": true, "bound": true},
		own:     func(d docgen.Doc, mr model.Result) bool { return mr.V == model.Accept },
		values:  true, byValue: true, addProps: true, defaults: false,
		extra: func(ctx *Ctx, i int, r *sg.Rng) *sem.Case {
			if c := sameRefTextTwinCase(ctx, i, r, ctx.N(18, 120)); c != nil {
				return c
			}
			if k := i - ctx.N(18, 120); k >= 0 && k < 10 {
				return formatCase(k)
			}
			if k := i - ctx.N(18, 120) - 10; k >= 0 && k < 8 {
				return typelessDefCase(k)
			}
			if k := i - ctx.N(18, 120) - 18; k >= 0 && k < 6 {
				return selfRefTwinCase(k)
			}
			if k := i - ctx.N(18, 120) - 24; k >= 0 && k < 2 {
				return caseIdentifierCase(k)
			}
			if k := i - ctx.N(18, 120) - 26; k >= 0 && k < 22 {
				return ignoredKeywordCase(k)
			}
			if k := i - ctx.N(18, 120) - 48; k >= 0 && k < 16 {
				return sharedOutputCase(k)
			}
			if k := i - ctx.N(18, 120) - 64; k >= 0 && k < 30 {
				return fractionalIntBoundCase(k)
			}
			if k := i - ctx.N(18, 120) - 94; k >= 0 && k < 8 {
				// anyOf members that state different keywords on one key: a document that satisfies one member is valid
				return anyOfOverlapCase(k)
			}
			if k := i - ctx.N(18, 120) - 102; k >= 0 && k < 8 {
				return sharedMemberStringCase(k)
			}
			return nil
		},
		args: func(r *sg.Rng, root *sg.Schema) []string {
			var a []string
			// anyOf + --min-sized-ints: the merged struct's sized fields reject values another branch admits
			// (recorded finding anyof-merged, whose defect model does not know sized types) - not combined here
			hasAnyOf := false
			root.Walk(func(x *sg.Schema) { hasAnyOf = hasAnyOf || len(x.AnyOf) > 0 })
			if r.Chance(0.3) && !hasAnyOf {
				a = append(a, "--min-sized-ints")
			}
			if r.Chance(0.3) {
				a = append(a, "--extra-imports")
			}
			if r.Chance(0.2) {
				a = append(a, "--capitalization", "ID,URL")
			}
			return a
		},
		intLim: true,
		post: func(ctx *Ctx, _ []*sem.Case, o *Outcome) {
			// validate the ORACLE: the reference model vs the independent Python jsonschema package on sampled pairs
			cov, inc := modelCrossCheck(ctx, ctx.N(120, 3000))
			for k, v := range cov {
				o.Coverage[k] = v
			}
			if inc != "" && o.Inconclusive == "" {
				o.Inconclusive = inc
			}
		},
		nQuick: 500, nThor: 8000, valid: 8, perSite: 2, maxDocs: 40, minDec: 2000,
		rule: "random schemas over the supported feature space (objects, nesting<=3, arrays, formats, enums, refs, additionalProperties); documents valid by construction (maximal, minimal, random; boundary-seeking) plus model-accepted variants; each is executed by the compiled generated code; deciding observation = verdict ok AND path-wise comparison of json.Marshal(&v) and json.Marshal(v) with the input; distinct_nontrivial = distinct (schema signature, document class) pairs with >=1 deciding observation",
	})
	twin := func(ctx *Ctx, i int, r *sg.Rng) *sem.Case {
		if c := sameRefTextTwinCase(ctx, i, r, ctx.N(12, 90)); c != nil {
			return c
		}
		// then allOf branches that require / retype each other's keys
		if k := i - ctx.N(12, 90); k >= 0 && k < ctx.N(8, 32) {
			return crossBranchCase(k, r)
		}
		if k := i - ctx.N(12, 90) - ctx.N(8, 32); k >= 0 && k < 24 {
			return sharedBranchAnyOfCase(k)
		}
		if k := i - ctx.N(12, 90) - ctx.N(8, 32) - 24; k >= 0 && k < 16 {
			return nestedOverlapCase(k)
		}
		if k := i - ctx.N(12, 90) - ctx.N(8, 32) - 40; k >= 0 && k < 9 {
			return refSiblingCase(k)
		}
		if k := i - ctx.N(12, 90) - ctx.N(8, 32) - 49; k >= 0 && k < 8 {
			return extFieldCase(k)
		}
		if k := i - ctx.N(12, 90) - ctx.N(8, 32) - 57; k >= 0 && k < 8 {
			return oddRequiredNameCase(k)
		}
		if k := i - ctx.N(12, 90) - ctx.N(8, 32) - 65; k >= 0 && k < 12 {
			return mixinBranchCase(k)
		}
		if k := i - ctx.N(12, 90) - ctx.N(8, 32) - 77; k >= 0 && k < 22 {
			return ignoredKeywordCase(k)
		}
		if k := i - ctx.N(12, 90) - ctx.N(8, 32) - 99; k >= 0 && k < 8 {
			return typedAllOfDefinitionCase(k)
		}
		if k := i - ctx.N(12, 90) - ctx.N(8, 32) - 107; k >= 0 && k < 9 {
			return nestedSameDefCase(k)
		}
		if k := i - ctx.N(12, 90) - ctx.N(8, 32) - 116; k >= 0 && k < 6 {
			return propsNextToAllOfCase(k)
		}
		if k := i - ctx.N(12, 90) - ctx.N(8, 32) - 122; k >= 0 && k < 6 {
			return aliasDefinitionCase(k)
		}
		if k := i - ctx.N(12, 90) - ctx.N(8, 32) - 128; k >= 0 && k < 8 {
			return nearTwinDefaultCase(k)
		}
		if k := i - ctx.N(12, 90) - ctx.N(8, 32) - 136 - 3*nearTwinVariants; k >= 0 && k < 12 {
			return optionNeutralCase(k)
		}
		if k := i - ctx.N(12, 90) - ctx.N(8, 32) - 136; k >= 0 && k < 3*nearTwinVariants {
			// two contenders for one type name that differ in a required list / a nullable type
			if v := k % nearTwinVariants; v == 11 || v == 13 || v == 19 {
				return nearTwinCase(k)
			}
			return skipCase
		}
		return nil
	}
	regSem(&semSpec{id: "C03",
		extra: func(ctx *Ctx, i int, r *sg.Rng) *sem.Case {
			if i < 16 {
				return fractionalMultipleCase(i)
			}
			if i < 20 {
				return nullItemsCase(i - 16)
			}
			if i < 28 {
				return patternPropsCase(i - 20)
			}
			if i < 34 {
				return nullableBranchCase(i - 28)
			}
			if i < 46 {
				return nullableDefCase(i - 34)
			}
			if i < 53 {
				return ignoredArrayKeywordCase(i - 46)
			}
			return twin(ctx, i-53, r)
		},
		opts:    sg.Opts{MaxDepth: 3, PNullable: 0.3, PAddProps: 0.35, NullType: true, RootKinds: true, AddPropsTrue: true, W: map[string]float64{"map": 2.5}},
		classes: docgen.Classes{"type": true, "nullok": true, "nullreq": true, "addkey": true},
		own:     classOwner("type", "nullok", "addkey"),
		values:  true,
		nQuick:  450, nThor: 8000, valid: 4, perSite: 6, maxDocs: 150, minDec: 5000,
		rule: "for every typed position (property, array element, additional-property value, through $ref) of valid documents: the value is replaced by values of every other JSON type (1.5 for integer) and, where null is allowed, by null; verdict vs model, and null must decode to nil/absent; distinct_nontrivial = distinct (schema signature, mutation class) pairs",
	})
	regSem(&semSpec{id: "C04", extra: twin,
		opts:    sg.Opts{MaxDepth: 3, RootKinds: true, W: map[string]float64{"object": 5, "array": 2.5, "ref": 2.5, "compose": 2}, PNullable: 0.25},
		classes: docgen.Classes{"required": true, "delopt": true, "nullreq": true},
		own:     classOwner("required", "delopt", "nullok", "valid"),
		nQuick:  500, nThor: 8000, valid: 5, perSite: 3, maxDocs: 120, minDec: 3000,
		rule: "object schemas at root, nested, array-element, $ref and allOf/anyOf positions with 0-5 required keys; every single required key and every subset (<=4 keys) is removed from valid documents; optional keys removed and nullable keys set to null must stay accepted; verdict vs model",
	})
	regSem(&semSpec{id: "C06",
		extra: func(ctx *Ctx, i int, r *sg.Rng) *sem.Case {
			if i < 12 {
				return stringOverlapCase(i)
			}
			if i < 32 {
				return crossPackageCase(i - 12)
			}
			if i < 44 {
				return nullableDefCase(i - 32)
			}
			if i < 64 {
				return controlPatternCase(i - 44)
			}
			if i < 72 {
				return extFieldCase(i - 64)
			}
			if i < 80 {
				return percentStringCase(i - 72)
			}
			if i >= 80+3*nearTwinVariants && i < 80+3*nearTwinVariants+8 {
				return sharedMemberStringCase(i - 80 - 3*nearTwinVariants)
			}
			if i >= 80+3*nearTwinVariants+8 {
				return nil
			}
			if i < 80+3*nearTwinVariants {
				if v := (i - 80) % nearTwinVariants; v >= 2 && v <= 5 {
					return nearTwinCase(i - 80)
				}
				return skipCase
			}
			return nil
		},
		opts:    sg.Opts{MaxDepth: 2, NoFormats: true, RootKinds: true, W: map[string]float64{"string": 10, "integer": 0.5, "number": 0.5, "enum": 0.3, "ref": 2.5, "array": 1.5}, PNullable: 0.3},
		classes: docgen.Classes{"string": true},
		own:     classOwner("string", "valid"),
		nQuick:  400, nThor: 6000, valid: 4, perSite: 5, maxDocs: 150, minDec: 4000,
		rule: "string schemas with every combination of minLength/maxLength/pattern (RE2∩ECMA pool) at required/optional/nullable/definition/array-item positions; strings of length min-1,min,max,max+1 (ASCII and 2/3/4-byte runes), matching and non-matching; verdict vs model (length in characters)",
	})
	regSem(&semSpec{id: "C07",
		extra: func(ctx *Ctx, i int, r *sg.Rng) *sem.Case {
			if i < 3*nearTwinVariants {
				return nearTwinCase(i)
			}
			i -= 3 * nearTwinVariants
			if i < 3 {
				return nestedCompositionArrayCase(i)
			}
			i -= 3
			if i < 8 {
				return exactSizeGridCase(i)
			}
			i -= 8
			if i > ctx.N(24, 96) && i <= ctx.N(24, 96)+12 {
				return nullableDefCase(i - ctx.N(24, 96) - 1)
			}
			if i > ctx.N(24, 96)+12 && i <= ctx.N(24, 96)+20 {
				return extFieldCase(i - ctx.N(24, 96) - 13)
			}
			if i > ctx.N(24, 96)+20 && i <= ctx.N(24, 96)+26 {
				return titledNestedArrayCase(i - ctx.N(24, 96) - 21)
			}
			if i > ctx.N(24, 96)+26 && i <= ctx.N(24, 96)+29 {
				return allOfOrderArrayLimitCase(i - ctx.N(24, 96) - 27)
			}
			if i == ctx.N(24, 96) {
				return sharedNodeWitness()
			}
			if i > ctx.N(24, 96)+29 {
				return nil
			}
			return sharedNodeCase(i, r)
		},
		opts:    sg.Opts{MaxDepth: 3, NullType: true, RootKinds: true, W: map[string]float64{"array": 10, "object": 1.5, "ref": 2, "untyped": 1.5}, PNullable: 0.3},
		classes: docgen.Classes{"items": true, "string": true, "bound": true, "enum": true, "required": true},
		own:     func(d docgen.Doc, mr model.Result) bool { return true },
		nQuick:  400, nThor: 6000, valid: 4, perSite: 3, maxDocs: 150, minDec: 4000,
		rule: "array schemas nested 1-3 deep with independent minItems/maxItems per level at required/optional/nullable positions; one level at a time made min-1/min/max/max+1 long; element-level single faults per element schema kind; verdict vs model",
	})
	regSem(&semSpec{id: "C08",
		extra: func(ctx *Ctx, i int, r *sg.Rng) *sem.Case {
			if i < 8 {
				return bothDefsKeywordsCase(i)
			}
			if i < 136 {
				// every combination of kinds with an enum among the contenders for one type name
				if c := collisionKindsCase(i - 8); strings.ContainsAny(c.Sig[len("collision-kinds/"):], "01") {
					return c
				}
				return skipCase
			}
			if i < 146 {
				return formatEnumCase(i - 136)
			}
			if i < 149 {
				return refEnumCase(i - 146)
			}
			if i < 155 {
				return typeListEnumCase(i - 149)
			}
			if i < 227 {
				return enumTripleCase(i - 155)
			}
			if i < 245 {
				return derivedNameCollisionCase(i - 227)
			}
			if i < 269 {
				return longEnumCase(i - 245)
			}
			return nil
		},
		opts:    sg.Opts{MaxDepth: 2, RootKinds: true, W: map[string]float64{"enum": 10, "array": 2, "ref": 2}, PDefault: 0.4},
		classes: docgen.Classes{"enum": true},
		own:     classOwner("enum", "valid"),
		census:  enumConstCensus,
		values:  true, byValue: true,
		nQuick: 400, nThor: 6000, valid: 4, perSite: 6, maxDocs: 150, minDec: 3000,
		rule: "enum lists of 1-4 values per kind (string, integer, number, boolean, mixed incl. null), typed/untyped, inline / $ref / array items / with default; per enum position every member and near-miss non-members of every JSON type; verdict vs model (JSON equality) and re-marshal (by pointer and by value) must give the bare value",
	})
	regSem(&semSpec{id: "C09", census: defaultLiteralCensus,
		opts:    sg.Opts{MaxDepth: 2, PDefault: 0.85, W: map[string]float64{"object": 2.5, "ref": 0.5, "compose": 0}},
		classes: docgen.Classes{"default": true},
		own:     classOwner("default", "valid"),
		extra: func(ctx *Ctx, i int, r *sg.Rng) *sem.Case {
			if i < 32 {
				return refDefaultCase(i)
			}
			if i < 56 {
				return stringDefaultCase(i - 32)
			}
			if i < 62 {
				return untypedDefaultCase(i - 56)
			}
			if i < 74 {
				return objectDefaultCase(i - 62)
			}
			if i < 80 {
				return refObjectDefaultCase(i - 74)
			}
			if i < 83 {
				return allOfDefaultCase(i - 80)
			}
			if i < 85 {
				return nullableArrayDefaultCase(i - 83)
			}
			if i < 93 {
				return nearTwinDefaultCase(i - 85)
			}
			return sameNameTwinCase(ctx, i-93, r)
		},
		values: true, defaults: true,
		nQuick: 400, nThor: 6000, valid: 3, perSite: 3, maxDocs: 120, minDec: 2000,
		rule: "optional properties with a default (string, integer, number, boolean, array of scalars, enums) alone/next to required siblings/in nested objects; documents with the key absent, null, present with the zero value, present with another value; decoded field (via re-marshal) must equal the default resp. the document value",
	})
}

func modelAccept(s *sg.Schema, v any) bool { return model.Eval(s, v, nil).V == model.Accept }

func init() {
	regSem(&semSpec{id: "C17",
		opts:    sg.Opts{MaxDepth: 3, PNullable: 0.25, PDefault: 0.35, PAddProps: 0.25, W: map[string]float64{"compose": 1.5}},
		classes: docgen.Classes{"required": true, "bound": true, "string": true, "enum": true, "items": true, "default": true, "delopt": true, "nullok": true},
		own: func(d docgen.Doc, mr model.Result) bool {
			if mr.V == model.Accept || d.Class == "formatparity" || d.Class == "pinned" {
				return true
			}
			// exactly one violated rule of the kinds the statement names
			if len(mr.Faults) != 1 {
				return false
			}
			switch mr.Faults[0].Rule {
			case "required", "minimum", "maximum", "exclusiveMinimum", "exclusiveMaximum", "multipleOf", "minLength", "maxLength", "pattern":
				return true
			case "enum":
				// only string non-members of string enums: other JSON types are type faults (yaml.v3 coerces scalars)
				v, ok := docgen.Get(d.V, pointerPath(d.V, mr.Faults[0].Path))
				_, isStr := v.(string)
				return ok && isStr
			}
			return false
		},
		modes: []string{"json", "yaml", "yamlblock"}, parity: true,
		extra: func(ctx *Ctx, i int, r *sg.Rng) *sem.Case {
			// every numeric keyword pattern, also with fractional constants on integers: both paths must agree
			// whatever the (possibly defective) common verdict is
			if c17strata == nil {
				c17strata = numericStrata(ctx, "C17", true, []string{"--extra-imports"})
			}
			if i >= len(c17strata) {
				// names the generated code uses itself (the type called Plain next to additionalProperties, ...)
				if k := i - len(c17strata); k < ctx.N(32, 160) {
					c := internalNameCase(k, r)
					c.Args = append(c.Args, "--extra-imports")
					return c
				} else if k -= ctx.N(32, 160); k < 12 {
					return dashNameCase(k)
				} else if k -= 12; k < 5 {
					return lenientFormatCase(k)
				} else if k -= 5; k < 8 {
					return percentNameCase(k)
				} else if k -= 8; k < 4 {
					return caseIdentifierCase(k)
				} else if k -= 4; k < 8 {
					c := extFieldCase(k)
					c.Args = append(c.Args, "--extra-imports")
					return c
				} else if k -= 8; k < 6 {
					return ecmaPatternCase(k)
				} else if k -= 6; k < 8 {
					return undeclaredRequiredCase(k)
				} else if k -= 8; k < 12 {
					return propertyCountCase(k)
				} else if k -= 12; k < 72 {
					c := emptyIntervalCase(k)
					c.Args = append(c.Args, "--extra-imports")
					return c
				} else if k -= 72; k < 12 {
					return multiTypeRuleCase(k)
				} else if k -= 12; k < 8 {
					c := nearTwinDefaultCase(k)
					c.Args = append(c.Args, "--extra-imports")
					return c
				} else if k -= 8; k < 6 {
					return quotedNameParityCase(k)
				}
				return nil
			}
			return c17strata[i]
		},
		args:   func(r *sg.Rng, _ *sg.Schema) []string { return []string{"--extra-imports"} },
		nQuick: 350, nThor: 6000, valid: 4, perSite: 3, maxDocs: 90, minDec: 5000,
		rule: "schemas over the supported feature space generated with --extra-imports; every valid document and every document violating exactly one required/bound/multipleOf/length/pattern/enum rule is decoded through json.Unmarshal, yaml.Unmarshal of the same text, and yaml.Unmarshal of a block-style YAML rendering; verdicts and json.Marshal of the decoded values must be identical; type-fault documents are out of scope (yaml.v3 coerces scalars, DESIGN §3.13)",
	})
}

// pointerPath converts a "/a/0/b" path of the model into docgen path elements (array indexes as ints).
func pointerPath(doc any, p string) []any {
	var out []any
	cur := doc
	for _, seg := range strings.Split(strings.TrimPrefix(p, "/"), "/") {
		if seg == "" {
			continue
		}
		switch t := cur.(type) {
		case []any:
			i, err := strconv.Atoi(seg)
			if err != nil || i >= len(t) {
				return out
			}
			out = append(out, i)
			cur = t[i]
		case jsonx.Obj:
			out = append(out, seg)
			cur, _ = t.Get(seg)
		default:
			return out
		}
	}
	return out
}

// sameNameTwinCase: two schema files generated into ONE package, each declaring a definition with the same name and
// the same shape but different defaults (and a same-named nested property object); every document of each file must
// see the defaults of its own schema. Exercises the generator's "reuse an equal declaration" path.
func sameNameTwinCase(ctx *Ctx, i int, r *sg.Rng) *sem.Case {
	if i >= ctx.N(24, 200) {
		return nil
	}
	kinds := r.Perm(5)[:2+r.IntN(3)]
	mkDef := func(variant int) *sg.Schema {
		dflt := func(a, b any) any {
			if variant == 0 {
				return a
			}
			return b
		}
		d := &sg.Schema{Types: []string{"object"}}
		add := func(name string, s *sg.Schema) { d.Props = append(d.Props, sg.Prop{Name: name, S: s}) }
		for _, k := range kinds {
			switch k {
			case 0:
				add("attempts", &sg.Schema{Types: []string{"integer"}, Min: sg.Fp(0), HasDefault: true, Default: dflt(jsonx.N(3), jsonx.N(10))})
			case 1:
				add("backoff", &sg.Schema{Types: []string{"string"}, HasEnum: true, Enum: []any{"linear", "exponential"}, HasDefault: true, Default: dflt("linear", "exponential")})
			case 2:
				add("codes", &sg.Schema{Types: []string{"array"}, Items: &sg.Schema{Types: []string{"integer"}}, HasDefault: true, Default: dflt([]any{jsonx.N(500)}, []any{jsonx.N(502), jsonx.N(503)})})
			case 3:
				add("verbose", &sg.Schema{Types: []string{"boolean"}, HasDefault: true, Default: dflt(true, false)})
			case 4:
				add("label", &sg.Schema{Types: []string{"string"}, MaxLen: 8, HasDefault: true, Default: dflt("alpha", "beta")})
			}
		}
		add("plain", &sg.Schema{Types: []string{"integer"}})
		return d
	}
	// the two variants must be generated with the same property choice: reuse the PRNG state
	d0 := mkDef(0)
	d1 := mkDef(1)
	mkRoot := func(d *sg.Schema) *sg.Schema {
		return &sg.Schema{Types: []string{"object"}, DefsKey: "definitions",
			Props: []sg.Prop{{Name: "retry", S: &sg.Schema{Ref: "#/definitions/Retry", Target: d}}, {Name: "name", S: &sg.Schema{Types: []string{"string"}}}},
			Defs:  []sg.Prop{{Name: "Retry", S: d}}}
	}
	a := &sem.Case{Root: mkRoot(d0), Sig: fmt.Sprintf("same-name-twin/a/%s", d0.Sig())}
	b := &sem.Case{Root: mkRoot(d1), Sig: fmt.Sprintf("same-name-twin/b/%s", d1.Sig())}
	if i%2 == 1 {
		a, b = b, a
	}
	a.Group = []*sem.Case{b}
	return a
}

var c17strata []*sem.Case

// enumConstCensus checks, through go/types on the emitted package, that every string enum of the schema is exposed as
// one typed constant per listed value whose value is that string (C08, second sentence).
func enumConstCensus(ctx *Ctx) (func(cases []*sem.Case), func(o *Outcome)) {
	enums, missing, extra := 0, 0, 0
	var viols []Viol
	each := func(cases []*sem.Case) {
		for _, c := range cases {
			p := sem.ProgramOf(c)
			if p == nil || !p.Usable() || p.Report.Pkg == nil {
				continue
			}
			onlyModels := false
			for _, a := range c.Args {
				onlyModels = onlyModels || a == "--only-models"
			}
			// constants of the package grouped by their named type
			byType := map[string]map[string]bool{}
			scope := p.Report.Pkg.Scope()
			for _, name := range scope.Names() {
				cn, ok := scope.Lookup(name).(*types.Const)
				if !ok {
					continue
				}
				nt, ok := cn.Type().(*types.Named)
				if !ok || cn.Val().Kind() != constant.String {
					continue
				}
				tn := nt.Obj().Name()
				if byType[tn] == nil {
					byType[tn] = map[string]bool{}
				}
				byType[tn][constant.StringVal(cn.Val())] = true
			}
			// every string enum of the schema must appear as the constant set of some type
			var lists [][]string
			c.Root.Walk(func(x *sg.Schema) {
				if !x.HasEnum || len(x.Enum) == 0 {
					return
				}
				if len(x.Types) == 1 && x.Types[0] != "string" {
					return
				}
				var l []string
				for _, e := range x.Enum {
					str, ok := e.(string)
					if !ok {
						return // mixed / non-string enum: wrapped, no constants promised
					}
					l = append(l, str)
				}
				lists = append(lists, l)
			})
			for _, l := range lists {
				enums++
				want := map[string]bool{}
				for _, v := range l {
					want[v] = true
				}
				found := false
				best := ""
				for tn, got := range byType {
					if len(got) == len(want) {
						same := true
						for v := range want {
							same = same && got[v]
						}
						if same {
							found = true
							break
						}
					}
					// remember a near miss for the message
					inter := 0
					for v := range want {
						if got[v] {
							inter++
						}
					}
					if inter > 0 && best == "" {
						best = fmt.Sprintf("%s has constants %v", tn, keysOfSet(got))
					}
				}
				if !found {
					missing++
					if len(viols) < 4 {
						b, _ := json.MarshalIndent(map[string]any{"property": "C08", "kind": "constant census", "enum": l, "near_miss": best, "schema": json.RawMessage(jsonx.Marshal(c.Root.ToJSON())), "args": c.Args, "emitted": string(p.Src)}, "", " ")
						path := filepath.Join(evid.ReplayDir(), fmt.Sprintf("C08-census-%d.json", len(viols)))
						_ = os.WriteFile(path, b, 0o644)
						viols = append(viols, Viol{Replay: path, Summary: fmt.Sprintf("constant census: no type exposes exactly one constant per value of the string enum %q (%s)", l, best)})
					}
				}
			}
			_ = extra
			_ = onlyModels
		}
	}
	return each, func(o *Outcome) {
		o.Coverage["string_enums_census"] = enums
		o.Coverage["string_enums_without_exact_constants"] = missing
		o.Violations = append(o.Violations, viols...)
	}
}

func keysOfSet(m map[string]bool) []string {
	var out []string
	for k := range m {
		out = append(out, k)
	}
	sort.Strings(out)
	return out
}

// sameRefTextTwinCase: two schema files in ONE generator invocation that use the same local reference text
// ("#/$defs/Base") inside an allOf / anyOf / plain property, resolving to DIFFERENT definitions. Every document of each
// file must be judged by its own definitions (reference resolution is per document; caches must not leak across files).
func sameRefTextTwinCase(ctx *Ctx, i int, r *sg.Rng, limit int) *sem.Case {
	if i >= limit {
		return nil
	}
	g := sg.NewGen(r, sg.Opts{NoFormats: true})
	mkBase := func(v int) *sg.Schema {
		b := &sg.Schema{Types: []string{"object"}}
		if v == 0 {
			b.Props = []sg.Prop{{Name: "id", S: &sg.Schema{Types: []string{"string"}, MinLen: 2}}, {Name: "createdAt", S: &sg.Schema{Types: []string{"integer"}, Min: sg.Fp(0)}}}
			b.Required = []string{"id"}
		} else {
			b.Props = []sg.Prop{{Name: "number", S: &sg.Schema{Types: []string{"integer"}, Min: sg.Fp(1), Max: sg.Fp(999)}}, {Name: "dueDate", S: &sg.Schema{Types: []string{"string"}, MaxLen: 10}}}
			b.Required = []string{"number"}
		}
		if r.Chance(0.5) {
			b.Props = append(b.Props, sg.Prop{Name: fmt.Sprintf("extra%d", v), S: g.Integer()})
		}
		// the same key with different types in the two documents
		if v == 0 {
			b.Props = append(b.Props, sg.Prop{Name: "value", S: &sg.Schema{Types: []string{"string"}}})
		} else {
			b.Props = append(b.Props, sg.Prop{Name: "value", S: &sg.Schema{Types: []string{"integer"}}})
		}
		return b
	}
	mkRoot := func(v int) *sg.Schema {
		base := mkBase(v)
		ref := func() *sg.Schema { return &sg.Schema{Ref: "#/$defs/Base", Target: base} }
		own := &sg.Schema{Types: []string{"object"}, Props: []sg.Prop{{Name: fmt.Sprintf("own%d", v), S: &sg.Schema{Types: []string{"boolean"}}}}}
		var use *sg.Schema
		switch i % 3 {
		case 0:
			use = &sg.Schema{AllOf: []*sg.Schema{ref(), own}}
		case 1:
			use = &sg.Schema{AnyOf: []*sg.Schema{ref(), {Types: []string{"object"}, Props: []sg.Prop{{Name: fmt.Sprintf("alt%d", v), S: &sg.Schema{Types: []string{"string"}}}}, Required: []string{fmt.Sprintf("alt%d", v)}}}}
		default:
			use = ref()
		}
		return &sg.Schema{Types: []string{"object"}, Props: []sg.Prop{{Name: "details", S: use}, {Name: "note", S: &sg.Schema{Types: []string{"string"}}}}, Required: []string{"details"}, Defs: []sg.Prop{{Name: "Base", S: base}}}
	}
	a := &sem.Case{Root: mkRoot(0), RootFile: "order.json", Sig: fmt.Sprintf("same-ref-text-twin/%d/a", i%3)}
	b := &sem.Case{Root: mkRoot(1), RootFile: "invoice.json", Sig: fmt.Sprintf("same-ref-text-twin/%d/b", i%3)}
	if (i/3)%2 == 1 {
		a, b = b, a
	}
	a.Group = []*sem.Case{b}
	return a
}

// sharedNodeCase: a definition that is used on its own AND as a member of allOf/anyOf compositions. Variant A
// (i%2==0): one composition whose later member redeclares the definition's properties with complementary keywords -
// the standalone use must keep the definition's own rules, the composition must enforce both. Variant B (i%2==1): two
// compositions over the same definition with different sibling properties - each exposes and enforces its own
// members only. (Both together is the recorded finding allof-shared-def-polluted: pinned witness sharedNodeWitness.)
func sharedNodeCase(i int, r *sg.Rng) *sem.Case {
	base := &sg.Schema{Types: []string{"object"}, Props: []sg.Prop{
		{Name: "tags", S: &sg.Schema{Types: []string{"array"}, Items: &sg.Schema{Types: []string{"string"}}, MinItems: 1}},
		{Name: "name", S: &sg.Schema{Types: []string{"string"}, MinLen: 2}},
		{Name: "n", S: &sg.Schema{Types: []string{"integer"}, Min: sg.Fp(1)}},
	}}
	ref := func() *sg.Schema { return &sg.Schema{Ref: "#/$defs/Base", Target: base} }
	root := &sg.Schema{Types: []string{"object"}, Defs: []sg.Prop{{Name: "Base", S: base}}}
	alone := "alone"
	if (i/2)%2 == 1 {
		alone = "zalone" // the order in which the uses are generated follows the property names
	}
	root.Props = []sg.Prop{{Name: alone, S: ref()}}
	c := &sem.Case{Root: root, Sig: fmt.Sprintf("shared-node/%d", i%12)}
	mk := func(key string, tags int, name string, n int64, extra ...jsonx.KV) docgen.Doc {
		var a []any
		for k := 0; k < tags; k++ {
			a = append(a, fmt.Sprintf("t%d", k))
		}
		o := jsonx.Obj{{K: "tags", V: a}, {K: "name", V: name}, {K: "n", V: jsonx.N(n)}}
		o = append(o, extra...)
		return docgen.Doc{V: jsonx.Obj{{K: key, V: o}}, Class: "sharednode", Label: key}
	}
	grid := func(key string) {
		c.Docs = append(c.Docs, mk(key, 2, "abc", 5), mk(key, 4, "abc", 5), mk(key, 10, "abc", 5), mk(key, 2, "abcdefgh", 5), mk(key, 2, "abc", 50), mk(key, 0, "abc", 5), mk(key, 2, "a", 5), mk(key, 2, "abc", 0))
	}
	grid(alone)
	if i%2 == 0 {
		later := &sg.Schema{Types: []string{"object"}, Props: []sg.Prop{
			{Name: "tags", S: &sg.Schema{Types: []string{"array"}, Items: &sg.Schema{Types: []string{"string"}}, MaxItems: 3}},
			{Name: "name", S: &sg.Schema{Types: []string{"string"}, MaxLen: 5}},
			{Name: "n", S: &sg.Schema{Types: []string{"integer"}, Max: sg.Fp(9)}},
		}}
		if (i/4)%2 == 1 {
			later.Props = later.Props[:1+r.IntN(3)]
		}
		comp := &sg.Schema{AllOf: []*sg.Schema{ref(), later}}
		if (i/8)%3 == 2 {
			comp = &sg.Schema{AnyOf: []*sg.Schema{ref(), later}}
		}
		root.Props = append(root.Props, sg.Prop{Name: "limited", S: comp})
		grid("limited")
		return c
	}
	// variant B: two compositions, the shared definition first or last, allOf or anyOf
	wheels := &sg.Schema{Types: []string{"object"}, Props: []sg.Prop{{Name: "wheels", S: &sg.Schema{Types: []string{"integer"}, Min: sg.Fp(3)}}}}
	masts := &sg.Schema{Types: []string{"object"}, Props: []sg.Prop{{Name: "masts", S: &sg.Schema{Types: []string{"integer"}, Min: sg.Fp(1)}}, {Name: "rig", S: &sg.Schema{Types: []string{"string"}, MaxLen: 4}}}}
	order := func(a, b *sg.Schema, flip bool) []*sg.Schema {
		if flip {
			return []*sg.Schema{b, a}
		}
		return []*sg.Schema{a, b}
	}
	car := &sg.Schema{AllOf: order(ref(), wheels, (i/4)%2 == 1)}
	ship := &sg.Schema{AllOf: order(ref(), masts, (i/8)%2 == 1)}
	allOfBoth := (i/16)%3 != 2
	if !allOfBoth {
		ship = &sg.Schema{AnyOf: order(ref(), masts, (i/8)%2 == 1)}
	}
	root.Props = append(root.Props, sg.Prop{Name: "car", S: car}, sg.Prop{Name: "ship", S: ship})
	kv := func(k string, v any) jsonx.KV { return jsonx.KV{K: k, V: v} }
	grid("car")
	c.Docs = append(c.Docs, mk("car", 2, "abc", 5, kv("wheels", jsonx.N(4))), mk("car", 2, "abc", 5, kv("wheels", jsonx.N(1))),
		// the other composition's members are undeclared keys here: any value is fine
		mk("car", 2, "abc", 5, kv("wheels", jsonx.N(4)), kv("masts", jsonx.N(0))), mk("car", 2, "abc", 5, kv("masts", "none"), kv("rig", "toolongvalue")))
	if allOfBoth {
		grid("ship")
		c.Docs = append(c.Docs, mk("ship", 2, "abc", 5, kv("masts", jsonx.N(2))), mk("ship", 2, "abc", 5, kv("masts", jsonx.N(0))), mk("ship", 2, "abc", 5, kv("rig", "toolong")),
			mk("ship", 2, "abc", 5, kv("masts", jsonx.N(2)), kv("wheels", jsonx.N(1))), mk("ship", 2, "abc", 5, kv("wheels", "none")))
	}
	return c
}

// sharedNodeWitness is the pinned witness of the recorded finding allof-shared-def-polluted: the later member of the
// first composition redeclares properties of the shared definition, and a second composition over the same definition
// (generated afterwards) inherits those limits.
func sharedNodeWitness() *sem.Case {
	base := &sg.Schema{Types: []string{"object"}, Props: []sg.Prop{{Name: "name", S: &sg.Schema{Types: []string{"string"}, MinLen: 2}}, {Name: "n", S: &sg.Schema{Types: []string{"integer"}, Min: sg.Fp(1)}}}}
	ref := func() *sg.Schema { return &sg.Schema{Ref: "#/$defs/Base", Target: base} }
	later := &sg.Schema{Types: []string{"object"}, Props: []sg.Prop{{Name: "name", S: &sg.Schema{Types: []string{"string"}, MaxLen: 5}}, {Name: "n", S: &sg.Schema{Types: []string{"integer"}, Max: sg.Fp(9)}}}}
	wheels := &sg.Schema{Types: []string{"object"}, Props: []sg.Prop{{Name: "wheels", S: &sg.Schema{Types: []string{"integer"}, Min: sg.Fp(3)}}}}
	root := &sg.Schema{Types: []string{"object"}, Defs: []sg.Prop{{Name: "Base", S: base}}, Props: []sg.Prop{
		{Name: "limited", S: &sg.Schema{AllOf: []*sg.Schema{ref(), later}}}, {Name: "vehicle", S: &sg.Schema{AllOf: []*sg.Schema{ref(), wheels}}}}}
	doc := jsonx.Obj{{K: "vehicle", V: jsonx.Obj{{K: "name", V: "abcdefgh"}, {K: "n", V: jsonx.N(50)}, {K: "wheels", V: jsonx.N(4)}}}}
	return &sem.Case{Root: root, Sig: "witness:allof-shared-def-polluted", NoAuto: true, Witness: "allof-shared-def-polluted", Docs: []docgen.Doc{{V: doc, Class: "pinned", Label: "witness"}}}
}

// collisionTripleCase: three definition (or property) names that normalise to one Go identifier, with schemas A, B, B'
// where B' is structurally equal to B and different from A, in every order: distinct schemas must get distinct types
// and every referrer must be bound to the type of its own schema.
func collisionTripleCase(i int, r *sg.Rng) *sem.Case {
	names := [][3]string{{"net-addr", "net.addr", "net_addr"}, {"a b", "a-b", "a_b"}, {"my item", "my-item", "myItem"}}[i%3]
	mkA := func() *sg.Schema {
		return &sg.Schema{Types: []string{"object"}, Props: []sg.Prop{{Name: "host", S: &sg.Schema{Types: []string{"string"}, MinLen: 1}}}, Required: []string{"host"}}
	}
	mkB := func() *sg.Schema {
		return &sg.Schema{Types: []string{"object"}, Props: []sg.Prop{{Name: "port", S: &sg.Schema{Types: []string{"integer"}, Min: sg.Fp(1)}}}, Required: []string{"port"}}
	}
	orders := [][3]int{{0, 1, 1}, {1, 0, 1}, {1, 1, 0}, {0, 1, 0}, {0, 0, 1}, {1, 0, 0}}
	ord := orders[(i/3)%len(orders)]
	root := &sg.Schema{Types: []string{"object"}}
	c := &sem.Case{Root: root, Sig: fmt.Sprintf("collision-triple/%d/%v", i%3, ord)}
	doc := jsonx.Obj{}
	bad := jsonx.Obj{}
	var linkFrom *sg.Schema
	for k := 0; k < 3; k++ {
		var d *sg.Schema
		var good, wrong any
		if ord[k] == 0 {
			d, good, wrong = mkA(), jsonx.Obj{{K: "host", V: "h"}}, jsonx.Obj{{K: "port", V: jsonx.N(2)}}
		} else {
			d, good, wrong = mkB(), jsonx.Obj{{K: "port", V: jsonx.N(2)}}, jsonx.Obj{{K: "host", V: "h"}}
		}
		key := fmt.Sprintf("p%d", k)
		if i%2 == 0 && (i/36)%2 == 1 && k == 1 {
			linkFrom = d
		}
		if linkFrom != nil && k == 2 {
			// the second definition (which gets the first suffix) refers to the third: the third is named while the
			// second is still being generated
			linkFrom.Props = append(linkFrom.Props, sg.Prop{Name: "link", S: &sg.Schema{Ref: "#/$defs/" + names[2], Target: d}})
		}
		if i%2 == 0 {
			root.Defs = append(root.Defs, sg.Prop{Name: names[k], S: d})
			root.Props = append(root.Props, sg.Prop{Name: key, S: &sg.Schema{Ref: "#/$defs/" + names[k], Target: d}})
		} else {
			// colliding nested property names instead of definitions: RootJson<Name> type names collide
			root.Props = append(root.Props, sg.Prop{Name: names[k], S: d})
			key = names[k]
		}
		doc = append(doc, jsonx.KV{K: key, V: good})
		bad = append(bad, jsonx.KV{K: key, V: wrong})
		c.Docs = append(c.Docs, docgen.Doc{V: jsonx.Obj{{K: key, V: good}}, Class: "collision", Label: "own-schema"}, docgen.Doc{V: jsonx.Obj{{K: key, V: wrong}}, Class: "collision", Label: "other-schema"})
	}
	c.Docs = append(c.Docs, docgen.Doc{V: doc, Class: "collision", Label: "all-own"}, docgen.Doc{V: bad, Class: "collision", Label: "all-other"})
	return c
}

// InternalNames are identifiers the generated code itself uses (local type and variable names of the unmarshalers,
// imported packages, method names, predeclared identifiers). Schema authors are free to use them as definition,
// property or file names; the generated code must keep working.
var InternalNames = []string{"plain", "Plain", "Plain_0", "raw", "value", "st", "err", "j", "v", "i", "json", "yaml", "fmt", "reflect", "errors", "regexp",
	"strings", "time", "mapstructure", "additionalProperties", "AdditionalProperties", "enumValues", "unmarshalJSON", "UnmarshalYAML", "marshalJSON",
	"string", "int", "error", "len", "nil", "true", "any", "type", "interface", "map", "func", "string_", "Type", "Error", "String", "Elem", "Decode"}

// internalNameCase: definitions / properties / root type named after identifiers of the generated code, every one
// with validators (so that an unmarshaler is generated) and one object that has declared properties next to typed
// additionalProperties.
func internalNameCase(i int, r *sg.Rng) *sem.Case {
	root := &sg.Schema{Types: []string{"object"}}
	doc := jsonx.Obj{}
	pick := func(k int) string { return InternalNames[(i*3+k*7)%len(InternalNames)] }
	names := []string{"plain"}
	rootMode := (i / 2) % 4
	if i%4 == 3 || rootMode != 0 {
		// when the root type itself is called Plain no definition may normalise to the same name (collisions get
		// order-dependent suffixes, DESIGN §3.11)
		names = nil
	}
	for k := 0; len(names) < 4; k++ {
		nm := pick(k)
		dup := false
		for _, x := range names {
			dup = dup || strings.EqualFold(x, nm)
		}
		if rootMode != 0 && (strings.EqualFold(nm, "plain") || nm == "Plain_0") {
			dup = true
		}
		if !dup {
			names = append(names, nm)
		}
	}
	for k, nm := range names {
		d := &sg.Schema{Types: []string{"object"}, Props: []sg.Prop{
			{Name: "text", S: &sg.Schema{Types: []string{"string"}, MinLen: 2}},
			{Name: "count", S: &sg.Schema{Types: []string{"integer"}, Min: sg.Fp(1), Default: jsonx.N(3), HasDefault: true}},
		}, Required: []string{"text"}}
		val := jsonx.Obj{{K: "text", V: "hello"}}
		switch k % 3 {
		case 1:
			d.AddProps = &sg.Schema{Types: []string{"integer"}}
			val = append(val, jsonx.KV{K: "zextra", V: jsonx.N(7)})
		case 2:
			d.Props = append(d.Props, sg.Prop{Name: pick(k + 11), S: &sg.Schema{Types: []string{"string"}, Enum: []any{"a", "b"}}})
		}
		if i%2 == 0 {
			root.Defs = append(root.Defs, sg.Prop{Name: nm, S: d})
			key := fmt.Sprintf("p%d", k)
			root.Props = append(root.Props, sg.Prop{Name: key, S: &sg.Schema{Ref: "#/$defs/" + nm, Target: d}})
			doc = append(doc, jsonx.KV{K: key, V: val})
		} else {
			root.Props = append(root.Props, sg.Prop{Name: nm, S: d})
			doc = append(doc, jsonx.KV{K: nm, V: val})
		}
	}
	// an object with declared properties and typed additionalProperties next to the type called Plain
	ap := &sg.Schema{Types: []string{"object"}, Props: []sg.Prop{{Name: "subject", S: &sg.Schema{Types: []string{"string"}, MinLen: 1}}}, Required: []string{"subject"}, AddProps: &sg.Schema{Types: []string{"integer"}}}
	root.Props = append(root.Props, sg.Prop{Name: "message", S: ap})
	doc = append(doc, jsonx.KV{K: "message", V: jsonx.Obj{{K: "subject", V: "s"}, {K: "n1", V: jsonx.N(1)}}})
	c := &sem.Case{Root: root, Sig: fmt.Sprintf("internal-names/%v", names)}
	switch rootMode {
	case 1:
		// the root type itself is called Plain
		root.ID = "https://example.com/internal"
		c.Args = []string{"--schema-root-type", root.ID + "=Plain"}
		c.RootType = "Plain"
	case 2:
		c.RootFile = "plain.json"
	case 3:
		root.Title = "Plain"
		c.Args = []string{"--struct-name-from-title"}
	}
	c.Docs = append(c.Docs, docgen.Doc{V: doc, Class: "internalnames", Label: "valid"})
	return c
}

// corpusUnsupported lists keywords the reference model does not read: a corpus schema that uses one (anywhere) is
// left out, as is one with references leaving the file.
var corpusUnsupported = map[string]bool{"oneOf": true, "not": true, "patternProperties": true, "const": true, "if": true, "then": true, "else": true,
	"dependencies": true, "dependentSchemas": true, "dependentRequired": true, "contains": true, "uniqueItems": true, "propertyNames": true,
	"minProperties": true, "maxProperties": true, "additionalItems": true, "prefixItems": true, "readOnly": false, "writeOnly": false}

// corpusCases turns the schema documents that ship with the repository (tests/data, read from the staged copy) into
// engine cases: the inputs are real-world shaped, the oracle is the model, not the golden files.
func corpusCases(ctx *Ctx, salt string) []*sem.Case {
	root := filepath.Join(ctx.Env.St.Repo, "tests", "data")
	var files []string
	_ = filepath.Walk(root, func(p string, info os.FileInfo, err error) error {
		if err == nil && !info.IsDir() && strings.HasSuffix(p, ".json") && info.Size() < 40_000 {
			files = append(files, p)
		}
		return nil
	})
	sort.Strings(files)
	var out []*sem.Case
	for _, f := range files {
		data, err := os.ReadFile(f)
		if err != nil {
			continue
		}
		s, err := sg.FromJSON(data)
		if err != nil {
			continue
		}
		ok := true
		s.Walk(func(x *sg.Schema) {
			if x.Ref != "" && x.Target == nil {
				ok = false // leaves the file (or dangling)
			}
			for _, kv := range x.Extra {
				if corpusUnsupported[kv.K] {
					ok = false
				}
			}
			if x.Ext != nil {
				ok = false // custom Go types: outside the model
			}
		})
		if !ok {
			continue
		}
		rel, _ := filepath.Rel(root, f)
		c := &sem.Case{Root: s, Sig: "corpus/" + rel}
		if strings.Contains(rel, "minSizedInts") {
			c.Args = []string{"--min-sized-ints"}
		}
		if strings.Contains(rel, "nameFromTitle") {
			c.Args = []string{"--struct-name-from-title"}
		}
		if strings.Contains(rel, "extraImports") || strings.Contains(rel, "yaml") {
			c.Args = []string{"--extra-imports"}
		}
		out = append(out, c)
	}
	return out
}

// formatCase: one format-typed string at every kind of position, one document per canonical sample text (incl. the
// ends of the representable range: year 0001 / 0999 / 9999, nanoseconds, +14:00 and -12:00 offsets, leap day).
func formatCase(i int) *sem.Case {
	formats := []string{"date", "time", "date-time", "ipv4", "ipv6"}
	f := formats[i%len(formats)]
	fs := func() *sg.Schema { return &sg.Schema{Types: []string{"string"}, Format: f} }
	def := fs()
	root := &sg.Schema{Types: []string{"object"}, Defs: []sg.Prop{{Name: "Stamp", S: def}}, Props: []sg.Prop{
		{Name: "req", S: fs()}, {Name: "opt", S: fs()}, {Name: "nul", S: &sg.Schema{Types: []string{"string", "null"}, Format: f}},
		{Name: "list", S: &sg.Schema{Types: []string{"array"}, Items: fs()}},
		{Name: "reqnul", S: &sg.Schema{Types: []string{"null", "string"}, Format: f}},
		{Name: "nullist", S: &sg.Schema{Types: []string{"array"}, Items: &sg.Schema{Types: []string{"string", "null"}, Format: f}}},
		{Name: "nested", S: &sg.Schema{Types: []string{"object"}, Props: []sg.Prop{{Name: "at", S: fs()}}, Required: []string{"at"}}},
		{Name: "viaRef", S: &sg.Schema{Ref: "#/$defs/Stamp", Target: def}},
	}, Required: []string{"req", "reqnul"}}
	c := &sem.Case{Root: root, Sig: "format/" + f}
	if (i/len(formats))%2 == 1 {
		c.Args = []string{"--extra-imports"}
	}
	samples := docgen.FormatSamples[f]
	for k, sv := range samples {
		other := samples[(k+1)%len(samples)]
		c.Docs = append(c.Docs,
			docgen.Doc{V: jsonx.Obj{{K: "req", V: sv}, {K: "reqnul", V: other}}, Class: "format", Label: "required-only"},
			docgen.Doc{V: jsonx.Obj{{K: "req", V: sv}, {K: "reqnul", V: sv}, {K: "opt", V: other}, {K: "nul", V: sv}, {K: "list", V: []any{sv, other}}, {K: "nullist", V: []any{other, sv}}, {K: "nested", V: jsonx.Obj{{K: "at", V: sv}}}, {K: "viaRef", V: other}}, Class: "format", Label: "everywhere"},
			docgen.Doc{V: jsonx.Obj{{K: "req", V: other}, {K: "reqnul", V: nil}, {K: "nul", V: nil}, {K: "list", V: []any{}}, {K: "nullist", V: []any{sv, nil, other}}}, Class: "format", Label: "null-and-empty"})
	}
	return c
}

// defaultLiteralCensus (C09, last sentence of the statement): a program that does not type-check because of a default
// literal ("cannot use ... in assignment", composite literal problems) is a violation unless the schema carries a
// default the recorded finding default-ill-typed speaks about.
var reDefaultLiteral = regexp.MustCompile(`cannot use .* (as .* value )?in assignment|cannot use .* as .* value in (struct|slice|array|map) literal|invalid composite literal|missing type in composite literal|duplicate field name .* in struct literal|unknown field .* in struct literal`)

func defaultLiteralCensus(ctx *Ctx) (func(cases []*sem.Case), func(o *Outcome)) {
	checked, explained := 0, 0
	var viols []Viol
	each := func(cases []*sem.Case) {
		for _, c := range cases {
			p := sem.ProgramOf(c)
			if p == nil || p.Report == nil || p.Proc.Exit != 0 {
				continue
			}
			hasDefault := anyNode(c.Root, func(x *sg.Schema) bool { return x.HasDefault })
			if !hasDefault {
				continue
			}
			checked++
			if p.Report.OK() {
				continue
			}
			diag := p.Report.Summary()
			if !reDefaultLiteral.MatchString(diag) {
				continue
			}
			if ctx.Known.Has("default-ill-typed") && anyNode(c.Root, illTypedDefault) {
				explained++
				continue
			}
			if len(viols) < 5 {
				b, _ := json.MarshalIndent(map[string]any{"property": "C09", "kind": "default literal census", "diagnostic": diag, "schema": json.RawMessage(jsonx.Marshal(c.Root.ToJSON())), "args": c.Args, "emitted": string(p.Src)}, "", " ")
				path := filepath.Join(evid.ReplayDir(), fmt.Sprintf("C09-census-%d.json", len(viols)))
				_ = os.WriteFile(path, b, 0o644)
				viols = append(viols, Viol{Replay: path, Summary: fmt.Sprintf("default literal census: the emitted default literal does not have the Go type of its field: %s\n schema=%s", trunc(diag, 300), trunc(string(jsonx.Marshal(c.Root.ToJSON())), 500))})
			}
		}
	}
	finish := func(o *Outcome) {
		o.Coverage["programs_with_defaults_type_checked"] = checked
		o.Coverage["default_literal_failures_explained_by_recorded_finding"] = explained
		o.Violations = append(o.Violations, viols...)
	}
	return each, finish
}

// refDefaultCase: a default stated next to a reference to a named scalar / enum / scalar-array definition: absent and
// null take the default (a literal of the named type), a present value is kept.
func refDefaultCase(i int) *sem.Case {
	str := &sg.Schema{Types: []string{"string"}}
	defs := []struct {
		name        string
		s           *sg.Schema
		def, other  any
		validZeroOK bool
	}{
		{"Tags", &sg.Schema{Types: []string{"array"}, Items: str}, []any{"a", "b"}, []any{"z"}, true},
		{"Ports", &sg.Schema{Types: []string{"array"}, Items: &sg.Schema{Types: []string{"integer"}}}, []any{jsonx.N(80), jsonx.N(443)}, []any{jsonx.N(1)}, true},
		{"Ratios", &sg.Schema{Types: []string{"array"}, Items: &sg.Schema{Types: []string{"number"}}, MaxItems: 3}, []any{jsonx.Num("0.5"), jsonx.N(2)}, []any{}, true},
		{"Flags", &sg.Schema{Types: []string{"array"}, Items: &sg.Schema{Types: []string{"boolean"}}}, []any{true, false}, []any{false}, true},
		{"Name", &sg.Schema{Types: []string{"string"}, MinLen: 2}, "anon", "bob", false},
		{"Plain", &sg.Schema{Types: []string{"string"}}, "p", "q", true},
		{"Level", &sg.Schema{Types: []string{"integer"}, Min: sg.Fp(1)}, jsonx.N(3), jsonx.N(7), false},
		{"Count", &sg.Schema{Types: []string{"integer"}}, jsonx.N(5), jsonx.N(0), true},
		{"Color", &sg.Schema{Types: []string{"string"}, HasEnum: true, Enum: []any{"red", "green"}}, "red", "green", false},
	}
	root := &sg.Schema{Types: []string{"object"}}
	all := jsonx.Obj{}
	for k, d := range defs {
		if (i>>uint(k%4))&1 == 1 && i%3 != 0 {
			continue // subsets, so that each definition also occurs on its own
		}
		root.Defs = append(root.Defs, sg.Prop{Name: d.name, S: d.s})
		key := strings.ToLower(d.name)
		root.Props = append(root.Props, sg.Prop{Name: key, S: &sg.Schema{Ref: "#/$defs/" + d.name, Target: d.s, Default: d.def, HasDefault: true}})
		all = append(all, jsonx.KV{K: key, V: d.other})
	}
	// the declared draft does not change what a default next to a reference means to the generator
	root.Version = []string{"", "http://json-schema.org/draft-07/schema#", "http://json-schema.org/draft-04/schema#", "https://json-schema.org/draft/2020-12/schema", "http://json-schema.org/draft-06/schema#"}[(i/2)%5]
	c := &sem.Case{Root: root, Sig: fmt.Sprintf("ref-default/%d", i%16)}
	if i%2 == 1 {
		c.Args = []string{"--extra-imports"}
	}
	c.Docs = append(c.Docs, docgen.Doc{V: jsonx.Obj{}, Class: "default", Label: "all-absent"}, docgen.Doc{V: all, Class: "default", Label: "all-present"})
	for _, kv := range all {
		c.Docs = append(c.Docs, docgen.Doc{V: jsonx.Obj{{K: kv.K, V: nil}}, Class: "default", Label: "null-" + kv.K}, docgen.Doc{V: all.Del(kv.K), Class: "default", Label: "absent-" + kv.K}, docgen.Doc{V: jsonx.Obj{{K: kv.K, V: kv.V}}, Class: "default", Label: "only-" + kv.K})
	}
	return c
}

// identifierCollisionCase: an explicit goJSONSchema identifier that equals the name derived for a sibling, with the
// sibling sorting before or after it (and both at once): distinct fields, every key bound to its own field.
func identifierCollisionCase(i int) *sem.Case {
	pairs := []struct{ plain, withID, ident string }{
		{"userID", "user_id", "UserID"}, // the derived sibling sorts first
		{"user_ID", "userId", "UserID"}, // the explicit one sorts first
		{"name", "zzz", "Name"},
		{"aaa", "Aaa2", "Aaa"},
	}
	p := pairs[i%len(pairs)]
	str := func() *sg.Schema { return &sg.Schema{Types: []string{"string"}, MinLen: 1} }
	with := str()
	with.Ext = jsonx.Obj{{K: "identifier", V: p.ident}}
	obj := &sg.Schema{Types: []string{"object"}, Props: []sg.Prop{{Name: p.plain, S: str()}, {Name: p.withID, S: with}, {Name: "other", S: &sg.Schema{Types: []string{"integer"}}}}}
	if (i/4)%2 == 1 {
		obj.Required = []string{p.plain, p.withID}
	}
	if (i/8)%2 == 1 {
		// a third property that also wants the identifier
		w2 := str()
		w2.Ext = jsonx.Obj{{K: "identifier", V: p.ident}}
		obj.Props = append(obj.Props, sg.Prop{Name: "m_" + p.withID, S: w2})
	}
	root := &sg.Schema{Types: []string{"object"}, Props: []sg.Prop{{Name: "rec", S: obj}}}
	c := &sem.Case{Root: root, Sig: fmt.Sprintf("identifier-collision/%d", i%16)}
	full := jsonx.Obj{}
	for k, pr := range obj.Props {
		if pr.Name == "other" {
			full = append(full, jsonx.KV{K: "other", V: jsonx.N(7)})
		} else {
			full = append(full, jsonx.KV{K: pr.Name, V: fmt.Sprintf("value-%d", k)})
		}
	}
	c.Docs = append(c.Docs, docgen.Doc{V: jsonx.Obj{{K: "rec", V: full}}, Class: "collision", Label: "all-keys"})
	for _, kv := range full {
		c.Docs = append(c.Docs, docgen.Doc{V: jsonx.Obj{{K: "rec", V: jsonx.Obj{kv}}}, Class: "collision", Label: "only-" + kv.K}, docgen.Doc{V: jsonx.Obj{{K: "rec", V: full.Del(kv.K)}}, Class: "collision", Label: "without-" + kv.K})
	}
	return c
}

// fractionalMultipleCase: integer positions whose multipleOf is not a whole number (1.5, 2.5): whatever the generator
// makes of the factor, the position stays an integer position - a non-integral number is a type fault.
func fractionalMultipleCase(i int) *sem.Case {
	f := []float64{2.5, 1.5, 7.5, 10.5}[i%4]
	root := &sg.Schema{Types: []string{"object"}, Props: []sg.Prop{
		{Name: "plain", S: &sg.Schema{Types: []string{"integer"}}},
		{Name: "step", S: &sg.Schema{Types: []string{"integer"}, MultipleOf: sg.Fp(f)}},
		{Name: "maybe", S: &sg.Schema{Types: []string{"integer", "null"}, MultipleOf: sg.Fp(f)}},
		{Name: "nullfirst", S: &sg.Schema{Types: []string{"null", "integer"}, MultipleOf: sg.Fp(f), Min: sg.Fp(0)}},
		{Name: "steps", S: &sg.Schema{Types: []string{"array"}, Items: &sg.Schema{Types: []string{"integer"}, MultipleOf: sg.Fp(f)}}},
		{Name: "bounded", S: &sg.Schema{Types: []string{"integer"}, MultipleOf: sg.Fp(f), Min: sg.Fp(0), Max: sg.Fp(1000)}},
	}}
	if (i/4)%2 == 1 {
		root.Required = []string{"step", "bounded"}
	}
	c := &sem.Case{Root: root, Sig: fmt.Sprintf("fractional-multiple/%v", f), NoAuto: true}
	if (i/8)%2 == 1 {
		c.Args = []string{"--min-sized-ints"}
	}
	base := jsonx.Obj{}
	if len(root.Required) > 0 {
		// a value that is a multiple of the factor and of its truncation: accepted whichever the generated check uses
		ok := jsonx.N(int64(f * 2 * float64(int64(f))))
		base = jsonx.Obj{{K: "step", V: ok}, {K: "bounded", V: ok}}
	}
	for _, key := range []string{"plain", "step", "maybe", "nullfirst", "bounded"} {
		for _, w := range []any{jsonx.Num(fmt.Sprintf("%v", f)), jsonx.Num(fmt.Sprintf("%v", f*3)), jsonx.Num("0.5"), "10", true, []any{}, jsonx.Obj{}} {
			c.Docs = append(c.Docs, docgen.Doc{V: base.Set(key, w), Class: "typefault", Label: key})
		}
	}
	for _, w := range []any{jsonx.Num(fmt.Sprintf("%v", f)), "10", jsonx.Num("0.5")} {
		c.Docs = append(c.Docs, docgen.Doc{V: base.Set("steps", []any{w}), Class: "typefault", Label: "steps"})
	}
	c.Docs = append(c.Docs, docgen.Doc{V: base.Set("maybe", nil), Class: "typefault", Label: "maybe-null"}, docgen.Doc{V: base.Set("nullfirst", nil), Class: "typefault", Label: "nullfirst-null"},
		docgen.Doc{V: base, Class: "typefault", Label: "base"})
	return c
}

// percentNameCase: property names with characters that are special inside a format string or a Go string literal
// but harmless in a struct tag ("usage%", "100%d", "a%sb"): required, with rules, through both decoding paths.
func percentNameCase(i int) *sem.Case {
	names := [][]string{{"usage%", "plain"}, {"100%d", "a%sb", "%v"}, {"rate%%", "x%!y"}, {"q%[1]d", "tab%t"}}[i%4]
	obj := &sg.Schema{Types: []string{"object"}}
	full := jsonx.Obj{}
	for k, n := range names {
		obj.Props = append(obj.Props, sg.Prop{Name: n, S: &sg.Schema{Types: []string{"integer"}, Min: sg.Fp(0), Max: sg.Fp(100)}})
		full = append(full, jsonx.KV{K: n, V: jsonx.N(int64(10 + k))})
	}
	obj.Required = append([]string{}, names...)
	if (i/4)%2 == 1 {
		obj.Required = names[:1]
	}
	root := &sg.Schema{Types: []string{"object"}, Props: []sg.Prop{{Name: "sample", S: obj}}, Required: []string{"sample"}}
	c := &sem.Case{Root: root, Sig: fmt.Sprintf("percent-name/%d", i%8), NoAuto: true, Args: []string{"--extra-imports"}}
	c.Docs = append(c.Docs, docgen.Doc{V: jsonx.Obj{{K: "sample", V: full}}, Class: "valid", Label: "valid"})
	for _, kv := range full {
		c.Docs = append(c.Docs, docgen.Doc{V: jsonx.Obj{{K: "sample", V: full.Del(kv.K)}}, Class: "required", Label: "without-" + kv.K},
			docgen.Doc{V: jsonx.Obj{{K: "sample", V: full.Set(kv.K, jsonx.N(101))}}, Class: "bound", Label: "maximum-" + kv.K})
	}
	return c
}

// dashNameCase: a property named "-" (which struct tags read as "skip this field" - recorded finding
// name-breaks-tag, so the verdict against the model is that finding); JSON and YAML must still treat it alike.
func dashNameCase(i int) *sem.Case {
	obj := &sg.Schema{Types: []string{"object"}, Props: []sg.Prop{
		{Name: "file", S: &sg.Schema{Types: []string{"string"}, MinLen: 1}},
		{Name: "+", S: &sg.Schema{Types: []string{"integer"}, Min: sg.Fp(0)}},
		{Name: "-", S: &sg.Schema{Types: []string{"integer"}, Min: sg.Fp(0)}},
	}, Required: []string{"file"}}
	switch i % 3 {
	case 0:
		obj.Required = []string{"file", "+", "-"}
	case 1:
		obj.Required = []string{"file", "-"}
	}
	root := obj
	if (i/3)%2 == 1 {
		root = &sg.Schema{Types: []string{"object"}, Props: []sg.Prop{{Name: "stat", S: obj}}}
	}
	wrap := func(o jsonx.Obj) any {
		if root != obj {
			return jsonx.Obj{{K: "stat", V: o}}
		}
		return o
	}
	c := &sem.Case{Root: root, Sig: fmt.Sprintf("dash-name/%d", i%6), NoAuto: true, Witness: "name-breaks-tag", Args: []string{"--extra-imports"}}
	full := jsonx.Obj{{K: "file", V: "a.go"}, {K: "+", V: jsonx.N(3)}, {K: "-", V: jsonx.N(1)}}
	c.Docs = append(c.Docs, docgen.Doc{V: wrap(full), Class: "pinned", Label: "valid"}, docgen.Doc{V: wrap(full.Set("-", jsonx.N(-5))), Class: "pinned", Label: "minimum-on-dash"},
		docgen.Doc{V: wrap(full.Del("-")), Class: "pinned", Label: "dash-missing"}, docgen.Doc{V: wrap(full.Del("+")), Class: "pinned", Label: "plus-missing"}, docgen.Doc{V: wrap(full.Set("-", "x")), Class: "pinned", Label: "dash-wrong-type"})
	return c
}

// HostileDefaultStrings are default texts that are awkward to write as a Go literal.
var HostileDefaultStrings = []string{"HTTP/1.1 200 OK\r\nServer: x\r\n\r\n", "cr\ronly", "lf\nonly", "tab\there", "q\"uote", "back\\slash", "tick`s", "both`\r\n", "100% %d %s", "nul-free\u0001ctl", " sep", "emoji😀", "  lead and trail  ", "", "'single'", "${var} $(cmd)", "// comment", "/* block */", "\\n not a newline", strings.Repeat("long ", 60)}

// stringDefaultCase: one optional string property per hostile default text (plain, inside an array default, behind a
// named string definition): absent and null decode to exactly that text.
func stringDefaultCase(i int) *sem.Case {
	root := &sg.Schema{Types: []string{"object"}}
	named := &sg.Schema{Types: []string{"string"}}
	root.Defs = []sg.Prop{{Name: "Text", S: named}}
	all := jsonx.Obj{}
	lo := (i % 4) * 5
	for k, d := range HostileDefaultStrings[lo : lo+5] {
		key := fmt.Sprintf("s%d", lo+k)
		switch (i / 4) % 3 {
		case 0:
			root.Props = append(root.Props, sg.Prop{Name: key, S: &sg.Schema{Types: []string{"string"}, Default: d, HasDefault: true}})
			all = append(all, jsonx.KV{K: key, V: "present"})
		case 1:
			root.Props = append(root.Props, sg.Prop{Name: key, S: &sg.Schema{Types: []string{"array"}, Items: &sg.Schema{Types: []string{"string"}}, Default: []any{d, "plain"}, HasDefault: true}})
			all = append(all, jsonx.KV{K: key, V: []any{"present"}})
		case 2:
			root.Props = append(root.Props, sg.Prop{Name: key, S: &sg.Schema{Ref: "#/$defs/Text", Target: named, Default: d, HasDefault: true}})
			all = append(all, jsonx.KV{K: key, V: "present"})
		}
	}
	c := &sem.Case{Root: root, Sig: fmt.Sprintf("string-default/%d", i%12), NoAuto: true}
	if (i/12)%2 == 1 {
		c.Args = []string{"--extra-imports"}
	}
	c.Docs = append(c.Docs, docgen.Doc{V: jsonx.Obj{}, Class: "default", Label: "all-absent"}, docgen.Doc{V: all, Class: "default", Label: "all-present"})
	for _, kv := range all {
		c.Docs = append(c.Docs, docgen.Doc{V: jsonx.Obj{{K: kv.K, V: nil}}, Class: "default", Label: "null-" + kv.K}, docgen.Doc{V: all.Del(kv.K), Class: "default", Label: "absent-" + kv.K})
	}
	return c
}

// stringOverlapCase: one string property declared by two allOf branches, the length limits in the earlier branch and
// another rule (pattern, or nothing) in the later one - and the other way round: every stated limit keeps counting.
func stringOverlapCase(i int) *sem.Case {
	lim := func() *sg.Schema { return &sg.Schema{Types: []string{"string"}, MinLen: 3, MaxLen: 8} }
	other := func() *sg.Schema {
		switch (i / 2) % 3 {
		case 0:
			return &sg.Schema{Types: []string{"string"}, Pattern: "^[a-z]+$"}
		case 1:
			return &sg.Schema{Types: []string{"string"}}
		}
		return &sg.Schema{Types: []string{"string"}, MinLen: 1}
	}
	first, second := lim(), other()
	if i%2 == 1 {
		first, second = other(), lim()
	}
	comp := &sg.Schema{AllOf: []*sg.Schema{
		{Types: []string{"object"}, Props: []sg.Prop{{Name: "login", S: first}, {Name: "a", S: &sg.Schema{Types: []string{"string"}, MaxLen: 4}}}},
		{Types: []string{"object"}, Props: []sg.Prop{{Name: "login", S: second}, {Name: "b", S: &sg.Schema{Types: []string{"string"}, MinLen: 2}}}},
	}}
	root := &sg.Schema{Types: []string{"object"}, Props: []sg.Prop{{Name: "acct", S: comp}}}
	if (i/6)%2 == 1 {
		comp.Types = []string{"object"}
		root = comp
	}
	c := &sem.Case{Root: root, Sig: fmt.Sprintf("string-overlap/%d", i%12), NoAuto: true}
	for _, login := range []string{"ab", "abc", "abcdefgh", "abcdefghi", "abcdefghijklmnop", "", "日本語", "日本語日本語日本語"} {
		o := jsonx.Obj{{K: "login", V: login}, {K: "a", V: "abcd"}, {K: "b", V: "ab"}}
		var d any = jsonx.Obj{{K: "acct", V: o}}
		if root == comp {
			d = o
		}
		c.Docs = append(c.Docs, docgen.Doc{V: d, Class: "overlap", Label: fmt.Sprintf("login-len-%d", len([]rune(login)))})
	}
	return c
}

// suffixLookalikeCase: sibling names that look like the suffixed names the generator hands out for duplicates
// (Status / status / Status_2, UnmarshalJSON / UnmarshalJSON_2, A / a / A_2 / A_3): distinct fields, own bindings.
func suffixLookalikeCase(i int) *sem.Case {
	sets := [][]string{{"Status", "status", "Status_2"}, {"UnmarshalJSON", "UnmarshalJSON_2"}, {"A", "a", "A_2", "A_3"}, {"Item_2", "item", "Item", "ITEM"}, {"AdditionalProperties_2", "additionalProperties", "x"}, {"Name_1", "Name", "name", "Name_2"}}
	names := sets[i%len(sets)]
	obj := &sg.Schema{Types: []string{"object"}}
	full := jsonx.Obj{}
	for k, n := range names {
		obj.Props = append(obj.Props, sg.Prop{Name: n, S: &sg.Schema{Types: []string{"string"}, MinLen: 1}})
		full = append(full, jsonx.KV{K: n, V: fmt.Sprintf("value-%d", k)})
	}
	if (i/len(sets))%2 == 1 {
		obj.AddProps = &sg.Schema{Types: []string{"integer"}}
	}
	root := &sg.Schema{Types: []string{"object"}, Props: []sg.Prop{{Name: "rec", S: obj}}}
	if (i/(2*len(sets)))%2 == 1 {
		// as definitions: type names instead of field names
		root = &sg.Schema{Types: []string{"object"}}
		full = jsonx.Obj{}
		for k, n := range names {
			d := &sg.Schema{Types: []string{"object"}, Props: []sg.Prop{{Name: fmt.Sprintf("f%d", k), S: &sg.Schema{Types: []string{"string"}}}}, Required: []string{fmt.Sprintf("f%d", k)}}
			root.Defs = append(root.Defs, sg.Prop{Name: n, S: d})
			root.Props = append(root.Props, sg.Prop{Name: fmt.Sprintf("p%d", k), S: &sg.Schema{Ref: "#/$defs/" + n, Target: d}})
			full = append(full, jsonx.KV{K: fmt.Sprintf("p%d", k), V: jsonx.Obj{{K: fmt.Sprintf("f%d", k), V: "v"}}})
		}
		c := &sem.Case{Root: root, Sig: fmt.Sprintf("suffix-lookalike/defs/%d", i%len(sets)), NoAuto: true}
		c.Docs = append(c.Docs, docgen.Doc{V: full, Class: "collision", Label: "all"})
		for k, kv := range full {
			other := full[(k+1)%len(full)].V
			c.Docs = append(c.Docs, docgen.Doc{V: jsonx.Obj{kv}, Class: "collision", Label: "own"}, docgen.Doc{V: jsonx.Obj{{K: kv.K, V: other}}, Class: "collision", Label: "other-schema"})
		}
		return c
	}
	c := &sem.Case{Root: root, Sig: fmt.Sprintf("suffix-lookalike/%d", i%(2*len(sets))), NoAuto: true}
	c.Docs = append(c.Docs, docgen.Doc{V: jsonx.Obj{{K: "rec", V: full}}, Class: "collision", Label: "all-keys"})
	for _, kv := range full {
		c.Docs = append(c.Docs, docgen.Doc{V: jsonx.Obj{{K: "rec", V: jsonx.Obj{kv}}}, Class: "collision", Label: "only-" + kv.K}, docgen.Doc{V: jsonx.Obj{{K: "rec", V: full.Del(kv.K)}}, Class: "collision", Label: "without-" + kv.K})
	}
	return c
}

// nullItemsCase: arrays whose items are of type null, with and without length limits, nested: a non-null element is
// a type fault whatever else the array says.
func nullItemsCase(i int) *sem.Case {
	nul := func() *sg.Schema { return &sg.Schema{Types: []string{"null"}} }
	root := &sg.Schema{Types: []string{"object"}, Props: []sg.Prop{
		{Name: "plain", S: &sg.Schema{Types: []string{"array"}, Items: nul()}},
		{Name: "reserved", S: &sg.Schema{Types: []string{"array"}, Items: nul(), MaxItems: 3}},
		{Name: "atleast", S: &sg.Schema{Types: []string{"array"}, Items: nul(), MinItems: 1}},
		{Name: "grid", S: &sg.Schema{Types: []string{"array"}, MinItems: 1, Items: &sg.Schema{Types: []string{"array"}, Items: nul()}}},
	}}
	if i%2 == 1 {
		root.Required = []string{"reserved"}
	}
	c := &sem.Case{Root: root, Sig: fmt.Sprintf("null-items/%d", i%2), NoAuto: true}
	if (i/2)%2 == 1 {
		c.Args = []string{"--extra-imports"}
	}
	base := jsonx.Obj{}
	if i%2 == 1 {
		base = jsonx.Obj{{K: "reserved", V: []any{nil}}}
	}
	for _, key := range []string{"plain", "reserved", "atleast"} {
		for _, arr := range [][]any{{nil}, {nil, nil}, {jsonx.N(1)}, {"x", nil}, {jsonx.Obj{{K: "a", V: true}}}, {false}, {[]any{}}} {
			c.Docs = append(c.Docs, docgen.Doc{V: base.Set(key, arr), Class: "typefault", Label: key})
		}
	}
	for _, g := range [][]any{{[]any{nil}}, {[]any{false}}, {[]any{nil, []any{jsonx.N(1)}}}, {[]any{}, []any{nil, nil}}, {[]any{"s"}}} {
		c.Docs = append(c.Docs, docgen.Doc{V: base.Set("grid", g), Class: "typefault", Label: "grid"})
	}
	return c
}

// LenientFormatTexts are texts next to the canonical forms: whether a decoder takes them is not asserted (the model
// says DontCare), but it must not panic on them, and the JSON and the YAML path must agree.
var LenientFormatTexts = map[string][]string{
	"time":      {"", "Z", "09:30:00.500", "09:30:00Z", "09:30:00+02:00", "24:00:00", "9:30:00", "09:30", "09:30:60", " 09:30:00", "09:30:00 ", "７:00:00"},
	"date":      {"", "2024-2-3", "2024-02-30", "24-02-03", "2024/02/03", "2024-02-03T00:00:00Z", " 2024-02-03", "0000-01-01", "+2024-02-03", "２０２４-02-03"},
	"date-time": {"", "2024-02-03", "2024-02-03T10:00:00", "2024-02-03t10:00:00z", "2024-02-03 10:00:00Z", "2024-02-03T10:00:00+2", "2024-02-03T24:00:00Z", "2024-02-03T10:00:00.Z", "2024-02-03T10:00:60Z"},
	"ipv4":      {"", "1.2.3", "1.2.3.4.5", "256.1.1.1", "01.02.03.004", "1.2.3.4/24", " 1.2.3.4", "::1", "1.2.3.4%eth0"},
	"ipv6":      {"", "1.2.3.4", "::ffff:1.2.3.4", "fe80::1%eth0", "2001:DB8::1", "0:0:0:0:0:0:0:1", "[::1]", ":::", "2001:db8::1/64"},
}

// lenientFormatCase: one format at required / optional / nullable / array-item positions; one document per text.
func lenientFormatCase(i int) *sem.Case {
	formats := []string{"time", "date", "date-time", "ipv4", "ipv6"}
	f := formats[i%len(formats)]
	fs := func() *sg.Schema { return &sg.Schema{Types: []string{"string"}, Format: f} }
	root := &sg.Schema{Types: []string{"object"}, Props: []sg.Prop{{Name: "req", S: fs()}, {Name: "opt", S: fs()}, {Name: "nul", S: &sg.Schema{Types: []string{"string", "null"}, Format: f}}, {Name: "list", S: &sg.Schema{Types: []string{"array"}, Items: fs()}}}, Required: []string{"req"}}
	c := &sem.Case{Root: root, Sig: "lenient-format/" + f, NoAuto: true, Args: []string{"--extra-imports"}}
	good := docgen.FormatSamples[f][0]
	for _, txt := range LenientFormatTexts[f] {
		c.Docs = append(c.Docs, docgen.Doc{V: jsonx.Obj{{K: "req", V: txt}}, Class: "formatparity", Label: "req"}, docgen.Doc{V: jsonx.Obj{{K: "req", V: good}, {K: "opt", V: txt}}, Class: "formatparity", Label: "opt"},
			docgen.Doc{V: jsonx.Obj{{K: "req", V: good}, {K: "nul", V: txt}}, Class: "formatparity", Label: "nul"}, docgen.Doc{V: jsonx.Obj{{K: "req", V: good}, {K: "list", V: []any{good, txt}}}, Class: "formatparity", Label: "list"})
	}
	return c
}

// bothDefsKeywordsCase: a document in migration that carries "$defs" and, as well, an older "definitions" block with
// the same names but other content: a reference "#/$defs/X" means the "$defs" entry.
func bothDefsKeywordsCase(i int) *sem.Case {
	kinds := []struct {
		cur   *sg.Schema
		old   any
		in    []any
		notIn []any
	}{
		{&sg.Schema{Types: []string{"string"}, HasEnum: true, Enum: []any{"open", "in_progress", "closed"}}, jsonx.Obj{{K: "type", V: "string"}, {K: "enum", V: []any{"open", "closed", "archived"}}}, []any{"open", "in_progress", "closed"}, []any{"archived", "x"}},
		{&sg.Schema{Types: []string{"integer"}, HasEnum: true, Enum: []any{jsonx.N(1), jsonx.N(2), jsonx.N(3)}}, jsonx.Obj{{K: "type", V: "integer"}, {K: "enum", V: []any{jsonx.N(1), jsonx.N(4)}}}, []any{jsonx.N(1), jsonx.N(2), jsonx.N(3)}, []any{jsonx.N(4), jsonx.N(0)}},
		{&sg.Schema{HasEnum: true, Enum: []any{"a", jsonx.N(1), nil}}, jsonx.Obj{{K: "enum", V: []any{"b", jsonx.N(2)}}}, []any{"a", jsonx.N(1)}, []any{"b", jsonx.N(2)}},
		{&sg.Schema{Types: []string{"string"}, MaxLen: 3}, jsonx.Obj{{K: "type", V: "string"}, {K: "minLength", V: jsonx.N(5)}}, []any{"ab", "abc"}, []any{"abcdef"}},
	}
	k := kinds[i%len(kinds)]
	root := &sg.Schema{Types: []string{"object"}, Defs: []sg.Prop{{Name: "Status", S: k.cur}}, Props: []sg.Prop{
		{Name: "status", S: &sg.Schema{Ref: "#/$defs/Status", Target: k.cur}},
		{Name: "history", S: &sg.Schema{Types: []string{"array"}, Items: &sg.Schema{Ref: "#/$defs/Status", Target: k.cur}}},
	}}
	root.Extra = append(root.Extra, jsonx.KV{K: "definitions", V: jsonx.Obj{{K: "Status", V: k.old}, {K: "Unused", V: jsonx.Obj{{K: "type", V: "boolean"}}}}})
	if (i/len(kinds))%2 == 1 {
		root.Required = []string{"status"}
	}
	c := &sem.Case{Root: root, Sig: fmt.Sprintf("both-defs-keywords/%d", i%(2*len(kinds))), NoAuto: true}
	first := k.in[0]
	for _, v := range k.in {
		c.Docs = append(c.Docs, docgen.Doc{V: jsonx.Obj{{K: "status", V: v}}, Class: "enumref", Label: "member"}, docgen.Doc{V: jsonx.Obj{{K: "status", V: first}, {K: "history", V: []any{first, v}}}, Class: "enumref", Label: "member-item"})
	}
	for _, v := range k.notIn {
		c.Docs = append(c.Docs, docgen.Doc{V: jsonx.Obj{{K: "status", V: v}}, Class: "enumref", Label: "non-member"}, docgen.Doc{V: jsonx.Obj{{K: "status", V: first}, {K: "history", V: []any{v}}}, Class: "enumref", Label: "non-member-item"})
	}
	return c
}

// sharedBranchAnyOfCase: one definition referred to from two separate anyOf lists of one schema (first, last or only
// member; the lists generated in either order): each list keeps enforcing its own branches.
func sharedBranchAnyOfCase(i int) *sem.Case {
	addr := &sg.Schema{Types: []string{"object"}, Props: []sg.Prop{{Name: "street", S: &sg.Schema{Types: []string{"string"}}}, {Name: "city", S: &sg.Schema{Types: []string{"string"}}}}, Required: []string{"street"}}
	lock := &sg.Schema{Types: []string{"object"}, Props: []sg.Prop{{Name: "lockerId", S: &sg.Schema{Types: []string{"string"}}}}, Required: []string{"lockerId"}}
	ra := func() *sg.Schema { return &sg.Schema{Ref: "#/$defs/Address", Target: addr} }
	rl := func() *sg.Schema { return &sg.Schema{Ref: "#/$defs/Locker", Target: lock} }
	lists := [][2][]*sg.Schema{
		{{ra(), rl()}, {ra()}}, {{rl(), ra()}, {ra()}}, {{ra(), rl()}, {rl()}}, {{ra(), rl()}, {ra(), rl()}}, {{ra(), rl()}, {rl(), ra()}}, {{ra()}, {ra(), rl()}},
	}[i%6]
	n1, n2 := "dropoff", "pickup"
	if (i/6)%2 == 1 {
		n1, n2 = "pickup", "dropoff"
	}
	root := &sg.Schema{Types: []string{"object"}, Defs: []sg.Prop{{Name: "Address", S: addr}, {Name: "Locker", S: lock}},
		Props: []sg.Prop{{Name: n1, S: &sg.Schema{AnyOf: lists[0]}}, {Name: n2, S: &sg.Schema{AnyOf: lists[1]}}}}
	if (i/12)%2 == 1 {
		root.Required = []string{n1, n2}
	}
	c := &sem.Case{Root: root, Sig: fmt.Sprintf("shared-branch-anyof/%d", i%12), NoAuto: true}
	okFor := func(l []*sg.Schema) jsonx.Obj {
		if l[0].Target == addr {
			return jsonx.Obj{{K: "street", V: "Main St 1"}}
		}
		return jsonx.Obj{{K: "lockerId", V: "L-1"}}
	}
	for _, v := range []jsonx.Obj{{{K: "street", V: "s"}}, {{K: "lockerId", V: "L"}}, {{K: "city", V: "Oslo"}}, {}, {{K: "street", V: "s"}, {K: "lockerId", V: "L"}}} {
		c.Docs = append(c.Docs, docgen.Doc{V: jsonx.Obj{{K: n1, V: v}, {K: n2, V: okFor(lists[1])}}, Class: "sharedbranch", Label: n1}, docgen.Doc{V: jsonx.Obj{{K: n1, V: okFor(lists[0])}, {K: n2, V: v}}, Class: "sharedbranch", Label: n2})
	}
	return c
}

// untypedDefaultCase: properties without a type keyword (Go: interface{}) that carry a scalar default, the zero
// values included: absent and null decode to the default, not to nil.
func untypedDefaultCase(i int) *sem.Case {
	defs := []any{false, jsonx.N(0), "", true, jsonx.N(3), "x", jsonx.Num("1.5"), jsonx.Num("0.0")}
	root := &sg.Schema{Types: []string{"object"}}
	all := jsonx.Obj{}
	for k, d := range defs {
		if (k+i)%2 == 0 && i%3 != 0 {
			continue
		}
		key := fmt.Sprintf("u%d", k)
		root.Props = append(root.Props, sg.Prop{Name: key, S: &sg.Schema{Desc: "anything", Default: d, HasDefault: true}})
		all = append(all, jsonx.KV{K: key, V: "present"})
	}
	root.Props = append(root.Props, sg.Prop{Name: "typed", S: &sg.Schema{Types: []string{"boolean"}, Default: false, HasDefault: true}})
	c := &sem.Case{Root: root, Sig: fmt.Sprintf("untyped-default/%d", i%6), NoAuto: true}
	if i%2 == 1 {
		c.Args = []string{"--extra-imports"}
	}
	c.Docs = append(c.Docs, docgen.Doc{V: jsonx.Obj{}, Class: "default", Label: "all-absent"}, docgen.Doc{V: all, Class: "default", Label: "all-present"})
	for _, kv := range all {
		c.Docs = append(c.Docs, docgen.Doc{V: jsonx.Obj{{K: kv.K, V: nil}}, Class: "default", Label: "null-" + kv.K}, docgen.Doc{V: all.Del(kv.K), Class: "default", Label: "absent-" + kv.K})
	}
	return c
}

// anyOfOverlapCase: anyOf branches that declare one property with different rules (size >= 10 in one, size <= 20 in
// the other), inline first or $ref first: a document that satisfies exactly one branch is accepted.
func anyOfOverlapCase(i int) *sem.Case {
	b0 := &sg.Schema{Types: []string{"object"}, Props: []sg.Prop{{Name: "kind", S: &sg.Schema{Types: []string{"string"}}}, {Name: "size", S: &sg.Schema{Types: []string{"integer"}, Min: sg.Fp(10)}}}, Required: []string{"kind", "size"}}
	b1 := &sg.Schema{Types: []string{"object"}, Props: []sg.Prop{{Name: "label", S: &sg.Schema{Types: []string{"string"}}}, {Name: "size", S: &sg.Schema{Types: []string{"integer"}, Max: sg.Fp(20)}}}, Required: []string{"label", "size"}}
	root := &sg.Schema{Types: []string{"object"}}
	m0, m1 := b0, b1
	switch i % 4 {
	case 1:
		root.Defs = []sg.Prop{{Name: "B1", S: b1}}
		m1 = &sg.Schema{Ref: "#/$defs/B1", Target: b1}
	case 2:
		root.Defs = []sg.Prop{{Name: "B0", S: b0}}
		m0 = &sg.Schema{Ref: "#/$defs/B0", Target: b0}
	case 3:
		root.Defs = []sg.Prop{{Name: "B0", S: b0}, {Name: "B1", S: b1}}
		m0, m1 = &sg.Schema{Ref: "#/$defs/B0", Target: b0}, &sg.Schema{Ref: "#/$defs/B1", Target: b1}
	}
	members := []*sg.Schema{m0, m1}
	if (i/4)%2 == 1 {
		members = []*sg.Schema{m1, m0}
	}
	root.Props = []sg.Prop{{Name: "shape", S: &sg.Schema{AnyOf: members}}}
	c := &sem.Case{Root: root, Sig: fmt.Sprintf("anyof-overlap/%d", i%8), NoAuto: true}
	for _, d := range []jsonx.Obj{
		{{K: "kind", V: "a"}, {K: "size", V: jsonx.N(30)}}, {{K: "label", V: "b"}, {K: "size", V: jsonx.N(5)}}, {{K: "kind", V: "a"}, {K: "label", V: "b"}, {K: "size", V: jsonx.N(15)}},
		{{K: "kind", V: "a"}, {K: "size", V: jsonx.N(5)}}, {{K: "label", V: "b"}, {K: "size", V: jsonx.N(25)}}, {{K: "size", V: jsonx.N(15)}}, {{K: "kind", V: "a"}, {K: "size", V: jsonx.N(10)}}, {{K: "label", V: "b"}, {K: "size", V: jsonx.N(20)}},
	} {
		c.Docs = append(c.Docs, docgen.Doc{V: jsonx.Obj{{K: "shape", V: d}}, Class: "subset", Label: "anyof-overlap"})
	}
	return c
}

// patternPropsCase: typed additionalProperties next to declared properties and a patternProperties keyword (which
// the statements do not speak about): an undeclared key that matches no pattern is an additional property, and its
// value is type-checked as one.
func patternPropsCase(i int) *sem.Case {
	t := []string{"integer", "string", "boolean", "number"}[i%4]
	obj := &sg.Schema{Types: []string{"object"}, Props: []sg.Prop{{Name: "name", S: &sg.Schema{Types: []string{"string"}}}}, AddProps: &sg.Schema{Types: []string{t}}}
	obj.Extra = append(obj.Extra, jsonx.KV{K: "patternProperties", V: jsonx.Obj{{K: "^x-", V: jsonx.Obj{{K: "type", V: t}}}, {K: "^y-", V: jsonx.Obj{{K: "type", V: "object"}}}}})
	root := obj
	if (i/4)%2 == 1 {
		root = &sg.Schema{Types: []string{"object"}, Props: []sg.Prop{{Name: "inner", S: obj}}}
	}
	wrap := func(o jsonx.Obj) any {
		if root != obj {
			return jsonx.Obj{{K: "inner", V: o}}
		}
		return o
	}
	good := map[string]any{"integer": jsonx.N(5), "string": "s", "boolean": true, "number": jsonx.Num("2.5")}[t]
	c := &sem.Case{Root: root, Sig: fmt.Sprintf("pattern-props/%s/%d", t, (i/4)%2), NoAuto: true}
	c.Docs = append(c.Docs, docgen.Doc{V: wrap(jsonx.Obj{{K: "name", V: "n"}, {K: "count", V: good}}), Class: "typefault", Label: "good"})
	for _, w := range []any{"str", true, []any{jsonx.N(1)}, jsonx.Obj{{K: "a", V: jsonx.N(1)}}, jsonx.N(7)} {
		if jsonx.Kind(w) == jsonx.Kind(good) || (t == "number" && jsonx.Kind(w) == "number") {
			continue
		}
		c.Docs = append(c.Docs, docgen.Doc{V: wrap(jsonx.Obj{{K: "name", V: "n"}, {K: "count", V: w}}), Class: "typefault", Label: "additional-key-wrong-type"})
	}
	return c
}

// nullableBranchCase: anyOf / allOf whose members are nullable objects spelled ["object","null"] (or null first), as
// the items of a named array, of an inline array and as a property: elements are type-checked against the members.
func nullableBranchCase(i int) *sem.Case {
	tl := []string{"object", "null"}
	if i%2 == 1 {
		tl = []string{"null", "object"}
	}
	b0 := &sg.Schema{Types: tl, Props: []sg.Prop{{Name: "run", S: &sg.Schema{Types: []string{"string"}}}}, Required: []string{"run"}}
	b1 := &sg.Schema{Types: tl, Props: []sg.Prop{{Name: "uses", S: &sg.Schema{Types: []string{"string"}}}, {Name: "retries", S: &sg.Schema{Types: []string{"integer"}}}}, Required: []string{"uses"}}
	comp := &sg.Schema{AnyOf: []*sg.Schema{b0, b1}}
	root := &sg.Schema{Types: []string{"object"}}
	switch (i / 2) % 3 {
	case 0:
		steps := &sg.Schema{Types: []string{"array"}, Items: comp}
		root.Defs = []sg.Prop{{Name: "Steps", S: steps}}
		root.Props = []sg.Prop{{Name: "steps", S: &sg.Schema{Ref: "#/$defs/Steps", Target: steps}}}
	case 1:
		root.Props = []sg.Prop{{Name: "steps", S: &sg.Schema{Types: []string{"array"}, Items: comp}}}
	case 2:
		m := &sg.Schema{Types: []string{"object"}, AddProps: comp}
		root.Defs = []sg.Prop{{Name: "StepMap", S: m}}
		root.Props = []sg.Prop{{Name: "steps", S: &sg.Schema{Ref: "#/$defs/StepMap", Target: m}}}
	}
	c := &sem.Case{Root: root, Sig: fmt.Sprintf("nullable-branch/%d", i%6), NoAuto: true}
	wrap := func(el any) any {
		if (i/2)%3 == 2 {
			return jsonx.Obj{{K: "steps", V: jsonx.Obj{{K: "k", V: el}}}}
		}
		return jsonx.Obj{{K: "steps", V: []any{el}}}
	}
	for _, el := range []any{jsonx.Obj{{K: "run", V: "make"}}, jsonx.Obj{{K: "uses", V: "checkout"}, {K: "retries", V: jsonx.N(2)}}, jsonx.N(5), "make", true, []any{}, jsonx.Obj{{K: "run", V: jsonx.N(7)}},
		jsonx.Obj{{K: "uses", V: "checkout"}, {K: "retries", V: "twice"}}, jsonx.Obj{{K: "uses", V: "checkout"}, {K: "retries", V: jsonx.Num("1.5")}}, jsonx.Obj{}} {
		c.Docs = append(c.Docs, docgen.Doc{V: wrap(el), Class: "typefault", Label: "element"})
	}
	return c
}

// objectDefaultCase: an inline object property with an object default that names every key, among them keys that
// differ in letter case only (hostName / hostname): each default value lands in the field of its own key.
func objectDefaultCase(i int) *sem.Case {
	keys := [][]string{{"hostName", "hostname", "port"}, {"URL", "url", "n"}, {"userId", "userid", "user_id"}}[i%3]
	obj := &sg.Schema{Types: []string{"object"}}
	dv := jsonx.Obj{}
	other := jsonx.Obj{}
	for k, n := range keys {
		if n == "port" || n == "n" {
			obj.Props = append(obj.Props, sg.Prop{Name: n, S: &sg.Schema{Types: []string{"integer"}}})
			dv = append(dv, jsonx.KV{K: n, V: jsonx.N(int64(8080 + k))})
			other = append(other, jsonx.KV{K: n, V: jsonx.N(1)})
		} else {
			obj.Props = append(obj.Props, sg.Prop{Name: n, S: &sg.Schema{Types: []string{"string"}}})
			dv = append(dv, jsonx.KV{K: n, V: fmt.Sprintf("default-of-%s", n)})
			other = append(other, jsonx.KV{K: n, V: "given-" + n})
		}
		obj.Required = append(obj.Required, n)
	}
	switch (i / 3) % 4 {
	case 1:
		// the default lists its keys in another order
		dv = append(dv[1:], dv[0])
	case 2:
		// only the later-sorted spelling and the last key
		dv = dv[1:]
	case 3:
		// only the earlier-sorted spelling
		dv = dv[:1]
	}
	if len(dv) < len(keys) {
		// keys the default does not mention are optional with a default of their own (a value field, omitted when
		// zero), so that the default stays valid for its schema
		obj.Required = nil
		for _, p := range obj.Props {
			named := false
			for _, kv := range dv {
				named = named || kv.K == p.Name
			}
			if named {
				obj.Required = append(obj.Required, p.Name)
			} else if p.S.Types[0] == "string" {
				p.S.Default, p.S.HasDefault = "own-"+p.Name, true
			} else {
				p.S.Default, p.S.HasDefault = jsonx.N(7), true
			}
		}
	}
	obj.Default, obj.HasDefault = dv, true
	root := &sg.Schema{Types: []string{"object"}, Props: []sg.Prop{{Name: "server", S: obj}, {Name: "tag", S: &sg.Schema{Types: []string{"string"}}}}}
	c := &sem.Case{Root: root, Sig: fmt.Sprintf("object-default/%d", i%12), NoAuto: true}
	c.Docs = append(c.Docs, docgen.Doc{V: jsonx.Obj{}, Class: "default", Label: "absent"}, docgen.Doc{V: jsonx.Obj{{K: "server", V: nil}}, Class: "default", Label: "null"},
		docgen.Doc{V: jsonx.Obj{{K: "server", V: other}}, Class: "default", Label: "present"}, docgen.Doc{V: jsonx.Obj{{K: "tag", V: "t"}}, Class: "default", Label: "absent-with-sibling"})
	return c
}

// skipCase is returned by an extra-strata function for an index it leaves out.
var skipCase = &sem.Case{}

// collisionKindsCase: three names that normalise to one Go identifier, the contenders being of every combination of
// kinds (string enum, fractional number enum with equal integer parts, object, constrained string): each key keeps
// its own schema whatever was declared under the shared name before it.
func collisionKindsCase(i int) *sem.Case {
	kinds := [3]int{i % 4, (i / 4) % 4, (i / 16) % 4}
	names := [][3]string{{"Kind", "kind", "kind_"}, {"net-addr", "net.addr", "net_addr"}, {"my item", "my-item", "myItem"}}[(i/64+i)%3]
	nested := (i/64)%2 == 1
	fr := [3][]string{{"0.25", "0.5"}, {"0.75", "0.125"}, {"0.375", "0.625"}}
	root := &sg.Schema{Types: []string{"object"}}
	c := &sem.Case{Root: root, Sig: fmt.Sprintf("collision-kinds/%d%d%d", kinds[0], kinds[1], kinds[2]), NoAuto: true}
	all, bad := jsonx.Obj{}, jsonx.Obj{}
	for k := 0; k < 3; k++ {
		var d *sg.Schema
		var good, wrong any
		switch kinds[k] {
		case 0:
			d = &sg.Schema{Types: []string{"string"}, HasEnum: true, Enum: []any{fmt.Sprintf("a%d", k), fmt.Sprintf("b%d", k)}}
			good, wrong = fmt.Sprintf("b%d", k), fmt.Sprintf("b%d", (k+1)%3)
		case 1:
			d = &sg.Schema{Types: []string{"number"}, HasEnum: true, Enum: []any{jsonx.Num(fr[k][0]), jsonx.Num(fr[k][1])}}
			good, wrong = jsonx.Num(fr[k][1]), jsonx.Num(fr[(k+1)%3][1])
		case 2:
			if k%2 == 0 {
				d = &sg.Schema{Types: []string{"object"}, Props: []sg.Prop{{Name: "host", S: &sg.Schema{Types: []string{"string"}, MinLen: 1}}}, Required: []string{"host"}}
				good, wrong = jsonx.Obj{{K: "host", V: "h"}}, jsonx.Obj{{K: "port", V: jsonx.N(2)}}
			} else {
				d = &sg.Schema{Types: []string{"object"}, Props: []sg.Prop{{Name: "port", S: &sg.Schema{Types: []string{"integer"}, Min: sg.Fp(1)}}}, Required: []string{"port"}}
				good, wrong = jsonx.Obj{{K: "port", V: jsonx.N(2)}}, jsonx.Obj{{K: "host", V: "h"}}
			}
		default:
			d = &sg.Schema{Types: []string{"string"}, MinLen: k + 2}
			good, wrong = "xxxxx", "x"
		}
		key := fmt.Sprintf("p%d", k)
		if nested {
			// inline: the types are named after the property, <Root><Name>
			root.Props = append(root.Props, sg.Prop{Name: names[k], S: &sg.Schema{Types: []string{"object"}, Props: []sg.Prop{{Name: "v", S: d}}}})
			key = names[k]
			good, wrong = jsonx.Obj{{K: "v", V: good}}, jsonx.Obj{{K: "v", V: wrong}}
		} else {
			root.Defs = append(root.Defs, sg.Prop{Name: names[k], S: d})
			root.Props = append(root.Props, sg.Prop{Name: key, S: &sg.Schema{Ref: "#/$defs/" + names[k], Target: d}})
		}
		all = append(all, jsonx.KV{K: key, V: good})
		bad = append(bad, jsonx.KV{K: key, V: wrong})
		c.Docs = append(c.Docs, docgen.Doc{V: jsonx.Obj{{K: key, V: good}}, Class: "collision", Label: "own-schema"}, docgen.Doc{V: jsonx.Obj{{K: key, V: wrong}}, Class: "collision", Label: "other-schema"})
	}
	c.Docs = append(c.Docs, docgen.Doc{V: all, Class: "collision", Label: "all-own"}, docgen.Doc{V: bad, Class: "collision", Label: "all-other"})
	return c
}

// crossPackageCase: a root schema and a library schema, the library's definitions (bounded number, constrained
// string, object with required members, enum, limited array) each referenced several times from the root, the root
// carrying definitions of the SAME names with other constraints; generated into one package or - same run - into
// separate Go packages (--schema-package / --schema-output), the library reached through $ref only or also given on
// the command line, before or after the root. Every document is judged by the reference model through the whole
// multi-package program: what a definition enforces does not depend on the package it lands in, on how often it
// is referenced or on a same-named type elsewhere.
func crossPackageCase(i int) *sem.Case {
	numv, layout := i%4, (i/4)%5
	qty := func(local bool) *sg.Schema {
		off := 0.0
		if local {
			off = 100
		}
		switch numv {
		case 0:
			return &sg.Schema{Types: []string{"integer"}, Min: sg.Fp(1 + off), Max: sg.Fp(10 + off)}
		case 1:
			return &sg.Schema{Types: []string{"number"}, ExMin: 0.5 + off, ExMax: 9.5 + off}
		case 2:
			return &sg.Schema{Types: []string{"integer"}, MultipleOf: sg.Fp(3 + off/50), Max: sg.Fp(300)}
		}
		return &sg.Schema{Types: []string{"number"}, Min: sg.Fp(0.25 + off), Max: sg.Fp(7.75 + off)}
	}
	code := func(local bool) *sg.Schema {
		if local {
			return &sg.Schema{Types: []string{"string"}, MinLen: 5, MaxLen: 8, Pattern: "^[0-9]+$"}
		}
		return &sg.Schema{Types: []string{"string"}, MinLen: 2, MaxLen: 4, Pattern: "^[a-z]+$"}
	}
	item := func(local bool) *sg.Schema {
		if local {
			return &sg.Schema{Types: []string{"object"}, Props: []sg.Prop{{Name: "sku", S: &sg.Schema{Types: []string{"string"}, MaxLen: 2}}, {Name: "tag", S: &sg.Schema{Types: []string{"string", "null"}, Pattern: "^t"}}}, Required: []string{"sku"}}
		}
		return &sg.Schema{Types: []string{"object"}, Props: []sg.Prop{{Name: "sku", S: &sg.Schema{Types: []string{"string"}, MinLen: 3}}, {Name: "count", S: &sg.Schema{Types: []string{"integer"}, Min: sg.Fp(0)}}}, Required: []string{"sku", "count"}}
	}
	level := func(local bool) *sg.Schema {
		if local {
			return &sg.Schema{Types: []string{"string"}, HasEnum: true, Enum: []any{"on", "off"}}
		}
		return &sg.Schema{Types: []string{"string"}, HasEnum: true, Enum: []any{"low", "high"}}
	}
	list := func(local bool) *sg.Schema {
		if local {
			return &sg.Schema{Types: []string{"array"}, Items: &sg.Schema{Types: []string{"string"}}, MinItems: 2}
		}
		return &sg.Schema{Types: []string{"array"}, Items: &sg.Schema{Types: []string{"integer"}}, MaxItems: 2}
	}
	const libID, rootID = "https://example.com/x/lib", "https://example.com/x/root"
	lib := &sg.Schema{ID: libID, Types: []string{"object"}}
	root := &sg.Schema{ID: rootID, Types: []string{"object"}}
	type def struct {
		name string
		mk   func(bool) *sg.Schema
	}
	for _, d := range []def{{"Qty", qty}, {"Code", code}, {"Item", item}, {"Level", level}, {"List", list}} {
		ls, own := d.mk(false), d.mk(true)
		lib.Defs = append(lib.Defs, sg.Prop{Name: d.name, S: ls})
		root.Defs = append(root.Defs, sg.Prop{Name: d.name, S: own})
		lo := strings.ToLower(d.name)
		lib.Props = append(lib.Props, sg.Prop{Name: lo, S: &sg.Schema{Ref: "#/$defs/" + d.name, Target: ls}})
		for k := 1; k <= 3; k++ {
			root.Props = append(root.Props, sg.Prop{Name: fmt.Sprintf("%s%d", lo, k), S: &sg.Schema{Ref: "lib.json#/$defs/" + d.name, Target: ls}})
		}
		root.Props = append(root.Props, sg.Prop{Name: "own" + d.name, S: &sg.Schema{Ref: "#/$defs/" + d.name, Target: own}})
	}
	// (first 20 indices) one pattern-carrying definition per file under a name of its own: both packages keep using
	// regexp whatever happens to the same-named ones; from index 20 on the same-named ones are the only users
	slug := &sg.Schema{Types: []string{"string"}, Pattern: "^[a-z-]+$", MaxLen: 12}
	pin := &sg.Schema{Types: []string{"string"}, Pattern: "^[0-9]+$", MinLen: 4}
	if (i/20)%2 == 0 {
		lib.Defs = append(lib.Defs, sg.Prop{Name: "Slug", S: slug})
		lib.Props = append(lib.Props, sg.Prop{Name: "slug", S: &sg.Schema{Ref: "#/$defs/Slug", Target: slug}})
		root.Defs = append(root.Defs, sg.Prop{Name: "Pin", S: pin})
		root.Props = append(root.Props, sg.Prop{Name: "slug1", S: &sg.Schema{Ref: "lib.json#/$defs/Slug", Target: slug}}, sg.Prop{Name: "ownPin", S: &sg.Schema{Ref: "#/$defs/Pin", Target: pin}})
	}
	// a definition that holds references into the library, used alone and merged through allOf (the composed struct
	// visits the reference nodes a second time); an inline anyOf member that holds one
	libItem, libQty := lib.Defs[2].S, lib.Defs[0].S
	// (a library type without a namesake in the root: a reference that loses its package qualifier cannot bind to a
	// local type by accident)
	libOnly := &sg.Schema{Types: []string{"object"}, Props: []sg.Prop{{Name: "serial", S: &sg.Schema{Types: []string{"string"}, MinLen: 2}}}, Required: []string{"serial"}}
	lib.Defs = append(lib.Defs, sg.Prop{Name: "LibOnly", S: libOnly})
	lib.Props = append(lib.Props, sg.Prop{Name: "libOnly", S: &sg.Schema{Ref: "#/$defs/LibOnly", Target: libOnly}})
	base := &sg.Schema{Types: []string{"object"}, Props: []sg.Prop{{Name: "baseId", S: &sg.Schema{Types: []string{"integer"}}}, {Name: "device", S: &sg.Schema{Ref: "lib.json#/$defs/LibOnly", Target: libOnly}},
		{Name: "owner", S: &sg.Schema{Ref: "lib.json#/$defs/Item", Target: libItem}}, {Name: "amount", S: &sg.Schema{Ref: "lib.json#/$defs/Qty", Target: libQty}}}, Required: []string{"baseId"}}
	root.Defs = append(root.Defs, sg.Prop{Name: "Base", S: base})
	root.Props = append(root.Props, sg.Prop{Name: "plainBase", S: &sg.Schema{Ref: "#/$defs/Base", Target: base}},
		sg.Prop{Name: "composed", S: &sg.Schema{AllOf: []*sg.Schema{{Ref: "#/$defs/Base", Target: base}, {Types: []string{"object"}, Props: []sg.Prop{{Name: "note", S: &sg.Schema{Types: []string{"string"}}}}}}}},
		sg.Prop{Name: "either", S: &sg.Schema{AnyOf: []*sg.Schema{
			{Types: []string{"object"}, Props: []sg.Prop{{Name: "who", S: &sg.Schema{Ref: "lib.json#/$defs/Item", Target: libItem}}}, Required: []string{"who"}},
			{Types: []string{"object"}, Props: []sg.Prop{{Name: "count", S: &sg.Schema{Types: []string{"integer"}}}}, Required: []string{"count"}}}}})
	root.Props = append(root.Props, sg.Prop{Name: "qtys", S: &sg.Schema{Types: []string{"array"}, Items: &sg.Schema{Ref: "lib.json#/$defs/Qty", Target: lib.Defs[0].S}}})
	libFile := batch.File{Path: "lib.json", Data: jsonx.MarshalIndent(lib.ToJSON())}
	split := []string{"--schema-package=" + libID + "={{PKG}}/lib", "--schema-output=" + libID + "={{OUT}}/lib/gen.go"}
	c := &sem.Case{Root: root, Sig: fmt.Sprintf("cross-package/%d/%d", layout, numv)}
	switch layout {
	case 0:
		// one package, library reached through $ref
		c.Extra = []batch.File{libFile}
	case 1:
		// library in a package of its own, reached through $ref
		c.Extra, c.Args, c.SubPkgs = []batch.File{libFile}, split, []string{"lib"}
	case 2:
		// ... and also given on the command line after the root
		c.Args, c.SubPkgs = split, []string{"lib"}
		c.Group = []*sem.Case{{Root: lib, RootFile: "lib.json", RootType: "lib/LibJson", Sig: c.Sig + "/lib"}}
	case 3:
		// ... given before the root
		c = &sem.Case{Root: lib, RootFile: "lib.json", RootType: "lib/LibJson", Sig: c.Sig + "/lib", Args: split, SubPkgs: []string{"lib"},
			Group: []*sem.Case{{Root: root, RootFile: "root.json", Sig: c.Sig}}}
	case 4:
		// both on the command line, one package
		c.Group = []*sem.Case{{Root: lib, RootFile: "lib.json", Sig: c.Sig + "/lib"}}
	}
	return c
}

// nestedOverlapCase: allOf branches that both declare the object property "owner" with members and required lists
// of their own, a name required at the top level of one branch being required inside the other branch's owner too
// (and the same the other way round): every (level, name) pair is required on its own.
func nestedOverlapCase(i int) *sem.Case {
	str := func() *sg.Schema { return &sg.Schema{Types: []string{"string"}} }
	b1 := &sg.Schema{Types: []string{"object"}, Props: []sg.Prop{{Name: "kind", S: str()}, {Name: "name", S: str()},
		{Name: "owner", S: &sg.Schema{Types: []string{"object"}, Props: []sg.Prop{{Name: "name", S: str()}, {Name: "kind", S: str()}}, Required: []string{"name"}}}}, Required: []string{"kind"}}
	b2 := &sg.Schema{Types: []string{"object"}, Props: []sg.Prop{{Name: "id", S: str()},
		{Name: "owner", S: &sg.Schema{Types: []string{"object"}, Props: []sg.Prop{{Name: "id", S: str()}}, Required: []string{"id"}}}}, Required: []string{"id"}}
	switch i % 4 {
	case 1:
		// the nested list repeats a name of the SAME branch's top-level list
		b1.Props[2].S.Required = []string{"kind", "name"}
	case 2:
		b1.Required = []string{"kind", "name"}
	case 3:
		b2.Props[1].S.Required = nil
		b1.Props[2].S.Required = []string{"name", "kind"}
		b1.Props[2].S.Props = append(b1.Props[2].S.Props, sg.Prop{Name: "id", S: str()})
	}
	branches := []*sg.Schema{b1, b2}
	if (i/4)%2 == 1 {
		branches = []*sg.Schema{b2, b1}
	}
	root := &sg.Schema{Types: []string{"object"}}
	if (i/8)%2 == 1 {
		d1, d2 := branches[0], branches[1]
		root.Defs = []sg.Prop{{Name: "First", S: d1}, {Name: "Second", S: d2}}
		branches = []*sg.Schema{{Ref: "#/$defs/First", Target: d1}, {Ref: "#/$defs/Second", Target: d2}}
	}
	root.Props = []sg.Prop{{Name: "item", S: &sg.Schema{AllOf: branches}}}
	c := &sem.Case{Root: root, Sig: fmt.Sprintf("nested-overlap/%d", i%16), NoAuto: true}
	top, in := []string{"kind", "name", "id"}, []string{"name", "kind", "id"}
	for m := 0; m < 64; m++ {
		item, owner := jsonx.Obj{}, jsonx.Obj{}
		for k, n := range top {
			if m&(1<<uint(k)) != 0 {
				item = append(item, jsonx.KV{K: n, V: "t-" + n})
			}
		}
		for k, n := range in {
			if m&(8<<uint(k)) != 0 {
				owner = append(owner, jsonx.KV{K: n, V: "o-" + n})
			}
		}
		item = append(item, jsonx.KV{K: "owner", V: owner})
		c.Docs = append(c.Docs, docgen.Doc{V: jsonx.Obj{{K: "item", V: item}}, Class: "required", Label: "nested-overlap"})
	}
	c.Docs = append(c.Docs, docgen.Doc{V: jsonx.Obj{{K: "item", V: jsonx.Obj{{K: "kind", V: "k"}, {K: "name", V: "n"}, {K: "id", V: "i"}}}}, Class: "required", Label: "no-owner"})
	return c
}

// refSiblingCase: a composition member that is a $ref with sibling keywords (required, properties, minProperties
// spelled next to the reference) and, generated after it, compositions and plain references over the SAME
// definition: whatever the generator makes of the siblings, the definition itself and its other users stay what
// the schema says (documents for the member with siblings satisfy both readings of them).
func refSiblingCase(i int) *sem.Case {
	str := func() *sg.Schema { return &sg.Schema{Types: []string{"string"}} }
	contact := &sg.Schema{Types: []string{"object"}, Props: []sg.Prop{{Name: "email", S: str()}, {Name: "phone", S: str()}}, Required: []string{"email"}}
	audit := &sg.Schema{Types: []string{"object"}, Props: []sg.Prop{{Name: "createdBy", S: str()}}, Required: []string{"createdBy"}}
	sib := &sg.Schema{Ref: "#/$defs/Contact", Target: contact}
	switch i % 3 {
	case 0:
		sib.Extra = jsonx.Obj{{K: "required", V: []any{"phone"}}}
	case 1:
		sib.Extra = jsonx.Obj{{K: "required", V: []any{"phone", "fax"}}, {K: "properties", V: jsonx.Obj{{K: "fax", V: jsonx.Obj{{K: "type", V: "string"}}}}}}
	case 2:
		sib.Extra = jsonx.Obj{{K: "required", V: []any{"phone"}}, {K: "minProperties", V: jsonx.N(2)}}
	}
	plainC := func() *sg.Schema { return &sg.Schema{Ref: "#/$defs/Contact", Target: contact} }
	plainA := func() *sg.Schema { return &sg.Schema{Ref: "#/$defs/Audit", Target: audit} }
	root := &sg.Schema{Types: []string{"object"}, Defs: []sg.Prop{{Name: "Contact", S: contact}, {Name: "Audit", S: audit}}}
	var first *sg.Schema
	switch (i / 3) % 3 {
	case 0:
		first = &sg.Schema{AllOf: []*sg.Schema{sib, plainA()}}
	case 1:
		first = &sg.Schema{AnyOf: []*sg.Schema{sib, plainA()}}
	case 2:
		first = sib
	}
	root.Props = []sg.Prop{{Name: "a_first", S: first},
		{Name: "shipping", S: &sg.Schema{AllOf: []*sg.Schema{plainC(), plainA()}}},
		{Name: "either", S: &sg.Schema{AnyOf: []*sg.Schema{plainC(), plainA()}}},
		{Name: "zcontact", S: plainC()}}
	c := &sem.Case{Root: root, Sig: fmt.Sprintf("ref-sibling/%d", i%9), NoAuto: true}
	full := jsonx.Obj{{K: "email", V: "a@b"}, {K: "phone", V: "1"}, {K: "fax", V: "2"}, {K: "createdBy", V: "me"}}
	noPhone := jsonx.Obj{{K: "email", V: "a@b"}, {K: "createdBy", V: "me"}}
	onlyContact := jsonx.Obj{{K: "email", V: "a@b"}}
	onlyAudit := jsonx.Obj{{K: "createdBy", V: "me"}}
	for _, d := range []jsonx.Obj{
		{{K: "a_first", V: full}}, {{K: "shipping", V: full}}, {{K: "shipping", V: noPhone}}, {{K: "shipping", V: onlyContact}}, {{K: "shipping", V: onlyAudit}},
		{{K: "either", V: noPhone}}, {{K: "either", V: onlyContact}}, {{K: "either", V: onlyAudit}}, {{K: "either", V: jsonx.Obj{{K: "phone", V: "1"}}}},
		{{K: "zcontact", V: onlyContact}}, {{K: "zcontact", V: jsonx.Obj{{K: "phone", V: "1"}}}}, {{K: "zcontact", V: full}},
		{{K: "a_first", V: full}, {K: "shipping", V: noPhone}, {K: "either", V: onlyContact}, {K: "zcontact", V: onlyContact}},
	} {
		c.Docs = append(c.Docs, docgen.Doc{V: d, Class: "required", Label: "ref-sibling"})
	}
	return c
}

// typelessDefCase: definitions that state members but no type (any JSON value is valid for them; the members only
// describe the object case), named so that they sort before / after the definition that refers to them, reached
// from definitions, from the root, as array items and inside compositions: every JSON value stays accepted and
// round-trips.
func typelessDefCase(i int) *sem.Case {
	free := func() *sg.Schema {
		s := &sg.Schema{Props: []sg.Prop{{Name: "kind", S: &sg.Schema{Types: []string{"string"}}}, {Name: "size", S: &sg.Schema{Types: []string{"integer"}}}}}
		if i%2 == 1 {
			s.Desc = "no type: any value"
		}
		return s
	}
	early, late := free(), free() // "Attachment" sorts before "Order", "Payload" after it
	ref := func(n string, t *sg.Schema) *sg.Schema { return &sg.Schema{Ref: "#/$defs/" + n, Target: t} }
	order := &sg.Schema{Types: []string{"object"}, Props: []sg.Prop{{Name: "id", S: &sg.Schema{Types: []string{"integer"}, Min: sg.Fp(1)}}}, Required: []string{"id"}}
	switch (i / 2) % 4 {
	case 0:
		order.Props = append(order.Props, sg.Prop{Name: "payload", S: ref("Payload", late)}, sg.Prop{Name: "attachment", S: ref("Attachment", early)})
	case 1:
		order.Props = append(order.Props, sg.Prop{Name: "history", S: &sg.Schema{Types: []string{"array"}, Items: ref("Payload", late)}}, sg.Prop{Name: "files", S: &sg.Schema{Types: []string{"array"}, Items: ref("Attachment", early)}})
	case 2:
		order.Props = append(order.Props, sg.Prop{Name: "payload", S: ref("Payload", late)}, sg.Prop{Name: "history", S: &sg.Schema{Types: []string{"array"}, Items: ref("Payload", late)}})
	case 3:
		order.AddProps = ref("Payload", late)
	}
	root := &sg.Schema{Types: []string{"object"}, Defs: []sg.Prop{{Name: "Attachment", S: early}, {Name: "Order", S: order}, {Name: "Payload", S: late}},
		Props: []sg.Prop{{Name: "order", S: ref("Order", order)}, {Name: "direct", S: ref("Payload", late)}, {Name: "first", S: ref("Attachment", early)}}}
	c := &sem.Case{Root: root, Sig: fmt.Sprintf("typeless-def/%d", i%8), NoAuto: true}
	for _, v := range []any{"text", jsonx.N(5), jsonx.Num("2.5"), true, []any{jsonx.N(1), "a"}, jsonx.Obj{{K: "kind", V: "k"}, {K: "size", V: jsonx.N(3)}}, jsonx.Obj{{K: "other", V: []any{}}}, jsonx.Obj{}} {
		o := jsonx.Obj{{K: "id", V: jsonx.N(7)}}
		switch (i / 2) % 4 {
		case 0:
			o = append(o, jsonx.KV{K: "payload", V: v}, jsonx.KV{K: "attachment", V: v})
		case 1:
			o = append(o, jsonx.KV{K: "history", V: []any{v, v}}, jsonx.KV{K: "files", V: []any{v}})
		case 2:
			o = append(o, jsonx.KV{K: "payload", V: v}, jsonx.KV{K: "history", V: []any{v}})
		case 3:
			o = append(o, jsonx.KV{K: "extra1", V: v}, jsonx.KV{K: "extra2", V: v})
		}
		c.Docs = append(c.Docs, docgen.Doc{V: jsonx.Obj{{K: "order", V: o}}, Class: "valid", Label: "typeless-in-order", Stated: "accept"},
			docgen.Doc{V: jsonx.Obj{{K: "direct", V: v}, {K: "first", V: v}}, Class: "valid", Label: "typeless-direct", Stated: "accept"})
	}
	return c
}

// nullableDefCase: named definitions whose type list allows null (["integer","null"] with bounds, ["string","null"]
// with length/pattern, ["number","null"], enum with null, ["array","null"] with limits, ["object","null"] with a
// required member), referenced from an optional and a required property and as array items: null is accepted, any
// other value is held to the definition's rules.
func nullableDefCase(i int) *sem.Case {
	tl := func(t string) []string {
		if i%2 == 1 {
			return []string{"null", t}
		}
		return []string{t, "null"}
	}
	defs := []struct {
		name      string
		s         *sg.Schema
		good, bad []any
	}{
		{"Level", &sg.Schema{Types: tl("integer"), Min: sg.Fp(0), Max: sg.Fp(255)}, []any{jsonx.N(0), jsonx.N(255)}, []any{jsonx.N(300), jsonx.N(-1), "x", jsonx.Num("1.5")}},
		{"Ratio", &sg.Schema{Types: tl("number"), ExMin: 0.0, Max: sg.Fp(1)}, []any{jsonx.Num("0.5"), jsonx.N(1)}, []any{jsonx.N(0), jsonx.Num("1.5"), true}},
		{"Code", &sg.Schema{Types: tl("string"), MinLen: 2, MaxLen: 4, Pattern: "^[a-z]+$"}, []any{"ab", "abcd"}, []any{"a", "abcde", "AB", jsonx.N(5)}},
		{"Flag", &sg.Schema{Types: tl("boolean")}, []any{true, false}, []any{"true", jsonx.N(1)}},
		{"Tags", &sg.Schema{Types: tl("array"), Items: &sg.Schema{Types: []string{"string"}, MinLen: 1}, MinItems: 1, MaxItems: 2}, []any{[]any{"a"}, []any{"a", "b"}}, []any{[]any{}, []any{"a", "b", "c"}, []any{""}, "a"}},
		{"Owner", &sg.Schema{Types: tl("object"), Props: []sg.Prop{{Name: "name", S: &sg.Schema{Types: []string{"string"}, MinLen: 1}}}, Required: []string{"name"}}, []any{jsonx.Obj{{K: "name", V: "n"}}}, []any{jsonx.Obj{}, jsonx.Obj{{K: "name", V: ""}}, "n"}},
	}
	root := &sg.Schema{Types: []string{"object"}}
	c := &sem.Case{Root: root, Sig: fmt.Sprintf("nullable-def/%d", i%12), NoAuto: true}
	for k, d := range defs {
		if (i/2)%3 == 1 && k%2 == 0 || (i/2)%3 == 2 && k%2 == 1 {
			continue // subsets: a definition also occurs without the others in the file
		}
		root.Defs = append(root.Defs, sg.Prop{Name: d.name, S: d.s})
		lo := strings.ToLower(d.name)
		ref := func() *sg.Schema { return &sg.Schema{Ref: "#/$defs/" + d.name, Target: d.s} }
		root.Props = append(root.Props, sg.Prop{Name: lo, S: ref()}, sg.Prop{Name: lo + "Req", S: ref()}, sg.Prop{Name: lo + "List", S: &sg.Schema{Types: []string{"array"}, Items: ref()}})
		root.Required = append(root.Required, lo+"Req")
	}
	base := jsonx.Obj{}
	for _, d := range defs {
		if root.Prop(strings.ToLower(d.name)) != nil {
			base = append(base, jsonx.KV{K: strings.ToLower(d.name) + "Req", V: d.good[0]})
		}
	}
	with := func(k string, v any) jsonx.Obj {
		o := jsonx.Obj{}
		set := false
		for _, kv := range base {
			if kv.K == k {
				o = append(o, jsonx.KV{K: k, V: v})
				set = true
			} else {
				o = append(o, kv)
			}
		}
		if !set {
			o = append(o, jsonx.KV{K: k, V: v})
		}
		return o
	}
	c.Docs = append(c.Docs, docgen.Doc{V: base, Class: "valid", Label: "base"})
	for _, d := range defs {
		lo := strings.ToLower(d.name)
		if root.Prop(lo) == nil {
			continue
		}
		for _, key := range []string{lo, lo + "Req"} {
			c.Docs = append(c.Docs, docgen.Doc{V: with(key, nil), Class: "nullok", Label: "null"})
			for _, g := range d.good {
				c.Docs = append(c.Docs, docgen.Doc{V: with(key, g), Class: "valid", Label: "good"})
			}
			for _, b := range d.bad {
				c.Docs = append(c.Docs, docgen.Doc{V: with(key, b), Class: "bound", Label: "bad"})
			}
		}
		c.Docs = append(c.Docs, docgen.Doc{V: with(lo+"List", []any{d.good[0], nil, d.good[len(d.good)-1]}), Class: "nullok", Label: "list-with-null"})
		for _, b := range d.bad {
			c.Docs = append(c.Docs, docgen.Doc{V: with(lo+"List", []any{d.good[0], b}), Class: "bound", Label: "bad-element"})
		}
	}
	return c
}

// strataForC01 lists the hand-built strata of the semantic checks (those C01 does not draw itself): whatever a
// stratum is meant to show about accept/reject, its schema is one the generator handles, so the emitted file(s)
// must be valid Go - a semantic check silently loses a stratum whose program stops building, C01 does not.
func strataForC01(ctx *Ctx) []*sem.Case {
	var out []*sem.Case
	rng := func(name string, i int) *sg.Rng { return sg.NewRng(ctx.Seed, fmt.Sprintf("C01-strata-%s-%d", name, i)) }
	add := func(n int, f func(i int) *sem.Case) {
		for i := 0; i < n; i++ {
			if c := f(i); c != nil && c != skipCase {
				out = append(out, c)
			}
		}
	}
	add(6, nullableBranchCase)
	add(20, controlPatternCase)
	add(7, ignoredArrayKeywordCase)
	add(8, extFieldCase)
	add(6, refObjectDefaultCase)
	add(10, formatEnumCase)
	add(8, oddRequiredNameCase)
	add(6, selfRefTwinCase)
	add(12, mixinBranchCase)
	add(2, caseIdentifierCase)
	add(9, anyOfAliasCollisionCase)
	add(3, allOfDefaultCase)
	add(6, titledNestedArrayCase)
	add(22, ignoredKeywordCase)
	add(3, refEnumCase)
	add(12, caseDefCompositionCase)
	add(5, draftNumericCase)
	add(8, typedAllOfDefinitionCase)
	add(9, nestedSameDefCase)
	add(6, propsNextToAllOfCase)
	add(6, aliasDefinitionCase)
	add(6, ecmaPatternCase)
	add(2, nullableArrayDefaultCase)
	add(2, legacyNumericKeywordCase)
	add(6, typeListEnumCase)
	add(3, allOfOrderArrayLimitCase)
	add(8, undeclaredRequiredCase)
	add(4, sameNameDefTwoFilesCase)
	add(12, objectDefaultCase)
	add(12, nullableDefCase)
	add(16, nestedOverlapCase)
	add(9, refSiblingCase)
	add(8, typelessDefCase)
	add(14, sameStemCase)
	add(12, sameBaseDirCase)
	add(8, fileCycleCase)
	add(10, formatCase)
	add(16, fractionalMultipleCase)
	add(4, nullItemsCase)
	add(8, patternPropsCase)
	add(12, dashNameCase)
	add(8, percentNameCase)
	add(5, lenientFormatCase)
	add(12, stringOverlapCase)
	add(24, sharedBranchAnyOfCase)
	add(8, anyOfOverlapCase)
	add(8, bothDefsKeywordsCase)
	add(6, untypedDefaultCase)
	add(16, sharedOutputCase)
	add(8, nearTwinDefaultCase)
	add(30, fractionalIntBoundCase)
	add(3, nestedCompositionArrayCase)
	add(12, multiTypeRuleCase)
	add(18, derivedNameCollisionCase)
	add(8, percentStringCase)
	add(24, branchFieldCollisionCase)
	add(8, sharedMemberStringCase)
	add(8, exactSizeGridCase)
	add(12, longEnumCase)
	add(12, optionNeutralCase)
	add(12, sizedTwinCase)
	add(3*nearTwinVariants, nearTwinCase)
	add(72, emptyIntervalCase)
	add(12, propertyCountCase)
	add(54, intFormatCase)
	add(36, definitionCycleCase)
	add(72, enumTripleCase)
	add(96, siblingCollisionSetCase)
	add(12, func(i int) *sem.Case { return sameRefTextTwinCase(ctx, i, rng("twin", i), 12) })
	add(8, func(i int) *sem.Case { return crossBranchCase(i, rng("cross", i)) })
	add(24, func(i int) *sem.Case { return sharedNodeCase(i, rng("shared", i)) })
	add(12, func(i int) *sem.Case { return sameNameTwinCase(ctx, i, rng("samename", i)) })
	out = append(out, c19Shapes(ctx)...)
	return out
}

// controlPatternCase: patterns that contain literal control characters and quote-like characters (a line feed, a
// tab, CR LF, a double quote, a percent sign, a backslash escape) at required / optional / nullable / definition /
// item positions (each is emitted at another indentation depth): the text of the pattern reaches the regexp engine
// unchanged.
func controlPatternCase(i int) *sem.Case {
	pats := []struct {
		p         string
		good, bad []string
	}{
		{"^[A-Z][a-z]+\n[0-9]{5}$", []string{"Jane\n12345"}, []string{"Jane\n\t12345", "Jane\n\t\t12345", "Jane 12345", "Jane12345", "Jane\n 12345"}},
		{"^a\tb$", []string{"a\tb"}, []string{"a b", "ab", "a\t\tb", "a\\tb"}},
		{"^x\r\ny$", []string{"x\r\ny"}, []string{"x\ny", "x\r\n\ty", "xy"}},
		{"^say \"hi\"$", []string{"say \"hi\""}, []string{"say hi", "say \\\"hi\\\""}},
		{"^100%[sd]$", []string{"100%s", "100%d"}, []string{"100s", "100%!s"}},
		{"^a\\\\b$", []string{"a\\b"}, []string{"ab", "a\\\\b"}},
		{"^\\s+\n\\S+$", []string{"  \nxy"}, []string{"  \n\txy\n", "xy"}},
		{"^`[a-z]+`$", []string{"`code`"}, []string{"code", "'code'"}},
		// an escaped backslash followed by text that looks like an escape of another dialect
		{"^\\\\u0041$", []string{"\\u0041"}, []string{"A", "\\x{0041}", "u0041"}},
		{"^(\\\\x41|\\\\d)+$", []string{"\\x41", "\\d\\x41"}, []string{"A", "7", "x41"}},
	}
	pt := pats[i%len(pats)]
	mk := func() *sg.Schema { return &sg.Schema{Types: []string{"string"}, Pattern: pt.p} }
	def := mk()
	nul := mk()
	nul.Types = []string{"string", "null"}
	root := &sg.Schema{Types: []string{"object"}, Defs: []sg.Prop{{Name: "Line", S: def}},
		Props: []sg.Prop{{Name: "req", S: mk()}, {Name: "opt", S: mk()}, {Name: "nul", S: nul}, {Name: "viaDef", S: &sg.Schema{Ref: "#/$defs/Line", Target: def}},
			{Name: "list", S: &sg.Schema{Types: []string{"array"}, Items: mk()}}, {Name: "nested", S: &sg.Schema{Types: []string{"object"}, Props: []sg.Prop{{Name: "deep", S: mk()}}}}},
		Required: []string{"req"}}
	c := &sem.Case{Root: root, Sig: fmt.Sprintf("control-pattern/%d", i%len(pats)), NoAuto: true}
	if (i/len(pats))%2 == 1 {
		c.YAML, c.RootFile = true, "root.yaml" // the schema itself written as YAML (block scalars for multi-line texts)
	}
	at := func(key string, v string) jsonx.Obj {
		o := jsonx.Obj{{K: "req", V: pt.good[0]}}
		switch key {
		case "req":
			o = jsonx.Obj{{K: "req", V: v}}
		case "list":
			o = append(o, jsonx.KV{K: "list", V: []any{pt.good[0], v}})
		case "nested":
			o = append(o, jsonx.KV{K: "nested", V: jsonx.Obj{{K: "deep", V: v}}})
		default:
			o = append(o, jsonx.KV{K: key, V: v})
		}
		return o
	}
	for _, key := range []string{"req", "opt", "nul", "viaDef", "list", "nested"} {
		for _, g := range pt.good {
			c.Docs = append(c.Docs, docgen.Doc{V: at(key, g), Class: "string", Label: "matching"})
		}
		for _, b := range pt.bad {
			c.Docs = append(c.Docs, docgen.Doc{V: at(key, b), Class: "string", Label: "not-matching"})
		}
	}
	return c
}

// ignoredArrayKeywordCase: arrays with a single typed items schema next to array keywords that do not change what
// an element may be (additionalItems in any form - it only speaks about tuples -, uniqueItems, contains, minContains):
// every element is still held to items, inline, nested, as a definition and through a reference.
func ignoredArrayKeywordCase(i int) *sem.Case {
	kws := []jsonx.Obj{
		{{K: "additionalItems", V: true}}, {{K: "additionalItems", V: jsonx.Obj{{K: "type", V: "boolean"}}}}, {{K: "additionalItems", V: jsonx.Obj{}}}, {{K: "additionalItems", V: false}},
		{{K: "uniqueItems", V: true}}, {{K: "contains", V: jsonx.Obj{{K: "type", V: "object"}}}, {K: "minContains", V: jsonx.N(0)}}, {{K: "additionalItems", V: jsonx.Obj{{K: "type", V: "string"}}}, {K: "uniqueItems", V: false}},
	}
	kw := kws[i%len(kws)]
	arr := func(item *sg.Schema) *sg.Schema { return &sg.Schema{Types: []string{"array"}, Items: item, Extra: kw} }
	intS := func() *sg.Schema { return &sg.Schema{Types: []string{"integer"}} }
	strS := func() *sg.Schema { return &sg.Schema{Types: []string{"string"}} }
	named := arr(strS())
	cell := &sg.Schema{Types: []string{"object"}, Props: []sg.Prop{{Name: "v", S: intS()}}, Required: []string{"v"}}
	root := &sg.Schema{Types: []string{"object"}, Defs: []sg.Prop{{Name: "Labels", S: named}, {Name: "Cell", S: cell}},
		Props: []sg.Prop{{Name: "scores", S: arr(intS())}, {Name: "labels", S: arr(strS())}, {Name: "flags", S: arr(&sg.Schema{Types: []string{"boolean"}})}, {Name: "grid", S: arr(arr(intS()))},
			{Name: "named", S: &sg.Schema{Ref: "#/$defs/Labels", Target: named}}, {Name: "cells", S: arr(&sg.Schema{Ref: "#/$defs/Cell", Target: cell})}, {Name: "nullable", S: func() *sg.Schema { a := arr(intS()); a.Types = []string{"array", "null"}; return a }()}}}
	c := &sem.Case{Root: root, Sig: fmt.Sprintf("ignored-array-keyword/%d", i%len(kws)), NoAuto: true}
	for _, d := range []struct {
		k string
		v any
	}{
		{"scores", []any{jsonx.N(1), jsonx.N(2)}}, {"scores", []any{"x"}}, {"scores", []any{jsonx.Num("1.5")}}, {"scores", []any{jsonx.N(1), jsonx.Obj{{K: "a", V: jsonx.N(1)}}}}, {"scores", []any{jsonx.N(1), true}},
		{"labels", []any{"a", "b"}}, {"labels", []any{jsonx.N(7)}}, {"labels", []any{"a", true}}, {"labels", []any{"a", []any{}}},
		{"flags", []any{true, false}}, {"flags", []any{"true"}}, {"flags", []any{true, jsonx.N(0)}},
		{"grid", []any{[]any{jsonx.N(1)}, []any{}}}, {"grid", []any{[]any{"x"}}}, {"grid", []any{jsonx.N(1)}},
		{"named", []any{"a"}}, {"named", []any{jsonx.N(1)}}, {"named", []any{"a", false}},
		{"cells", []any{jsonx.Obj{{K: "v", V: jsonx.N(1)}}}}, {"cells", []any{jsonx.N(1)}}, {"cells", []any{jsonx.Obj{{K: "v", V: "x"}}}},
		{"nullable", nil}, {"nullable", []any{jsonx.N(1)}}, {"nullable", []any{"x"}},
	} {
		c.Docs = append(c.Docs, docgen.Doc{V: jsonx.Obj{{K: d.k, V: d.v}}, Class: "typefault", Label: "element"})
	}
	return c
}

// extFieldCase: properties that carry a goJSONSchema extension WITHOUT a custom type (identifier only: the Go field
// is renamed, nothing else changes) on arrays with limits, bounded numbers, constrained strings and required keys,
// next to (odd indices) a property with a custom Go type (time.Duration) that sorts between other validated
// properties: every rule of every other property stays in force.
func extFieldCase(i int) *sem.Case {
	ident := func(n string) jsonx.Obj { return jsonx.Obj{{K: "identifier", V: n}} }
	withExt := func(s *sg.Schema, n string, on bool) *sg.Schema {
		if on {
			s.Ext = ident(n)
		}
		return s
	}
	on := func(bit uint) bool { return (i>>bit)&1 == 1 || i%8 == 7 }
	inner := &sg.Schema{Types: []string{"array"}, Items: &sg.Schema{Types: []string{"integer"}}, MinItems: 1, MaxItems: 2}
	root := &sg.Schema{Types: []string{"object"}, Required: []string{"labels", "name"}, Props: []sg.Prop{
		{Name: "attempts", S: &sg.Schema{Types: []string{"integer"}, Min: sg.Fp(1), Max: sg.Fp(10)}},
		{Name: "code", S: withExt(&sg.Schema{Types: []string{"string"}, MinLen: 2, MaxLen: 4}, "CodeText", on(0))},
		{Name: "grid", S: withExt(&sg.Schema{Types: []string{"array", "null"}, Items: inner, MinItems: 1, MaxItems: 2}, "Matrix", on(1))},
		{Name: "labels", S: withExt(&sg.Schema{Types: []string{"array"}, Items: &sg.Schema{Types: []string{"string"}}, MinItems: 2, MaxItems: 3}, "LabelList", on(1))},
		{Name: "load", S: &sg.Schema{Types: []string{"number"}, ExMin: 0.0, Max: sg.Fp(1)}},
		{Name: "name", S: withExt(&sg.Schema{Types: []string{"string"}, MinLen: 1}, "DisplayName", on(2))},
		{Name: "ratio", S: withExt(&sg.Schema{Types: []string{"number"}, Max: sg.Fp(1)}, "RatioValue", on(0))},
		{Name: "step", S: &sg.Schema{Types: []string{"integer", "null"}, MultipleOf: sg.Fp(5)}},
		{Name: "weight", S: &sg.Schema{Types: []string{"integer"}, Max: sg.Fp(5)}},
	}}
	if i%2 == 1 {
		// sorts after attempts / load / step and before weight
		root.Props = append(root.Props, sg.Prop{Name: "timeout", S: &sg.Schema{Types: []string{"integer"}, Ext: jsonx.Obj{{K: "type", V: "time.Duration"}, {K: "imports", V: []any{"time"}}}}})
	}
	c := &sem.Case{Root: root, Sig: fmt.Sprintf("ext-field/%d", i%8), NoAuto: true}
	base := jsonx.Obj{{K: "labels", V: []any{"a", "b"}}, {K: "name", V: "n"}}
	with := func(k string, v any) jsonx.Obj {
		o := jsonx.Obj{}
		set := false
		for _, kv := range base {
			if kv.K == k {
				o, set = append(o, jsonx.KV{K: k, V: v}), true
			} else {
				o = append(o, kv)
			}
		}
		if !set {
			o = append(o, jsonx.KV{K: k, V: v})
		}
		return o
	}
	ints := func(n int) []any {
		var a []any
		for k := 0; k < n; k++ {
			a = append(a, jsonx.N(int64(k)))
		}
		return a
	}
	strs := func(n int) []any {
		var a []any
		for k := 0; k < n; k++ {
			a = append(a, fmt.Sprintf("s%d", k))
		}
		return a
	}
	add := func(class string, o jsonx.Obj) {
		c.Docs = append(c.Docs, docgen.Doc{V: o, Class: class, Label: "ext-field"})
	}
	add("valid", base)
	for _, v := range []int64{0, 1, 10, 11} {
		add("bound", with("attempts", jsonx.N(v)))
	}
	for _, v := range []string{"a", "ab", "abcd", "abcde"} {
		add("string", with("code", v))
	}
	for _, n := range []int{1, 2, 3, 4} {
		add("items", with("labels", strs(n)))
	}
	for _, g := range [][]any{{}, {ints(1)}, {ints(1), ints(2)}, {ints(1), ints(1), ints(1)}, {ints(1), ints(0)}, {ints(3)}} {
		add("items", with("grid", g))
	}
	add("nullok", with("grid", nil))
	for _, v := range []string{"0", "0.5", "1", "1.5"} {
		add("bound", with("load", jsonx.Num(v)))
		add("bound", with("ratio", jsonx.Num(v)))
	}
	for _, v := range []int64{5, 7, 0} {
		add("bound", with("step", jsonx.N(v)))
	}
	for _, v := range []int64{5, 6} {
		add("bound", with("weight", jsonx.N(v)))
	}
	add("string", with("name", ""))
	add("required", jsonx.Obj{{K: "name", V: "n"}})
	add("required", jsonx.Obj{{K: "labels", V: []any{"a", "b"}}})
	return c
}

// refObjectDefaultCase: a property that refers to an object definition and states a default next to the reference,
// the definition carrying (or not) a type-level default of its own with OTHER values: absent and null take the
// property's default, never the definition's; a second property refers to the same definition without a default.
func refObjectDefaultCase(i int) *sem.Case {
	limits := &sg.Schema{Types: []string{"object"}, Props: []sg.Prop{{Name: "burst", S: &sg.Schema{Types: []string{"integer"}}}, {Name: "rate", S: &sg.Schema{Types: []string{"integer"}}}}, Required: []string{"burst", "rate"}}
	own := jsonx.Obj{{K: "burst", V: jsonx.N(10)}, {K: "rate", V: jsonx.N(100)}}
	prop := jsonx.Obj{{K: "burst", V: jsonx.N(1)}, {K: "rate", V: jsonx.N(5)}}
	switch i % 3 {
	case 0:
		limits.Default, limits.HasDefault = own, true
	case 1:
		limits.Default, limits.HasDefault = prop, true // the same values on both nodes
	}
	root := &sg.Schema{Types: []string{"object"}, Defs: []sg.Prop{{Name: "Limits", S: limits}}, Props: []sg.Prop{
		{Name: "limits", S: &sg.Schema{Ref: "#/$defs/Limits", Target: limits, Default: prop, HasDefault: true}},
		{Name: "name", S: &sg.Schema{Types: []string{"string"}}},
	}}
	if (i/3)%2 == 1 {
		root.Props = append(root.Props, sg.Prop{Name: "other", S: &sg.Schema{Ref: "#/$defs/Limits", Target: limits, Default: jsonx.Obj{{K: "burst", V: jsonx.N(2)}, {K: "rate", V: jsonx.N(3)}}, HasDefault: true}},
			sg.Prop{Name: "plain", S: &sg.Schema{Ref: "#/$defs/Limits", Target: limits}})
	}
	c := &sem.Case{Root: root, Sig: fmt.Sprintf("ref-object-default/%d", i%6), NoAuto: true}
	given := jsonx.Obj{{K: "burst", V: jsonx.N(7)}, {K: "rate", V: jsonx.N(8)}}
	for _, d := range []jsonx.Obj{{}, {{K: "limits", V: nil}}, {{K: "name", V: "x"}}, {{K: "limits", V: given}}, {{K: "limits", V: given}, {K: "other", V: given}, {K: "plain", V: given}}, {{K: "plain", V: given}}} {
		ok := true
		for _, kv := range d {
			ok = ok && root.Prop(kv.K) != nil
		}
		if ok {
			c.Docs = append(c.Docs, docgen.Doc{V: d, Class: "default", Label: "ref-object-default"})
		}
	}
	return c
}

// formatEnumCase: string enums that also carry a format annotation (date, time, date-time, ipv4, ipv6), typed and
// untyped, next to plain format strings of the same kinds (so that the format's Go package is imported anyway):
// every listed value is accepted and re-marshals to itself, everything else is rejected.
func formatEnumCase(i int) *sem.Case {
	kinds := []struct {
		format string
		vals   []string
		non    []string
	}{
		{"date", []string{"2024-01-01", "2024-12-25"}, []string{"2024-01-02", "x"}},
		{"ipv4", []string{"10.0.0.1", "10.0.0.254"}, []string{"10.0.0.2", "gw"}},
		{"date-time", []string{"2024-01-01T00:00:00Z", "2024-06-30T12:30:00Z"}, []string{"2024-01-01T00:00:01Z"}},
		{"time", []string{"08:00:00", "17:30:00"}, []string{"09:00:00"}},
		{"ipv6", []string{"::1", "fe80::1"}, []string{"::2"}},
	}
	k := kinds[i%len(kinds)]
	mk := func(typed bool) *sg.Schema {
		s := &sg.Schema{HasEnum: true, Format: k.format}
		for _, v := range k.vals {
			s.Enum = append(s.Enum, v)
		}
		if typed {
			s.Types = []string{"string"}
		}
		return s
	}
	typed := (i/len(kinds))%2 == 1
	def := mk(typed)
	root := &sg.Schema{Types: []string{"object"}, Defs: []sg.Prop{{Name: "Choice", S: def}}, Props: []sg.Prop{
		{Name: "pick", S: mk(typed)}, {Name: "viaDef", S: &sg.Schema{Ref: "#/$defs/Choice", Target: def}}, {Name: "list", S: &sg.Schema{Types: []string{"array"}, Items: mk(typed)}},
		{Name: "plain", S: &sg.Schema{Types: []string{"string"}, Format: k.format}}}}
	c := &sem.Case{Root: root, Sig: fmt.Sprintf("format-enum/%s/%v", k.format, typed), NoAuto: true}
	for _, key := range []string{"pick", "viaDef"} {
		for _, v := range k.vals {
			c.Docs = append(c.Docs, docgen.Doc{V: jsonx.Obj{{K: key, V: v}}, Class: "enum", Label: "member"})
		}
		for _, v := range k.non {
			c.Docs = append(c.Docs, docgen.Doc{V: jsonx.Obj{{K: key, V: v}}, Class: "enum", Label: "non-member"})
		}
	}
	c.Docs = append(c.Docs, docgen.Doc{V: jsonx.Obj{{K: "list", V: []any{k.vals[0], k.vals[1]}}}, Class: "enum", Label: "members"},
		docgen.Doc{V: jsonx.Obj{{K: "list", V: []any{k.vals[0], k.non[0]}}}, Class: "enum", Label: "non-member"},
		docgen.Doc{V: jsonx.Obj{{K: "plain", V: k.vals[0]}, {K: "pick", V: k.vals[1]}}, Class: "enum", Label: "member"})
	return c
}

// oddRequiredNameCase: required properties whose names are unusual but legal JSON keys (the empty string, "-", a
// comma, blanks, non-ASCII letters, symbols), at the root, in a nested object and in array elements: a document
// that omits exactly one of them is rejected, one that has them all is accepted.
func oddRequiredNameCase(i int) *sem.Case {
	pools := [][]string{{"", "en"}, {"-", "plain"}, {"com,ma", "x"}, {" ", "a b"}, {"ünï", "日本"}, {"😀", "x²"}, {"", "-", " "}, {"$", "@type", "#"}}
	names := pools[i%len(pools)]
	mk := func() *sg.Schema {
		o := &sg.Schema{Types: []string{"object"}}
		for _, n := range names {
			o.Props = append(o.Props, sg.Prop{Name: n, S: &sg.Schema{Types: []string{"string"}}})
			o.Required = append(o.Required, n)
		}
		o.Props = append(o.Props, sg.Prop{Name: "opt", S: &sg.Schema{Types: []string{"string"}}})
		return o
	}
	root := mk()
	root.Props = append(root.Props, sg.Prop{Name: "nested", S: mk()}, sg.Prop{Name: "list", S: &sg.Schema{Types: []string{"array"}, Items: mk()}})
	c := &sem.Case{Root: root, Sig: fmt.Sprintf("odd-required-name/%d", i%len(pools)), NoAuto: true}
	full := func(skip int) jsonx.Obj {
		o := jsonx.Obj{}
		for k, n := range names {
			if k != skip {
				o = append(o, jsonx.KV{K: n, V: "v"})
			}
		}
		return o
	}
	c.Docs = append(c.Docs, docgen.Doc{V: full(-1), Class: "valid", Label: "all"}, docgen.Doc{V: append(full(-1), jsonx.KV{K: "nested", V: full(-1)}, jsonx.KV{K: "list", V: []any{full(-1), full(-1)}}), Class: "valid", Label: "all-everywhere"})
	for k := range names {
		c.Docs = append(c.Docs, docgen.Doc{V: full(k), Class: "required", Label: "root"},
			docgen.Doc{V: append(full(-1), jsonx.KV{K: "nested", V: full(k)}), Class: "required", Label: "nested"},
			docgen.Doc{V: append(full(-1), jsonx.KV{K: "list", V: []any{full(-1), full(k)}}), Class: "required", Label: "element"})
	}
	return c
}

// mixinBranchCase: allOf with a member that states no type and no properties but constrains the object all the
// same - the "required-only mixin" {"required":["email"]} (also with a description, first or last, inline base or
// $ref base, two mixins): the merged object requires the mixin's keys as well. The verdicts are stated (the model
// abstains on type-less schemas with object keywords).
func mixinBranchCase(i int) *sem.Case {
	str := func() *sg.Schema { return &sg.Schema{Types: []string{"string"}} }
	contact := &sg.Schema{Types: []string{"object"}, Props: []sg.Prop{{Name: "name", S: str()}, {Name: "email", S: str()}, {Name: "phone", S: str()}}, Required: []string{"name"}}
	mixin := &sg.Schema{Required: []string{"email"}}
	if i%2 == 1 {
		mixin.Desc = "contacts that can be mailed"
	}
	var base *sg.Schema = contact
	root := &sg.Schema{Types: []string{"object"}}
	if (i/2)%2 == 1 {
		root.Defs = []sg.Prop{{Name: "contact", S: contact}}
		base = &sg.Schema{Ref: "#/$defs/contact", Target: contact}
	}
	members := []*sg.Schema{base, mixin}
	need := []string{"name", "email"}
	switch (i / 4) % 3 {
	case 1:
		members = []*sg.Schema{mixin, base}
	case 2:
		members = []*sg.Schema{base, mixin, {Required: []string{"phone"}}}
		need = append(need, "phone")
	}
	root.Props = []sg.Prop{{Name: "billing", S: &sg.Schema{AllOf: members}},
		{Name: "shipping", S: &sg.Schema{AllOf: []*sg.Schema{{Ref: "#/$defs/contact2", Target: contact}, {Types: []string{"object"}, Required: []string{"email"}}}}}}
	root.Defs = append(root.Defs, sg.Prop{Name: "contact2", S: contact})
	c := &sem.Case{Root: root, Sig: fmt.Sprintf("mixin-branch/%d", i%12), NoAuto: true}
	keys := []string{"name", "email", "phone"}
	for m := 0; m < 8; m++ {
		o := jsonx.Obj{}
		has := map[string]bool{}
		for k, n := range keys {
			if m&(1<<uint(k)) != 0 {
				o = append(o, jsonx.KV{K: n, V: "v-" + n})
				has[n] = true
			}
		}
		st := "accept"
		for _, n := range need {
			if !has[n] {
				st = "reject"
			}
		}
		c.Docs = append(c.Docs, docgen.Doc{V: jsonx.Obj{{K: "billing", V: o}}, Class: "required", Label: "mixin", Stated: st})
		st2 := "accept"
		if !has["name"] || !has["email"] {
			st2 = "reject"
		}
		c.Docs = append(c.Docs, docgen.Doc{V: jsonx.Obj{{K: "shipping", V: o}}, Class: "required", Label: "typed-control", Stated: st2})
	}
	return c
}

// caseIdentifierCase: goJSONSchema identifiers that only re-capitalize the property name (id -> ID, url -> URL, sku ->
// SKU) next to one that renames it altogether: the Go field changes, the JSON / YAML key does not - both decoding
// paths bind the document's key, check it and keep its value.
func caseIdentifierCase(i int) *sem.Case {
	ident := func(n string) jsonx.Obj { return jsonx.Obj{{K: "identifier", V: n}} }
	root := &sg.Schema{Types: []string{"object"}, Required: []string{"id"}, Props: []sg.Prop{
		{Name: "id", S: &sg.Schema{Types: []string{"string"}, MinLen: 1, Ext: ident("ID")}},
		{Name: "sku", S: &sg.Schema{Types: []string{"string"}, MinLen: 3, Ext: ident("SKU")}},
		{Name: "url", S: &sg.Schema{Types: []string{"string"}, Pattern: "^https?://", Ext: ident("URL")}},
		{Name: "retries", S: &sg.Schema{Types: []string{"integer"}, Min: sg.Fp(0), Ext: ident("RETRIES")}},
		{Name: "displayName", S: &sg.Schema{Types: []string{"string"}, MaxLen: 5, Ext: ident("Label")}},
		{Name: "httpPort", S: &sg.Schema{Types: []string{"integer"}, Max: sg.Fp(65535), Ext: ident("HTTPPort")}},
	}}
	if i%2 == 1 {
		nested := &sg.Schema{Types: []string{"object"}, Props: root.Props, Required: root.Required}
		root = &sg.Schema{Types: []string{"object"}, Props: []sg.Prop{{Name: "item", S: nested}, {Name: "items", S: &sg.Schema{Types: []string{"array"}, Items: nested}}}}
	}
	c := &sem.Case{Root: root, Sig: fmt.Sprintf("case-identifier/%d", i%2), NoAuto: true, Args: []string{"--extra-imports"}}
	wrap := func(o jsonx.Obj) jsonx.Obj {
		if i%2 == 1 {
			return jsonx.Obj{{K: "item", V: o}, {K: "items", V: []any{o}}}
		}
		return o
	}
	full := jsonx.Obj{{K: "id", V: "abc-1"}, {K: "sku", V: "SKU-9"}, {K: "url", V: "https://x"}, {K: "retries", V: jsonx.N(2)}, {K: "displayName", V: "Ann"}, {K: "httpPort", V: jsonx.N(8080)}}
	c.Docs = append(c.Docs, docgen.Doc{V: wrap(full), Class: "valid", Label: "all"}, docgen.Doc{V: wrap(jsonx.Obj{{K: "id", V: "i"}}), Class: "valid", Label: "minimal"})
	for _, f := range []struct {
		k, class string
		v        any
	}{{"sku", "string", "ab"}, {"url", "string", "ftp://x"}, {"retries", "bound", jsonx.N(-1)}, {"displayName", "string", "toolong"}, {"httpPort", "bound", jsonx.N(70000)}, {"id", "string", ""}} {
		o := jsonx.Obj{}
		for _, kv := range full {
			if kv.K == f.k {
				o = append(o, jsonx.KV{K: f.k, V: f.v})
			} else {
				o = append(o, kv)
			}
		}
		c.Docs = append(c.Docs, docgen.Doc{V: wrap(o), Class: f.class, Label: "single-fault"})
	}
	c.Docs = append(c.Docs, docgen.Doc{V: wrap(jsonx.Obj{{K: "sku", V: "SKU-9"}}), Class: "required", Label: "no-id"})
	return c
}

// anyOfAliasCollisionCase: an anyOf whose members given by reference are declared as aliases <Type>_<i>, next to
// sibling properties whose names normalise to the same identifier (their fields are renamed X_2, X_3 and their
// types follow): every declaration keeps a name of its own and every key its own schema.
func anyOfAliasCollisionCase(i int) *sem.Case {
	names := [][]string{{"a:b", "aB", "a;b"}, {"net addr", "net-addr", "net_addr", "netAddr"}, {"x y", "xY", "x-y", "x_y", "X Y"}}[i%3]
	d1 := &sg.Schema{Types: []string{"object"}, Props: []sg.Prop{{Name: "k1", S: &sg.Schema{Types: []string{"boolean"}}}}, Required: []string{"k1"}}
	d2 := &sg.Schema{Types: []string{"object"}, Props: []sg.Prop{{Name: "k2", S: &sg.Schema{Types: []string{"string"}, MinLen: 2}}}, Required: []string{"k2"}}
	d3 := &sg.Schema{Types: []string{"object"}, Props: []sg.Prop{{Name: "k3", S: &sg.Schema{Types: []string{"integer"}, Min: sg.Fp(1)}}}, Required: []string{"k3"}}
	inline := func() *sg.Schema {
		return &sg.Schema{Types: []string{"object"}, Props: []sg.Prop{{Name: "in", S: &sg.Schema{Types: []string{"string"}}}}, Required: []string{"in"}}
	}
	ref := func(n string, t *sg.Schema) *sg.Schema { return &sg.Schema{Ref: "#/$defs/" + n, Target: t} }
	members := [][]*sg.Schema{
		{ref("Def1", d1), inline(), ref("Def2", d2)},
		{ref("Def1", d1), ref("Def2", d2), ref("Def3", d3)},
		{inline(), ref("Def1", d1), ref("Def2", d2), ref("Def3", d3)},
	}[(i/3)%3]
	root := &sg.Schema{Types: []string{"object"}, Defs: []sg.Prop{{Name: "Def1", S: d1}, {Name: "Def2", S: d2}, {Name: "Def3", S: d3}}}
	root.Props = append(root.Props, sg.Prop{Name: names[0], S: &sg.Schema{Types: []string{"object"}, AnyOf: members}})
	c := &sem.Case{Root: root, Sig: fmt.Sprintf("anyof-alias-collision/%d", i%9), NoAuto: true}
	for k, n := range names[1:] {
		key := fmt.Sprintf("own%d", k)
		root.Props = append(root.Props, sg.Prop{Name: n, S: &sg.Schema{Types: []string{"object"}, Props: []sg.Prop{{Name: key, S: &sg.Schema{Types: []string{"string"}, MinLen: 1}}}, Required: []string{key}}})
		c.Docs = append(c.Docs, docgen.Doc{V: jsonx.Obj{{K: n, V: jsonx.Obj{{K: key, V: "v"}}}}, Class: "collision", Label: "own-schema"},
			docgen.Doc{V: jsonx.Obj{{K: n, V: jsonx.Obj{{K: "k1", V: true}}}}, Class: "collision", Label: "other-schema"})
	}
	for _, v := range []jsonx.Obj{{{K: "k1", V: true}}, {{K: "k2", V: "ab"}}, {{K: "in", V: "x"}}, {{K: "own0", V: "v"}}, {}} {
		c.Docs = append(c.Docs, docgen.Doc{V: jsonx.Obj{{K: names[0], V: v}}, Class: "collision", Label: "anyof"})
	}
	return c
}

// allOfDefaultCase: a definition whose properties carry defaults (integer array, string array, scalar, enum), used
// on its own AND merged through allOf[$ref, {...}] (the composed struct visits the same property nodes a second
// time): absent and null take the default in the composed object exactly as in the plain one.
func allOfDefaultCase(i int) *sem.Case {
	listener := &sg.Schema{Types: []string{"object"}, Props: []sg.Prop{
		{Name: "ports", S: &sg.Schema{Types: []string{"array"}, Items: &sg.Schema{Types: []string{"integer"}}, Default: []any{jsonx.N(80), jsonx.N(443)}, HasDefault: true}},
		{Name: "hosts", S: &sg.Schema{Types: []string{"array"}, Items: &sg.Schema{Types: []string{"string"}}, Default: []any{"a", "b"}, HasDefault: true}},
		{Name: "backlog", S: &sg.Schema{Types: []string{"integer"}, Default: jsonx.N(128), HasDefault: true}},
		{Name: "ratio", S: &sg.Schema{Types: []string{"number"}, Default: jsonx.Num("0.5"), HasDefault: true}},
		{Name: "mode", S: &sg.Schema{Types: []string{"string"}, HasEnum: true, Enum: []any{"tcp", "udp"}, Default: "tcp", HasDefault: true}},
		{Name: "on", S: &sg.Schema{Types: []string{"boolean"}, Default: true, HasDefault: true}},
	}}
	extra := &sg.Schema{Types: []string{"object"}, Props: []sg.Prop{{Name: "cert", S: &sg.Schema{Types: []string{"string"}}}}}
	root := &sg.Schema{Types: []string{"object"}, Defs: []sg.Prop{{Name: "listener", S: listener}}}
	ref := func() *sg.Schema { return &sg.Schema{Ref: "#/$defs/listener", Target: listener} }
	switch i % 3 {
	case 0:
		root.Props = []sg.Prop{{Name: "plain", S: ref()}, {Name: "secure", S: &sg.Schema{AllOf: []*sg.Schema{ref(), extra}}}}
	case 1:
		root.Props = []sg.Prop{{Name: "secure", S: &sg.Schema{AllOf: []*sg.Schema{ref(), extra}}}, {Name: "third", S: &sg.Schema{AllOf: []*sg.Schema{extra, ref()}}}}
	case 2:
		root.Props = []sg.Prop{{Name: "a_first", S: &sg.Schema{AllOf: []*sg.Schema{ref(), extra}}}, {Name: "plain", S: ref()}, {Name: "z_last", S: &sg.Schema{AllOf: []*sg.Schema{ref(), {Types: []string{"object"}, Props: []sg.Prop{{Name: "key", S: &sg.Schema{Types: []string{"string"}}}}}}}}}
	}
	c := &sem.Case{Root: root, Sig: fmt.Sprintf("allof-default/%d", i%3), NoAuto: true}
	for _, p := range root.Props {
		c.Docs = append(c.Docs, docgen.Doc{V: jsonx.Obj{{K: p.Name, V: jsonx.Obj{}}}, Class: "default", Label: "all-absent"},
			docgen.Doc{V: jsonx.Obj{{K: p.Name, V: jsonx.Obj{{K: "ports", V: nil}, {K: "backlog", V: nil}}}}, Class: "default", Label: "null"},
			docgen.Doc{V: jsonx.Obj{{K: p.Name, V: jsonx.Obj{{K: "ports", V: []any{jsonx.N(1)}}, {K: "hosts", V: []any{}}, {K: "backlog", V: jsonx.N(0)}, {K: "mode", V: "udp"}, {K: "on", V: false}}}}, Class: "default", Label: "present"})
	}
	return c
}

// titledNestedArrayCase: arrays nested two and three deep whose inner arrays (and element objects / enums) carry a
// title, generated with --struct-name-from-title (and without): the length limits of every level stay in force.
// All levels state the same limits (recorded finding outer-array-limits: inner levels are checked against the
// outer level's numbers).
func titledNestedArrayCase(i int) *sem.Case {
	lim := func(s *sg.Schema) *sg.Schema { s.MinItems, s.MaxItems = 1, 3; return s }
	intS := &sg.Schema{Types: []string{"integer"}}
	row := lim(&sg.Schema{Types: []string{"array"}, Items: intS, Title: "Row"})
	var rows *sg.Schema
	switch i % 3 {
	case 0:
		rows = lim(&sg.Schema{Types: []string{"array"}, Items: row})
	case 1:
		plane := lim(&sg.Schema{Types: []string{"array"}, Items: row, Title: "Plane"})
		rows = lim(&sg.Schema{Types: []string{"array"}, Items: plane})
	case 2:
		cell := &sg.Schema{Types: []string{"object"}, Title: "Cell", Props: []sg.Prop{{Name: "v", S: intS}}, Required: []string{"v"}}
		rows = lim(&sg.Schema{Types: []string{"array"}, Items: lim(&sg.Schema{Types: []string{"array"}, Items: cell, Title: "Cells"})})
	}
	root := &sg.Schema{Types: []string{"object"}, Title: "Grid", Props: []sg.Prop{{Name: "rows", S: rows}, {Name: "name", S: &sg.Schema{Types: []string{"string"}}}}}
	c := &sem.Case{Root: root, Sig: fmt.Sprintf("titled-nested-array/%d", i%6), NoAuto: true}
	if (i/3)%2 == 0 {
		c.Args = []string{"--struct-name-from-title"}
		c.RootType = "Grid"
	}
	leaf := func(n int) []any {
		var a []any
		for k := 0; k < n; k++ {
			if i%3 == 2 {
				a = append(a, jsonx.Obj{{K: "v", V: jsonx.N(int64(k))}})
			} else {
				a = append(a, jsonx.N(int64(k)))
			}
		}
		if a == nil {
			a = []any{}
		}
		return a
	}
	wrap := func(inner []any) any {
		if i%3 == 1 {
			return []any{[]any{inner}}
		}
		return []any{inner}
	}
	for _, n := range []int{0, 1, 3, 4} {
		c.Docs = append(c.Docs, docgen.Doc{V: jsonx.Obj{{K: "rows", V: wrap(leaf(n))}}, Class: "items", Label: fmt.Sprintf("innermost-%d", n)})
	}
	for _, n := range []int{0, 1, 3, 4} {
		var outer []any
		for k := 0; k < n; k++ {
			if i%3 == 1 {
				outer = append(outer, []any{leaf(1)})
			} else {
				outer = append(outer, leaf(1))
			}
		}
		if outer == nil {
			outer = []any{}
		}
		c.Docs = append(c.Docs, docgen.Doc{V: jsonx.Obj{{K: "rows", V: outer}}, Class: "items", Label: fmt.Sprintf("outer-%d", n)})
	}
	if i%3 == 1 {
		for _, n := range []int{0, 4} {
			var mid []any
			for k := 0; k < n; k++ {
				mid = append(mid, leaf(1))
			}
			if mid == nil {
				mid = []any{}
			}
			c.Docs = append(c.Docs, docgen.Doc{V: jsonx.Obj{{K: "rows", V: []any{mid}}}, Class: "items", Label: fmt.Sprintf("middle-%d", n)})
		}
	}
	c.Docs = append(c.Docs, docgen.Doc{V: jsonx.Obj{{K: "name", V: "n"}}, Class: "valid", Label: "absent"})
	return c
}

// ignoredKeywordCase: keywords of newer drafts that the generator does not implement (dependentRequired,
// dependentSchemas, propertyNames - also with a pattern that only ECMA-262 can compile -, min/maxProperties,
// if/then/else, not, const, contains, uniqueItems, unevaluatedProperties, content*, unknown formats), each next to an
// ordinary object schema. The documents are valid under the FULL meaning of the keyword (so they stay valid whatever
// is made of it) or break a keyword that is implemented (required, type): verdicts do not depend on the extra keyword.
func ignoredKeywordCase(i int) *sem.Case {
	str := func() *sg.Schema { return &sg.Schema{Types: []string{"string"}} }
	kws := []jsonx.Obj{
		{{K: "dependentRequired", V: jsonx.Obj{{K: "credit_card", V: []any{"billing_address"}}}}},
		{{K: "dependentRequired", V: jsonx.Obj{{K: "billing_address", V: []any{"name"}}, {K: "credit_card", V: []any{"billing_address", "name"}}}}},
		{{K: "dependentSchemas", V: jsonx.Obj{{K: "credit_card", V: jsonx.Obj{{K: "required", V: []any{"billing_address"}}}}}}},
		{{K: "dependencies", V: jsonx.Obj{{K: "credit_card", V: jsonx.Obj{{K: "required", V: []any{"billing_address"}}}}}}},
		{{K: "propertyNames", V: jsonx.Obj{{K: "pattern", V: "^(?!_)[a-z_]+$"}}}},
		{{K: "propertyNames", V: jsonx.Obj{{K: "pattern", V: "^[a-z_]+$"}, {K: "maxLength", V: jsonx.N(30)}}}},
		{{K: "minProperties", V: jsonx.N(1)}, {K: "maxProperties", V: jsonx.N(10)}},
		{{K: "if", V: jsonx.Obj{{K: "required", V: []any{"credit_card"}}}}, {K: "then", V: jsonx.Obj{{K: "required", V: []any{"billing_address"}}}}, {K: "else", V: jsonx.Obj{}}},
		{{K: "not", V: jsonx.Obj{{K: "required", V: []any{"forbidden"}}}}},
		{{K: "unevaluatedProperties", V: true}},
		{{K: "patternProperties", V: jsonx.Obj{{K: "^x_", V: jsonx.Obj{{K: "type", V: "string"}}}}}},
	}
	kw := kws[i%len(kws)]
	obj := &sg.Schema{Types: []string{"object"}, Props: []sg.Prop{{Name: "name", S: str()}, {Name: "credit_card", S: str()}, {Name: "billing_address", S: str()},
		{Name: "kind", S: &sg.Schema{Types: []string{"string"}, Extra: jsonx.Obj{{K: "const", V: "card"}}}},
		{Name: "mail", S: &sg.Schema{Types: []string{"string"}, Format: "email", Extra: jsonx.Obj{{K: "contentMediaType", V: "text/plain"}}}},
		{Name: "uid", S: &sg.Schema{Types: []string{"string"}, Format: "uuid"}},
		// format names are case sensitive: these are unknown formats, i.e. annotations
		{Name: "when", S: &sg.Schema{Types: []string{"string"}, Format: "Date"}},
		{Name: "host", S: &sg.Schema{Types: []string{"string"}, Format: "IPv4"}},
		{Name: "stamp", S: &sg.Schema{Types: []string{"string", "null"}, Format: "DATE-TIME"}},
		{Name: "at", S: &sg.Schema{Types: []string{"string"}, Format: "Time"}},
		{Name: "tags", S: &sg.Schema{Types: []string{"array"}, Items: str(), Extra: jsonx.Obj{{K: "uniqueItems", V: true}, {K: "contains", V: jsonx.Obj{{K: "const", V: "a"}}}, {K: "minContains", V: jsonx.N(1)}}}},
		{Name: "labels", S: &sg.Schema{Types: []string{"object"}, AddProps: str(), Extra: jsonx.Obj{{K: "propertyNames", V: jsonx.Obj{{K: "pattern", V: "^(?!_)[a-z_]+$"}}}}}},
	}, Required: []string{"name", "billing_address"}, Extra: kw}
	root := obj
	if (i/len(kws))%2 == 1 {
		root = &sg.Schema{Types: []string{"object"}, Defs: []sg.Prop{{Name: "Payment", S: obj}}, Props: []sg.Prop{{Name: "payment", S: &sg.Schema{Ref: "#/$defs/Payment", Target: obj}}, {Name: "history", S: &sg.Schema{Types: []string{"array"}, Items: &sg.Schema{Ref: "#/$defs/Payment", Target: obj}}}}}
	}
	c := &sem.Case{Root: root, Sig: fmt.Sprintf("ignored-keyword/%d", i%len(kws))}
	c.NoAuto = true
	wrap := func(o jsonx.Obj) jsonx.Obj {
		if root != obj {
			return jsonx.Obj{{K: "payment", V: o}, {K: "history", V: []any{o}}}
		}
		return o
	}
	valid := []jsonx.Obj{
		{{K: "name", V: "Ann"}, {K: "billing_address", V: "1 Main St"}},
		{{K: "name", V: "Ann"}, {K: "billing_address", V: "1 Main St"}, {K: "credit_card", V: "4111"}, {K: "kind", V: "card"}, {K: "mail", V: "a@b.example"}, {K: "uid", V: "123e4567-e89b-12d3-a456-426614174000"}},
		{{K: "name", V: "Ann"}, {K: "billing_address", V: "1 Main St"}, {K: "tags", V: []any{"a", "b"}}, {K: "labels", V: jsonx.Obj{{K: "team", V: "x"}, {K: "cost_center", V: "y"}}}},
		{{K: "name", V: "Ann"}, {K: "billing_address", V: "1 Main St"}, {K: "labels", V: jsonx.Obj{}}, {K: "tags", V: []any{"a"}}},
		{{K: "name", V: "Ann"}, {K: "billing_address", V: "1 Main St"}, {K: "when", V: "next tuesday"}, {K: "host", V: "localhost"}, {K: "stamp", V: "soon"}, {K: "at", V: "noon"}},
		{{K: "name", V: "Ann"}, {K: "billing_address", V: "1 Main St"}, {K: "when", V: "2024-02-29"}, {K: "host", V: "10.0.0.1"}, {K: "stamp", V: nil}, {K: "at", V: "10:00:00"}},
	}
	for _, v := range valid {
		c.Docs = append(c.Docs, docgen.Doc{V: wrap(v), Class: "valid", Label: "valid-under-the-full-keyword"})
	}
	for _, v := range []jsonx.Obj{{{K: "name", V: "Ann"}}, {{K: "billing_address", V: "1 Main St"}, {K: "credit_card", V: "4111"}}, {}} {
		c.Docs = append(c.Docs, docgen.Doc{V: wrap(v), Class: "required", Label: "implemented-keyword-broken"})
	}
	c.Docs = append(c.Docs, docgen.Doc{V: wrap(jsonx.Obj{{K: "name", V: jsonx.N(5)}, {K: "billing_address", V: "x"}}), Class: "type", Label: "implemented-keyword-broken"})
	return c
}

// refEnumCase: an enum written next to a $ref (an enum narrowing a referenced string type; legal since 2019-09) as a
// property, as the items of a named and of an inline array, and as the values of a named map. The members satisfy
// the referenced type, the non-members are rejected under either reading of the siblings: verdicts are stated.
func refEnumCase(i int) *sem.Case {
	name := &sg.Schema{Types: []string{"string"}, MinLen: 1}
	members := [][]any{{"red", "green", "blue"}, {"a"}, {"x", "y"}}[i%3]
	narrowed := func() *sg.Schema { return &sg.Schema{Ref: "#/$defs/Name", Target: name, HasEnum: true, Enum: members} }
	accents := &sg.Schema{Types: []string{"array"}, Items: narrowed()}
	byRole := &sg.Schema{Types: []string{"object"}, AddProps: narrowed()}
	root := &sg.Schema{Types: []string{"object"}, Defs: []sg.Prop{{Name: "Name", S: name}, {Name: "Accents", S: accents}, {Name: "ByRole", S: byRole}},
		Props: []sg.Prop{{Name: "primary", S: narrowed()}, {Name: "accents", S: &sg.Schema{Ref: "#/$defs/Accents", Target: accents}}, {Name: "byRole", S: &sg.Schema{Ref: "#/$defs/ByRole", Target: byRole}},
			{Name: "inlineList", S: &sg.Schema{Types: []string{"array"}, Items: narrowed()}}, {Name: "plain", S: &sg.Schema{Ref: "#/$defs/Name", Target: name}}}}
	c := &sem.Case{Root: root, Sig: fmt.Sprintf("ref-enum/%d", i%3), NoAuto: true}
	m0 := members[0].(string)
	add := func(o jsonx.Obj, st string) {
		c.Docs = append(c.Docs, docgen.Doc{V: o, Class: "enum", Label: "ref-enum", Stated: st})
	}
	for _, v := range []struct {
		val string
		st  string
	}{{m0, "accept"}, {"purple", "reject"}, {"", "reject"}} {
		add(jsonx.Obj{{K: "primary", V: v.val}}, v.st)
		add(jsonx.Obj{{K: "accents", V: []any{m0, v.val}}}, v.st)
		add(jsonx.Obj{{K: "byRole", V: jsonx.Obj{{K: "warn", V: v.val}}}}, v.st)
		add(jsonx.Obj{{K: "inlineList", V: []any{v.val}}}, v.st)
	}
	add(jsonx.Obj{{K: "plain", V: "purple"}, {K: "primary", V: m0}}, "accept")
	return c
}

// caseDefCompositionCase: definitions whose names differ in letter case only (item / Item / ITEM, each with members
// and required keys of its own) referred to through allOf / anyOf members (the path that resolves references ahead
// of the merge), in every order: each property keeps the schema of the definition it names.
func caseDefCompositionCase(i int) *sem.Case {
	names := [][]string{{"item", "Item", "ITEM"}, {"userId", "userid", "UserID"}, {"aB", "Ab", "ab"}}[i%3]
	order := [][]int{{0, 1, 2}, {2, 1, 0}, {1, 0, 2}, {1, 2, 0}}[(i/3)%4]
	root := &sg.Schema{Types: []string{"object"}}
	c := &sem.Case{Root: root, Sig: fmt.Sprintf("case-def-composition/%d", i%12), NoAuto: true}
	defs := make([]*sg.Schema, 3)
	for k := range names {
		key := fmt.Sprintf("k%d", k)
		defs[k] = &sg.Schema{Types: []string{"object"}, Props: []sg.Prop{{Name: key, S: &sg.Schema{Types: []string{"string"}, MinLen: 1}}, {Name: "n", S: &sg.Schema{Types: []string{"integer"}}}}, Required: []string{key}}
		root.Defs = append(root.Defs, sg.Prop{Name: names[k], S: defs[k]})
	}
	for pos, k := range order {
		ref := &sg.Schema{Ref: "#/$defs/" + names[k], Target: defs[k]}
		var comp *sg.Schema
		switch (pos + i) % 3 {
		case 0:
			comp = &sg.Schema{AllOf: []*sg.Schema{ref}}
		case 1:
			comp = &sg.Schema{AllOf: []*sg.Schema{ref, {Types: []string{"object"}, Props: []sg.Prop{{Name: "extra", S: &sg.Schema{Types: []string{"boolean"}}}}}}}
		case 2:
			comp = &sg.Schema{AnyOf: []*sg.Schema{ref, {Types: []string{"object"}, Props: []sg.Prop{{Name: "other", S: &sg.Schema{Types: []string{"string"}}}}, Required: []string{"other"}}}}
		}
		pn := fmt.Sprintf("p%d", pos)
		root.Props = append(root.Props, sg.Prop{Name: pn, S: comp})
		own := fmt.Sprintf("k%d", k)
		c.Docs = append(c.Docs, docgen.Doc{V: jsonx.Obj{{K: pn, V: jsonx.Obj{{K: own, V: "v"}, {K: "n", V: jsonx.N(3)}}}}, Class: "collision", Label: "own-schema"})
		if (pos+i)%3 != 2 {
			c.Docs = append(c.Docs, docgen.Doc{V: jsonx.Obj{{K: pn, V: jsonx.Obj{{K: fmt.Sprintf("k%d", (k+1)%3), V: "v"}}}}, Class: "collision", Label: "other-schema"},
				docgen.Doc{V: jsonx.Obj{{K: pn, V: jsonx.Obj{}}}, Class: "collision", Label: "empty"})
		}
	}
	return c
}

// draftNumericCase: numeric schemas that state their own "$schema" (draft-04, -06, -07, 2019-09, 2020-12) - as the root
// of a referenced file and as a definition that embeds the keyword - with exclusive bounds in the numeric and in the
// boolean form: the declared draft does not change what a stated bound means.
func draftNumericCase(i int) *sem.Case {
	drafts := []string{"http://json-schema.org/draft-04/schema#", "http://json-schema.org/draft-06/schema#", "http://json-schema.org/draft-07/schema#", "https://json-schema.org/draft/2019-09/schema", "https://json-schema.org/draft/2020-12/schema"}
	d := drafts[i%len(drafts)]
	port := &sg.Schema{Version: d, Types: []string{"integer"}, ExMin: 0.0, Max: sg.Fp(65535)}
	ratio := &sg.Schema{Version: d, Types: []string{"number"}, Min: sg.Fp(0), ExMax: 1.0}
	percent := &sg.Schema{Version: d, Types: []string{"integer"}, Min: sg.Fp(0), ExMax: 101.0}
	legacy := &sg.Schema{Version: d, Types: []string{"number"}, Min: sg.Fp(1), ExMin: true, Max: sg.Fp(9), ExMax: false}
	root := &sg.Schema{Version: drafts[(i+2)%len(drafts)], Types: []string{"object"}, Defs: []sg.Prop{{Name: "Percent", S: percent}, {Name: "Legacy", S: legacy}}, Props: []sg.Prop{
		{Name: "port", S: &sg.Schema{Ref: "port.json", Target: port}}, {Name: "load", S: &sg.Schema{Ref: "ratio.json", Target: ratio}},
		{Name: "cpu", S: &sg.Schema{Ref: "#/$defs/Percent", Target: percent}}, {Name: "old", S: &sg.Schema{Ref: "#/$defs/Legacy", Target: legacy}},
		{Name: "weight", S: &sg.Schema{Types: []string{"number"}, ExMin: 0.0, Max: sg.Fp(10)}}}}
	c := &sem.Case{Root: root, Sig: fmt.Sprintf("draft-numeric/%d", i%len(drafts)), NoAuto: true,
		Extra: []batch.File{{Path: "port.json", Data: jsonx.MarshalIndent(port.ToJSON())}, {Path: "ratio.json", Data: jsonx.MarshalIndent(ratio.ToJSON())}}}
	for _, kv := range []struct {
		k    string
		vals []string
	}{{"port", []string{"0", "1", "65535", "65536", "-3"}}, {"load", []string{"-0.5", "0", "0.5", "1", "7.5"}}, {"cpu", []string{"-1", "0", "100", "101", "4000"}}, {"old", []string{"1", "1.5", "9", "9.5"}}, {"weight", []string{"0", "0.5", "10", "10.5"}}} {
		for _, v := range kv.vals {
			c.Docs = append(c.Docs, docgen.Doc{V: jsonx.Obj{{K: kv.k, V: jsonx.Num(v)}}, Class: "bound", Label: "draft-numeric"})
		}
	}
	return c
}

// typedAllOfDefinitionCase: definitions that state "type":"object" and consist of an allOf (one or two members with
// validators, inline and by reference), referred to from a property, from array items and from another definition:
// one declaration, one unmarshaler, the conjunction enforced.
func typedAllOfDefinitionCase(i int) *sem.Case {
	m1 := func() *sg.Schema {
		return &sg.Schema{Types: []string{"object"}, Props: []sg.Prop{{Name: "id", S: &sg.Schema{Types: []string{"integer"}, Min: sg.Fp(1)}}}, Required: []string{"id"}}
	}
	m2 := func() *sg.Schema {
		return &sg.Schema{Types: []string{"object"}, Props: []sg.Prop{{Name: "label", S: &sg.Schema{Types: []string{"string"}, MinLen: 2}}}}
	}
	base := m1()
	var members []*sg.Schema
	switch i % 4 {
	case 0:
		members = []*sg.Schema{m1()}
	case 1:
		members = []*sg.Schema{m1(), m2()}
	case 2:
		members = []*sg.Schema{{Ref: "#/$defs/Base", Target: base}, m2()}
	case 3:
		members = []*sg.Schema{{Ref: "#/$defs/Base", Target: base}}
	}
	device := &sg.Schema{Types: []string{"object"}, AllOf: members}
	root := &sg.Schema{Types: []string{"object"}, Defs: []sg.Prop{{Name: "Base", S: base}, {Name: "Device", S: device}},
		Props: []sg.Prop{{Name: "dev", S: &sg.Schema{Ref: "#/$defs/Device", Target: device}}, {Name: "devs", S: &sg.Schema{Types: []string{"array"}, Items: &sg.Schema{Ref: "#/$defs/Device", Target: device}}}, {Name: "again", S: &sg.Schema{Ref: "#/$defs/Device", Target: device}}}}
	if (i/4)%2 == 1 {
		holder := &sg.Schema{Types: []string{"object"}, Props: []sg.Prop{{Name: "inner", S: &sg.Schema{Ref: "#/$defs/Device", Target: device}}}}
		root.Defs = append(root.Defs, sg.Prop{Name: "Holder", S: holder})
		root.Props = append(root.Props, sg.Prop{Name: "holder", S: &sg.Schema{Ref: "#/$defs/Holder", Target: holder}})
	}
	c := &sem.Case{Root: root, Sig: fmt.Sprintf("typed-allof-definition/%d", i%8), NoAuto: true}
	for _, d := range []jsonx.Obj{{{K: "id", V: jsonx.N(1)}}, {{K: "id", V: jsonx.N(0)}}, {}, {{K: "id", V: jsonx.N(2)}, {K: "label", V: "ab"}}, {{K: "id", V: jsonx.N(2)}, {K: "label", V: "a"}}, {{K: "label", V: "ab"}}} {
		c.Docs = append(c.Docs, docgen.Doc{V: jsonx.Obj{{K: "dev", V: d}}, Class: "required", Label: "typed-allof-definition"}, docgen.Doc{V: jsonx.Obj{{K: "devs", V: []any{d}}}, Class: "required", Label: "typed-allof-definition"})
		if root.Prop("holder") != nil {
			c.Docs = append(c.Docs, docgen.Doc{V: jsonx.Obj{{K: "holder", V: jsonx.Obj{{K: "inner", V: d}}}}, Class: "required", Label: "typed-allof-definition"})
		}
	}
	return c
}

// nestedSameDefCase: a composition that lists definition A next to a member whose own property is again a
// composition over A (allOf[$ref Address, $ref Customer] with Customer.billing = allOf[$ref Address]; also anyOf
// outside, inline members, two levels): nothing recurs here - the inner property keeps every rule of A.
func nestedSameDefCase(i int) *sem.Case {
	address := &sg.Schema{Types: []string{"object"}, Props: []sg.Prop{{Name: "street", S: &sg.Schema{Types: []string{"string"}, MinLen: 3}}, {Name: "zip", S: &sg.Schema{Types: []string{"string"}}}}, Required: []string{"zip"}}
	refA := func() *sg.Schema { return &sg.Schema{Ref: "#/$defs/Address", Target: address} }
	var billing *sg.Schema
	switch i % 3 {
	case 0:
		billing = &sg.Schema{AllOf: []*sg.Schema{refA()}}
	case 1:
		billing = &sg.Schema{AllOf: []*sg.Schema{refA(), {Types: []string{"object"}, Props: []sg.Prop{{Name: "vat", S: &sg.Schema{Types: []string{"string"}}}}}}}
	case 2:
		billing = &sg.Schema{AnyOf: []*sg.Schema{refA(), {Types: []string{"object"}, Props: []sg.Prop{{Name: "pobox", S: &sg.Schema{Types: []string{"integer"}}}}, Required: []string{"pobox"}}}}
	}
	customer := &sg.Schema{Types: []string{"object"}, Props: []sg.Prop{{Name: "name", S: &sg.Schema{Types: []string{"string"}}}, {Name: "billing", S: billing}}}
	root := &sg.Schema{Types: []string{"object"}, Defs: []sg.Prop{{Name: "Address", S: address}, {Name: "Customer", S: customer}}}
	var members []*sg.Schema
	switch (i / 3) % 3 {
	case 0:
		members = []*sg.Schema{refA(), {Ref: "#/$defs/Customer", Target: customer}}
	case 1:
		members = []*sg.Schema{{Ref: "#/$defs/Customer", Target: customer}, refA()}
	case 2:
		members = []*sg.Schema{refA(), {Types: []string{"object"}, Props: []sg.Prop{{Name: "billing", S: billing}, {Name: "note", S: &sg.Schema{Types: []string{"string"}}}}}}
	}
	root.Props = []sg.Prop{{Name: "shipment", S: &sg.Schema{AllOf: members}}, {Name: "customer", S: &sg.Schema{Ref: "#/$defs/Customer", Target: customer}}}
	c := &sem.Case{Root: root, Sig: fmt.Sprintf("nested-same-def/%d", i%9), NoAuto: true}
	okAddr := jsonx.Obj{{K: "street", V: "Main St"}, {K: "zip", V: "0150"}}
	for _, b := range []any{okAddr, jsonx.Obj{{K: "street", V: "M"}, {K: "zip", V: "0150"}}, jsonx.Obj{{K: "street", V: "Main St"}}, jsonx.N(7), jsonx.Obj{{K: "zip", V: jsonx.N(5)}}} {
		ship := append(append(jsonx.Obj{}, okAddr...), jsonx.KV{K: "billing", V: b})
		cls := "typefault"
		if _, isObj := b.(jsonx.Obj); isObj {
			cls = "required"
		}
		c.Docs = append(c.Docs, docgen.Doc{V: jsonx.Obj{{K: "shipment", V: ship}}, Class: cls, Label: "nested-same-def"}, docgen.Doc{V: jsonx.Obj{{K: "customer", V: jsonx.Obj{{K: "billing", V: b}}}}, Class: cls, Label: "nested-same-def"})
	}
	return c
}

// propsNextToAllOfCase: an object that states properties and a required list of its own NEXT TO an allOf (as a
// definition, inline at a property, as array items): the own members take part in the conjunction; integer members
// with bounds on type limits (the shapes --min-sized-ints narrows).
func propsNextToAllOfCase(i int) *sem.Case {
	mk := func() *sg.Schema {
		return &sg.Schema{Types: []string{"object"},
			Props:    []sg.Prop{{Name: "level", S: &sg.Schema{Types: []string{"integer"}, Min: sg.Fp(0), Max: sg.Fp(255)}}, {Name: "offset", S: &sg.Schema{Types: []string{"integer"}, Min: sg.Fp(-128), Max: sg.Fp(100)}}, {Name: "tag", S: &sg.Schema{Types: []string{"string"}, MinLen: 2}}},
			Required: []string{"level"},
			AllOf:    []*sg.Schema{{Types: []string{"object"}, Props: []sg.Prop{{Name: "id", S: &sg.Schema{Types: []string{"integer"}, Min: sg.Fp(1), Max: sg.Fp(65535)}}}, Required: []string{"id"}}}}
	}
	dev := mk()
	if i%2 == 1 {
		base := &sg.Schema{Types: []string{"object"}, Props: []sg.Prop{{Name: "id", S: &sg.Schema{Types: []string{"integer"}, Min: sg.Fp(1), Max: sg.Fp(65535)}}}, Required: []string{"id"}}
		dev.AllOf = []*sg.Schema{{Ref: "#/$defs/Base", Target: base}}
		root := &sg.Schema{Types: []string{"object"}, Defs: []sg.Prop{{Name: "Base", S: base}, {Name: "Device", S: dev}}}
		return finishPropsNextToAllOf(i, root, dev)
	}
	root := &sg.Schema{Types: []string{"object"}, Defs: []sg.Prop{{Name: "Device", S: dev}}}
	return finishPropsNextToAllOf(i, root, dev)
}

func finishPropsNextToAllOf(i int, root, dev *sg.Schema) *sem.Case {
	key := "dev"
	wrap := func(o jsonx.Obj) any { return o }
	switch (i / 2) % 3 {
	case 0:
		root.Props = []sg.Prop{{Name: "dev", S: &sg.Schema{Ref: "#/$defs/Device", Target: dev}}}
	case 1:
		inl := *dev
		root.Props = []sg.Prop{{Name: "dev", S: &inl}}
	case 2:
		root.Props = []sg.Prop{{Name: "dev", S: &sg.Schema{Types: []string{"array"}, Items: &sg.Schema{Ref: "#/$defs/Device", Target: dev}}}}
		wrap = func(o jsonx.Obj) any { return []any{o} }
	}
	c := &sem.Case{Root: root, Sig: fmt.Sprintf("props-next-to-allof/%d", i%6), NoAuto: true}
	for _, d := range []struct {
		o   jsonx.Obj
		cls string
	}{
		{jsonx.Obj{{K: "id", V: jsonx.N(1)}, {K: "level", V: jsonx.N(0)}}, "valid"}, {jsonx.Obj{{K: "id", V: jsonx.N(65535)}, {K: "level", V: jsonx.N(255)}, {K: "offset", V: jsonx.N(-128)}, {K: "tag", V: "ab"}}, "valid"},
		{jsonx.Obj{{K: "id", V: jsonx.N(1)}}, "required"}, {jsonx.Obj{{K: "level", V: jsonx.N(1)}}, "required"},
		{jsonx.Obj{{K: "id", V: jsonx.N(1)}, {K: "level", V: jsonx.N(256)}}, "bound"}, {jsonx.Obj{{K: "id", V: jsonx.N(1)}, {K: "level", V: jsonx.N(-1)}}, "bound"}, {jsonx.Obj{{K: "id", V: jsonx.N(1)}, {K: "level", V: jsonx.N(70000)}}, "bound"},
		{jsonx.Obj{{K: "id", V: jsonx.N(1)}, {K: "level", V: jsonx.N(1)}, {K: "offset", V: jsonx.N(-129)}}, "bound"}, {jsonx.Obj{{K: "id", V: jsonx.N(1)}, {K: "level", V: jsonx.N(1)}, {K: "offset", V: jsonx.N(101)}}, "bound"},
		{jsonx.Obj{{K: "id", V: jsonx.N(0)}, {K: "level", V: jsonx.N(1)}}, "bound"}, {jsonx.Obj{{K: "id", V: jsonx.N(65536)}, {K: "level", V: jsonx.N(1)}}, "bound"},
		{jsonx.Obj{{K: "id", V: jsonx.N(1)}, {K: "level", V: jsonx.N(1)}, {K: "tag", V: "a"}}, "string"},
	} {
		c.Docs = append(c.Docs, docgen.Doc{V: jsonx.Obj{{K: key, V: wrap(d.o)}}, Class: d.cls, Label: "props-next-to-allof"})
	}
	return c
}

// aliasDefinitionCase: a definition that merely points at another definition while stating the (same) type -
// "Owner": {"type":"object","$ref":"#/$defs/Person"} - used from a property, from array items and from another
// definition, generated before and after the definition it points at: whatever the alias is called in the emitted
// code, the target's rules hold behind it. Verdicts are stated (validation keywords next to $ref).
func aliasDefinitionCase(i int) *sem.Case {
	person := &sg.Schema{Types: []string{"object"}, Props: []sg.Prop{{Name: "name", S: &sg.Schema{Types: []string{"string"}, MinLen: 1}}, {Name: "age", S: &sg.Schema{Types: []string{"integer"}, Min: sg.Fp(0)}}}, Required: []string{"name"}}
	aliasName := []string{"Owner", "Aaa", "Zed"}[i%3] // sorts after / before Person
	alias := &sg.Schema{Types: []string{"object"}, Ref: "#/$defs/Person", Target: person}
	ref := func() *sg.Schema { return &sg.Schema{Ref: "#/$defs/" + aliasName, Target: alias} }
	root := &sg.Schema{Types: []string{"object"}, Defs: []sg.Prop{{Name: aliasName, S: alias}, {Name: "Person", S: person}},
		Props: []sg.Prop{{Name: "owner", S: ref()}, {Name: "members", S: &sg.Schema{Types: []string{"array"}, Items: ref()}}, {Name: "lead", S: &sg.Schema{Ref: "#/$defs/Person", Target: person}}}}
	if (i/3)%2 == 1 {
		team := &sg.Schema{Types: []string{"object"}, Props: []sg.Prop{{Name: "boss", S: ref()}}}
		root.Defs = append(root.Defs, sg.Prop{Name: "Bteam", S: team})
		root.Props = append(root.Props, sg.Prop{Name: "team", S: &sg.Schema{Ref: "#/$defs/Bteam", Target: team}})
	}
	c := &sem.Case{Root: root, Sig: fmt.Sprintf("alias-definition/%d", i%6), NoAuto: true}
	for _, d := range []struct {
		v  any
		st string
	}{{jsonx.Obj{{K: "name", V: "Ann"}, {K: "age", V: jsonx.N(41)}}, "accept"}, {jsonx.Obj{{K: "age", V: jsonx.N(41)}}, "reject"}, {jsonx.Obj{}, "reject"}, {jsonx.Obj{{K: "name", V: ""}}, "reject"}, {jsonx.Obj{{K: "name", V: "Ann"}, {K: "age", V: jsonx.N(-1)}}, "reject"}} {
		c.Docs = append(c.Docs, docgen.Doc{V: jsonx.Obj{{K: "owner", V: d.v}}, Class: "required", Label: "alias-definition", Stated: d.st},
			docgen.Doc{V: jsonx.Obj{{K: "members", V: []any{d.v}}}, Class: "required", Label: "alias-definition", Stated: d.st},
			docgen.Doc{V: jsonx.Obj{{K: "lead", V: d.v}}, Class: "required", Label: "alias-definition", Stated: d.st})
		if root.Prop("team") != nil {
			c.Docs = append(c.Docs, docgen.Doc{V: jsonx.Obj{{K: "team", V: jsonx.Obj{{K: "boss", V: d.v}}}}, Class: "required", Label: "alias-definition", Stated: d.st})
		}
	}
	return c
}

// ecmaPatternCase: patterns that ECMA-262 accepts and Go's RE2 does not (look-ahead, back-reference, \u escape, a
// repeat count above 1000) on required / optional / nullable / definition strings: whatever the generated check
// makes of such a pattern, both decoding paths make the same of it (relational documents: the model has no opinion).
func ecmaPatternCase(i int) *sem.Case {
	pats := []string{"^(?!test)[a-z]+$", "^(a|b)\\1$", "^\\u0041+$", "^[a-z]{1,1001}$", "^(?<name>[a-z]+)$", "(?=.*[0-9])^.+$"}
	p := pats[i%len(pats)]
	mk := func() *sg.Schema { return &sg.Schema{Types: []string{"string"}, Pattern: p, MaxLen: 16} }
	def := mk()
	nul := mk()
	nul.Types = []string{"string", "null"}
	root := &sg.Schema{Types: []string{"object"}, Defs: []sg.Prop{{Name: "Login", S: def}}, Required: []string{"login"},
		Props: []sg.Prop{{Name: "login", S: mk()}, {Name: "other", S: mk()}, {Name: "nul", S: nul}, {Name: "viaDef", S: &sg.Schema{Ref: "#/$defs/Login", Target: def}}, {Name: "displayName", S: &sg.Schema{Types: []string{"string"}}}}}
	c := &sem.Case{Root: root, Sig: fmt.Sprintf("ecma-pattern/%d", i%len(pats)), NoAuto: true, Args: []string{"--extra-imports"}}
	for _, d := range []jsonx.Obj{
		{{K: "login", V: "alice"}, {K: "displayName", V: "Alice"}}, {{K: "login", V: "alice"}}, {{K: "login", V: "tester"}}, {{K: "login", V: "aa"}}, {{K: "login", V: "AAA"}}, {{K: "login", V: "abcdefghijklmnopqrstuvwxyz"}},
		{{K: "displayName", V: "x"}}, {{K: "login", V: "alice"}, {K: "other", V: "bob"}, {K: "nul", V: nil}, {K: "viaDef", V: "carol"}}, {{K: "login", V: "alice"}, {K: "nul", V: "x1"}}, {{K: "login", V: "a1"}, {K: "viaDef", V: "b2"}},
	} {
		c.Docs = append(c.Docs, docgen.Doc{V: d, Class: "formatparity", Label: "ecma-pattern"})
	}
	return c
}

// nullableArrayDefaultCase: array properties whose type list allows null (either order), with a default: absent and
// an explicit null take the default, a present value (also the empty array) is kept.
func nullableArrayDefaultCase(i int) *sem.Case {
	tl := []string{"array", "null"}
	if i%2 == 1 {
		tl = []string{"null", "array"}
	}
	root := &sg.Schema{Types: []string{"object"}, Props: []sg.Prop{
		{Name: "tags", S: &sg.Schema{Types: tl, Items: &sg.Schema{Types: []string{"string"}}, Default: []any{"a", "b"}, HasDefault: true}},
		{Name: "ports", S: &sg.Schema{Types: tl, Items: &sg.Schema{Types: []string{"integer"}}, Default: []any{jsonx.N(80)}, HasDefault: true}},
		{Name: "name", S: &sg.Schema{Types: []string{"string"}}}}}
	c := &sem.Case{Root: root, Sig: fmt.Sprintf("nullable-array-default/%d", i%2), NoAuto: true}
	for _, d := range []jsonx.Obj{{}, {{K: "tags", V: nil}}, {{K: "name", V: nil}, {K: "tags", V: nil}, {K: "ports", V: nil}}, {{K: "tags", V: []any{"x"}}}, {{K: "tags", V: []any{}}, {K: "ports", V: []any{}}}, {{K: "ports", V: nil}, {K: "tags", V: []any{"y"}}}} {
		c.Docs = append(c.Docs, docgen.Doc{V: d, Class: "default", Label: "nullable-array-default"})
	}
	return c
}

// legacyNumericKeywordCase: numeric schemas that carry keywords of drafts before draft-04 (divisibleBy,
// minimumCanEqual / maximumCanEqual), which later drafts - and the statements - do not know: values inside the stated
// bounds are accepted whatever those keywords say.
func legacyNumericKeywordCase(i int) *sem.Case {
	ex := func(k string, v any) jsonx.Obj { return jsonx.Obj{{K: k, V: v}} }
	step := &sg.Schema{Types: []string{"integer"}, Min: sg.Fp(0), Max: sg.Fp(20), Extra: ex("divisibleBy", jsonx.N(5))}
	root := &sg.Schema{Types: []string{"object"}, Defs: []sg.Prop{{Name: "Step", S: step}}, Props: []sg.Prop{
		{Name: "count", S: &sg.Schema{Types: []string{"integer"}, Min: sg.Fp(0), Max: sg.Fp(10), Extra: ex("divisibleBy", jsonx.N(3))}},
		{Name: "ratio", S: &sg.Schema{Types: []string{"number", "null"}, ExMin: 0.0, Max: sg.Fp(2), Extra: ex("divisibleBy", jsonx.Num("0.5"))}},
		{Name: "even", S: &sg.Schema{Types: []string{"integer"}, MultipleOf: sg.Fp(2), Extra: ex("divisibleBy", jsonx.N(7))}},
		{Name: "open", S: &sg.Schema{Types: []string{"number"}, Min: sg.Fp(1), Max: sg.Fp(9), Extra: jsonx.Obj{{K: "minimumCanEqual", V: false}, {K: "maximumCanEqual", V: false}}}},
		{Name: "step", S: &sg.Schema{Ref: "#/$defs/Step", Target: step}}}}
	if i%2 == 1 {
		root.Required = []string{"count"}
	}
	c := &sem.Case{Root: root, Sig: fmt.Sprintf("legacy-numeric-keyword/%d", i%2), NoAuto: true}
	base := jsonx.Obj{{K: "count", V: jsonx.N(3)}}
	for _, kv := range []struct {
		k    string
		vals []string
	}{{"count", []string{"0", "4", "10", "11", "-1"}}, {"ratio", []string{"0", "0.75", "2", "2.5"}}, {"even", []string{"2", "7", "14", "3"}}, {"open", []string{"1", "5", "9", "0.5", "9.5"}}, {"step", []string{"0", "12", "20", "21"}}} {
		for _, v := range kv.vals {
			o := jsonx.Obj{}
			for _, b := range base {
				if b.K != kv.k {
					o = append(o, b)
				}
			}
			c.Docs = append(c.Docs, docgen.Doc{V: append(o, jsonx.KV{K: kv.k, V: jsonx.Num(v)}), Class: "bound", Label: "legacy-numeric-keyword"})
		}
	}
	return c
}

// typeListEnumCase: enums whose "type" is a list (["integer","null"], ["integer","string"], ["number","null"],
// ["boolean","null"], ["string","null"]) and whose values are of several JSON types, as a definition behind a
// required reference and inline: every listed value is accepted and re-marshals to itself, others are rejected.
func typeListEnumCase(i int) *sem.Case {
	kinds := []struct {
		types []string
		vals  []any
		non   []any
	}{
		{[]string{"integer", "null"}, []any{jsonx.N(1), jsonx.N(2), jsonx.N(3), nil}, []any{jsonx.N(4), "1"}},
		{[]string{"integer", "string"}, []any{jsonx.N(1), "a"}, []any{jsonx.N(2), "b"}},
		{[]string{"number", "null"}, []any{jsonx.Num("1.5"), jsonx.N(2), nil}, []any{jsonx.N(3)}},
		{[]string{"boolean", "null"}, []any{true, nil}, []any{false}},
		{[]string{"string", "null"}, []any{"x", nil}, []any{"y", jsonx.N(1)}},
		{[]string{"null", "integer"}, []any{jsonx.N(7), nil}, []any{jsonx.N(8)}},
	}
	k := kinds[i%len(kinds)]
	mk := func() *sg.Schema { return &sg.Schema{Types: k.types, HasEnum: true, Enum: k.vals} }
	def := mk()
	root := &sg.Schema{Types: []string{"object"}, Defs: []sg.Prop{{Name: "Priority", S: def}}, Required: []string{"priority"},
		Props: []sg.Prop{{Name: "priority", S: &sg.Schema{Ref: "#/$defs/Priority", Target: def}}, {Name: "inline", S: mk()}, {Name: "list", S: &sg.Schema{Types: []string{"array"}, Items: mk()}}}}
	c := &sem.Case{Root: root, Sig: fmt.Sprintf("type-list-enum/%d", i%len(kinds)), NoAuto: true}
	for _, v := range k.vals {
		c.Docs = append(c.Docs, docgen.Doc{V: jsonx.Obj{{K: "priority", V: v}}, Class: "enum", Label: "member", Stated: "accept"},
			docgen.Doc{V: jsonx.Obj{{K: "priority", V: k.vals[0]}, {K: "inline", V: v}, {K: "list", V: []any{v}}}, Class: "enum", Label: "member", Stated: "accept"})
	}
	for _, v := range k.non {
		c.Docs = append(c.Docs, docgen.Doc{V: jsonx.Obj{{K: "priority", V: v}}, Class: "enum", Label: "non-member", Stated: "reject"},
			docgen.Doc{V: jsonx.Obj{{K: "priority", V: k.vals[0]}, {K: "inline", V: v}}, Class: "enum", Label: "non-member", Stated: "reject"})
	}
	return c
}

// allOfOrderArrayLimitCase: an object whose own array property (or an inline allOf member's) states limits that
// DIFFER from the limits a later member given by reference states for the same array: under the recorded finding
// allof-same-keyword-first-wins the first statement counts - whatever the order of inline and referenced members.
func allOfOrderArrayLimitCase(i int) *sem.Case {
	str := func() *sg.Schema { return &sg.Schema{Types: []string{"string"}} }
	base := &sg.Schema{Types: []string{"object"}, Props: []sg.Prop{{Name: "tags", S: &sg.Schema{Types: []string{"array"}, Items: str(), MinItems: 1, MaxItems: 8}}, {Name: "id", S: &sg.Schema{Types: []string{"integer"}}}}}
	ownTags := func() *sg.Schema { return &sg.Schema{Types: []string{"array"}, Items: str(), MinItems: 2, MaxItems: 4} }
	refB := func() *sg.Schema { return &sg.Schema{Ref: "#/$defs/Base", Target: base} }
	var dev *sg.Schema
	switch i % 3 {
	case 0:
		dev = &sg.Schema{Types: []string{"object"}, Props: []sg.Prop{{Name: "tags", S: ownTags()}}, AllOf: []*sg.Schema{refB()}}
	case 1:
		dev = &sg.Schema{AllOf: []*sg.Schema{{Types: []string{"object"}, Props: []sg.Prop{{Name: "tags", S: ownTags()}}}, refB()}}
	case 2:
		dev = &sg.Schema{AllOf: []*sg.Schema{refB(), {Types: []string{"object"}, Props: []sg.Prop{{Name: "tags", S: ownTags()}}}}}
	}
	root := &sg.Schema{Types: []string{"object"}, Defs: []sg.Prop{{Name: "Base", S: base}}, Props: []sg.Prop{{Name: "dev", S: dev}}}
	c := &sem.Case{Root: root, Sig: fmt.Sprintf("allof-order-array-limit/%d", i%3), NoAuto: true}
	for _, n := range []int{0, 1, 2, 4, 5, 8, 9} {
		var a []any
		for k := 0; k < n; k++ {
			a = append(a, fmt.Sprintf("t%d", k))
		}
		if a == nil {
			a = []any{}
		}
		c.Docs = append(c.Docs, docgen.Doc{V: jsonx.Obj{{K: "dev", V: jsonx.Obj{{K: "tags", V: a}}}}, Class: "items", Label: fmt.Sprintf("len-%d", n)})
	}
	c.Docs = append(c.Docs, docgen.Doc{V: jsonx.Obj{{K: "dev", V: jsonx.Obj{{K: "tags", V: nil}}}}, Class: "nullok", Label: "null"})
	return c
}

// undeclaredRequiredCase: a required list that names a key which is not declared under properties, on objects with
// declared properties and every form of additionalProperties (typed, untyped, true, absent): both decoding paths treat
// a document that lacks that key alike.
func undeclaredRequiredCase(i int) *sem.Case {
	obj := &sg.Schema{Types: []string{"object"}, Props: []sg.Prop{{Name: "name", S: &sg.Schema{Types: []string{"string"}}}, {Name: "n", S: &sg.Schema{Types: []string{"integer"}}}}, Required: []string{"name", "kind"}}
	switch i % 4 {
	case 0:
		obj.AddProps = &sg.Schema{Types: []string{"string"}}
	case 1:
		obj.AddProps = &sg.Schema{Types: []string{"integer"}}
	case 2:
		obj.AddPropsBool = sg.Bp(true)
	}
	root := obj
	if (i/4)%2 == 1 {
		root = &sg.Schema{Types: []string{"object"}, Props: []sg.Prop{{Name: "labels", S: obj}, {Name: "list", S: &sg.Schema{Types: []string{"array"}, Items: obj}}}}
	}
	c := &sem.Case{Root: root, Sig: fmt.Sprintf("undeclared-required/%d", i%8), NoAuto: true, Args: []string{"--extra-imports"}}
	wrap := func(o jsonx.Obj) jsonx.Obj {
		if root != obj {
			return jsonx.Obj{{K: "labels", V: o}, {K: "list", V: []any{o}}}
		}
		return o
	}
	kind := any("k")
	if i%4 == 1 {
		kind = jsonx.N(3)
	}
	for _, d := range []jsonx.Obj{{{K: "name", V: "x"}, {K: "kind", V: kind}}, {{K: "name", V: "x"}}, {{K: "kind", V: kind}}, {}, {{K: "name", V: "x"}, {K: "kind", V: kind}, {K: "n", V: jsonx.N(1)}}} {
		c.Docs = append(c.Docs, docgen.Doc{V: wrap(d), Class: "formatparity", Label: "undeclared-required"})
	}
	return c
}
