package checks

import (
	"bytes"
	"encoding/json"
	"fmt"
	"os"
	"path/filepath"

	"verif/internal/docgen"
	"verif/internal/jsonx"
	"verif/internal/model"
	"verif/internal/sg"
	"verif/internal/stage"
)

// draftOf reports which draft a schema can be read under by an independent validator: 4 (boolean exclusive forms),
// 7 (numeric exclusive forms), 0 if it mixes both or uses something the two validators read differently from the
// statements (defaults on required keys are harmless; "required" with default is the only deliberate deviation).
func draftOf(root *sg.Schema) int {
	hasBool, hasNum, bad := false, false, false
	root.Walk(func(x *sg.Schema) {
		for _, e := range []any{x.ExMin, x.ExMax} {
			switch e.(type) {
			case bool:
				hasBool = true
			case float64:
				hasNum = true
			}
		}
		if x.Format != "" || x.Ext != nil {
			bad = true // format handling is not asserted
		}
		for _, r := range x.Required {
			if p := x.Prop(r); p != nil && p.HasDefault {
				bad = true // required-with-default is exempt by the statement, not by the drafts
			}
		}
		if x.HasDefault {
			bad = true // null with a default is accepted by the statement (C09), not by the drafts
		}
	})
	switch {
	case bad || (hasBool && hasNum):
		return 0
	case hasBool:
		return 4
	}
	return 7
}

// modelCrossCheck samples (schema, document, model verdict) triples and has the independent Python `jsonschema`
// package judge them. It validates the ORACLE, not the tool; a disagreement makes the run inconclusive.
func modelCrossCheck(ctx *Ctx, n int) (map[string]any, string) {
	py, err := osLookPath("python3-vt")
	if err != nil {
		return map[string]any{"model_crosscheck": "python3-vt not available: skipped"}, ""
	}
	var in bytes.Buffer
	pairs := 0
	for i := 0; i < n; i++ {
		r := sg.NewRng(ctx.Seed, fmt.Sprintf("xcheck-%d", i))
		g := sg.NewGen(r, sg.Opts{MaxDepth: 3, NoFormats: true, NoDefaults: true, PNullable: 0.2, PAddProps: 0.2, NullType: true, W: map[string]float64{"compose": 1.5}})
		root := g.Root()
		d := draftOf(root)
		if d == 0 {
			continue
		}
		dg := &docgen.G{R: r}
		var docs []any
		for k := 0; k < 3; k++ {
			if v, ok := dg.Valid(root, docgen.Mode(k)); ok {
				docs = append(docs, v)
			}
		}
		if len(docs) > 0 {
			for _, m := range dg.Mutants(root, docs[0], docgen.AllClasses, 2, false) {
				docs = append(docs, m.V)
			}
		}
		sj := json.RawMessage(jsonx.Marshal(root.ToJSON()))
		for k, doc := range docs {
			if k > 60 {
				break
			}
			mr := model.Eval(root, doc, nil)
			if mr.V == model.DontCare {
				continue
			}
			b, _ := json.Marshal(map[string]any{"schema": sj, "doc": json.RawMessage(jsonx.Marshal(doc)), "verdict": mr.V.String(), "draft": d})
			in.Write(b)
			in.WriteByte('\n')
			pairs++
		}
	}
	script := filepath.Join(filepath.Dir(filepath.Dir(os.Args[0])), "scripts", "xcheck.py")
	if _, err := os.Stat(script); err != nil {
		script = "/verif/scripts/xcheck.py"
	}
	pr := stage.Run(stage.Proc{Path: py, Args: []string{script}, Stdin: in.Bytes(), CPUSec: 900, Wall: 0})
	var res struct {
		Pairs    int              `json:"pairs"`
		Agree    int              `json:"agree"`
		Disagree int              `json:"disagree_count"`
		Ex       []map[string]any `json:"disagree"`
		Skipped  int              `json:"skipped"`
		Error    string           `json:"error"`
	}
	if err := json.Unmarshal(bytes.TrimSpace(pr.Stdout), &res); err != nil || res.Error != "" {
		return map[string]any{"model_crosscheck": fmt.Sprintf("cross-check did not run: exit=%d %s %s", pr.Exit, res.Error, trunc(string(pr.Stderr), 200))}, ""
	}
	cov := map[string]any{"model_crosscheck_pairs": res.Pairs, "model_crosscheck_agree": res.Agree, "model_crosscheck_disagree": res.Disagree, "model_crosscheck_skipped": res.Skipped}
	if res.Disagree > 0 {
		cov["model_crosscheck_examples"] = res.Ex
		return cov, fmt.Sprintf("the reference model disagrees with the independent jsonschema validator on %d of %d pairs (oracle problem, see evidence)", res.Disagree, res.Pairs)
	}
	return cov, ""
}
