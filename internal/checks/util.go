package checks

import (
	osx "os/exec"
)

func osexec(name string, args ...string) error {
	return osx.Command(name, args...).Run()
}

func osLookPath(name string) (string, error) { return osx.LookPath(name) }
