package checks

import (
	"bytes"
	"encoding/json"
	"fmt"
	"os"
	"path/filepath"
	"strings"

	"verif/internal/batch"
	"verif/internal/cli"
	"verif/internal/evid"
	"verif/internal/jsonx"
	"verif/internal/sg"
	"verif/internal/stage"
)

func init() { Register("C13", c13) }

// spelling is one combination of re-spellings.
type spelling struct {
	format   string // json | yamlblock | yamlflow | yamlbare
	legacyID bool   // id instead of $id
	defs     string // "$defs" | "definitions"
	ptr      string // "#/$defs/" | "#/definitions/" | "#/DEFINITIONS/" (pointer prefix is matched case-insensitively)
	typeList bool   // "type": ["t"]
	boolAny  bool   // true instead of {}
	legacyDp bool   // dependencies instead of dependentSchemas
	mixedPtr bool   // each $ref occurrence picks its own pointer prefix
	occ      *int   // occurrence counter for mixedPtr
}

func (s spelling) String() string {
	return fmt.Sprintf("%s id=%v defs=%s ptr=%s typeList=%v true=%v deps=%v mixed=%v", s.format, s.legacyID, s.defs, s.ptr, s.typeList, s.boolAny, s.legacyDp, s.mixedPtr)
}

// respell rewrites the canonical JSON rendering of a schema.
func respell(v any, sp spelling, top bool) any {
	switch t := v.(type) {
	case jsonx.Obj:
		if len(t) == 0 && sp.boolAny && !top {
			return true
		}
		n := make(jsonx.Obj, 0, len(t))
		for _, kv := range t {
			k, val := kv.K, kv.V
			switch k {
			case "$id":
				if sp.legacyID {
					k = "id"
				}
			case "$defs", "definitions":
				k = sp.defs
				// definition names are not schemas: descend into the values only
				if o, ok := val.(jsonx.Obj); ok {
					no := make(jsonx.Obj, len(o))
					for i, d := range o {
						no[i] = jsonx.KV{K: d.K, V: respell(d.V, sp, false)}
					}
					n = append(n, jsonx.KV{K: k, V: no})
					continue
				}
			case "$ref":
				if str, ok := val.(string); ok {
					for _, pre := range []string{"#/$defs/", "#/definitions/"} {
						if i := strings.Index(str, pre); i >= 0 {
							ptr := sp.ptr
							if sp.mixedPtr {
								// every occurrence picks its own prefix (a document edited by several hands)
								*sp.occ++
								ptr = []string{"#/$defs/", "#/definitions/", sp.ptr}[*sp.occ%3]
							}
							str = str[:i] + ptr + str[i+len(pre):]
							break
						}
					}
					n = append(n, jsonx.KV{K: k, V: str})
					continue
				}
			case "type":
				if str, ok := val.(string); ok && sp.typeList {
					n = append(n, jsonx.KV{K: k, V: []any{str}})
					continue
				}
				if a, ok := val.([]any); ok && len(a) == 1 && !sp.typeList {
					n = append(n, jsonx.KV{K: k, V: a[0]})
					continue
				}
			case "dependentSchemas", "dependencies":
				if sp.legacyDp {
					k = "dependencies"
				} else {
					k = "dependentSchemas"
				}
			case "properties":
				if o, ok := val.(jsonx.Obj); ok {
					no := make(jsonx.Obj, len(o))
					for i, d := range o {
						no[i] = jsonx.KV{K: d.K, V: respell(d.V, sp, false)}
					}
					n = append(n, jsonx.KV{K: k, V: no})
					continue
				}
			case "enum", "default", "required", "goJSONSchema":
				n = append(n, jsonx.KV{K: k, V: val}) // data, not schema
				continue
			}
			n = append(n, jsonx.KV{K: k, V: respell(val, sp, false)})
		}
		return n
	case []any:
		n := make([]any, len(t))
		for i, e := range t {
			n[i] = respell(e, sp, false)
		}
		return n
	}
	return v
}

// renderJSONLayout writes a JSON document in another layout of the SAME tokens: "wide" puts blanks on both sides of
// every colon and before commas (the default of some pretty printers), "tabs" indents with tabs and ends lines with
// CR LF, "compact" has no white space at all, "escaped" writes the first character of every key as a \u escape.
func renderJSONLayout(v any, style string) []byte {
	var b bytes.Buffer
	nl, ind, colon, comma := "\n", "  ", ": ", ","
	switch style {
	case "wide":
		colon, comma = " : ", " ,"
	case "tabs":
		nl, ind = "\r\n", "\t"
	case "compact":
		nl, ind, colon = "", "", ":"
	}
	key := func(k string) string {
		q := string(jsonx.Marshal(k))
		if style == "escaped" && len(k) > 0 && k[0] < 0x80 && k[0] != '"' && k[0] != '\\' && k[0] >= 0x20 {
			return fmt.Sprintf("\"\\u%04x%s", k[0], q[2:])
		}
		return q
	}
	var w func(x any, depth int)
	pad := func(depth int) {
		if ind != "" {
			b.WriteString(nl + strings.Repeat(ind, depth))
		}
	}
	w = func(x any, depth int) {
		switch t := x.(type) {
		case jsonx.Obj:
			if len(t) == 0 {
				b.WriteString("{}")
				return
			}
			b.WriteString("{")
			for i, kv := range t {
				if i > 0 {
					b.WriteString(comma)
				}
				pad(depth + 1)
				b.WriteString(key(kv.K) + colon)
				w(kv.V, depth+1)
			}
			pad(depth)
			b.WriteString("}")
		case []any:
			if len(t) == 0 {
				b.WriteString("[]")
				return
			}
			b.WriteString("[")
			for i, e := range t {
				if i > 0 {
					b.WriteString(comma)
				}
				pad(depth + 1)
				w(e, depth+1)
			}
			pad(depth)
			b.WriteString("]")
		default:
			b.Write(jsonx.Marshal(x))
		}
	}
	w(v, 0)
	b.WriteString(nl)
	return b.Bytes()
}

func renderSpelling(v any, sp spelling) []byte {
	switch sp.format {
	case "jsonwide":
		return renderJSONLayout(v, "wide")
	case "jsontabs":
		return renderJSONLayout(v, "tabs")
	case "jsoncompact":
		return renderJSONLayout(v, "compact")
	case "jsonescaped":
		return renderJSONLayout(v, "escaped")
	case "yamlblock":
		return sg.ToYAML(v, sg.YAMLBlock)
	case "yamlflow":
		return sg.ToYAML(v, sg.YAMLFlow)
	case "yamlbare":
		return sg.ToYAML(v, sg.YAMLBlockBare)
	case "yamlflowbare":
		return sg.ToYAML(v, sg.YAMLFlowBare)
	}
	return jsonx.MarshalIndent(v)
}

func c13(ctx *Ctx) (*Outcome, error) {
	n := ctx.N(220, 4000)
	type job struct {
		root *sg.Schema
		opts []string
		sps  []spelling
		// lib: a sibling document the root refers to without a file extension (the only way to write a cross-file
		// reference identically in the JSON and the YAML spelling); it is written in the same format as the root
		lib     *sg.Schema
		libPath string
	}
	var jobs []*job
	formats := []string{"json", "yamlblock", "jsonwide", "yamlflow", "jsontabs", "yamlbare", "jsoncompact", "jsonescaped", "yamlflowbare"}
	for i := 0; i < n; i++ {
		r := sg.NewRng(ctx.Seed, fmt.Sprintf("C13-case-%d", i))
		o := sg.Opts{MaxDepth: 3, Descs: true, PDefault: 0.3, PNullable: 0.2, PAddProps: 0.3, W: map[string]float64{"untyped": 2.5, "ref": 3, "object": 3, "map": 1.2}}
		if i%3 == 0 {
			// YAML mappings whose keys look numeric / boolean: written unquoted in the "bare" spelling
			o.Names = []string{"alpha", "beta", "1", "23", "true", "false", "1.5", "yes", "no", "0x10", "007", "gamma", "delta", "1e3", "-4"}
		}
		g := sg.NewGen(r, o)
		root := g.Root()
		root.ID = "https://example.com/spell"
		// the id with and without the empty fragment that draft-04 documents carry, the mapping option written with and
		// without it: whatever the tool makes of the four combinations, it makes the same of them for `id` and `$id`
		idKey := "https://example.com/spell"
		switch i % 7 {
		case 2:
			root.ID += "#"
			idKey += "#"
		case 3:
			root.ID += "#"
		case 5:
			idKey += "#"
		}
		// the declared draft is the same in every spelling of one schema; what the spellings mean must not depend on it
		root.Version = []string{"", "http://json-schema.org/draft-04/schema#", "http://json-schema.org/draft-06/schema#", "http://json-schema.org/draft-07/schema#",
			"https://json-schema.org/draft/2019-09/schema", "https://json-schema.org/draft/2020-12/schema"}[i%6]
		if i%3 == 0 {
			// nested mappings whose keys are all non-strings when written bare (exercises recursive key fixing)
			leaf := &sg.Schema{Types: []string{"object"}, Props: []sg.Prop{{Name: "true", S: &sg.Schema{Types: []string{"string"}}}, {Name: "9", S: &sg.Schema{Types: []string{"integer"}}}}, Required: []string{"9"}}
			mid := &sg.Schema{Types: []string{"object"}, Props: []sg.Prop{{Name: "8", S: leaf}, {Name: "2.5", S: &sg.Schema{Types: []string{"array"}, Items: &sg.Schema{Types: []string{"object"}, Props: []sg.Prop{{Name: "6", S: &sg.Schema{Types: []string{"boolean"}}}}}}}}}
			root.Props = append(root.Props, sg.Prop{Name: "7", S: mid})
		}
		if i%2 == 0 {
			// strings that need escaping in both notations (C0 controls, DEL, a non-BMP tag character, line and
			// paragraph separators): both parsers must hand the generator the same text
			ctl := &sg.Schema{Types: []string{"string"}, Desc: "ctl \u0001\u0008\u000b\u001f\u007f \U000e0001 \u2028 end \"quoted\" \\ back\ttab", Pattern: "^[^\u0001-\u0008\u007f]*$", Default: "\u001f\u007f\U000e0001", HasDefault: true}
			root.Props = append(root.Props, sg.Prop{Name: "ctl", S: ctl}, sg.Prop{Name: "ctlEnum", S: &sg.Schema{Types: []string{"string"}, HasEnum: true, Enum: []any{"a\u0001b", "c\u007fd", "e\U000e0001f"}}})
		}
		if i%2 == 1 && len(root.Types) == 1 && root.Types[0] == "object" {
			// two definitions that want one Go name and have equal content incl. a reference: they are one type in
			// every spelling (the equality that folds them must not look at how a reference is written)
			leaf := &sg.Schema{Types: []string{"object"}, Props: []sg.Prop{{Name: "iso", S: &sg.Schema{Types: []string{"string"}, MinLen: 2}}}}
			mk := func() *sg.Schema {
				return &sg.Schema{Types: []string{"object"}, Props: []sg.Prop{{Name: "street", S: &sg.Schema{Types: []string{"string"}}}, {Name: "country", S: &sg.Schema{Ref: "#/$defs/DupLeaf", Target: leaf}}}, Required: []string{"street"}}
			}
			d1, d2 := mk(), mk()
			if i%4 == 3 {
				// identifiers on nested subschemas (the style of some schema editors: every node names its own
				// location), different on the two equal definitions: "$id" and "id" spell the same thing
				d1.ID, d2.ID = "#/definitions/DupAddr", "#/definitions/dupAddr"
				d1.Props[0].S.ID = "#/definitions/DupAddr/properties/city"
			}
			root.Defs = append(root.Defs, sg.Prop{Name: "DupLeaf", S: leaf}, sg.Prop{Name: "DupAddr", S: d1}, sg.Prop{Name: "dupAddr", S: d2})
			root.Props = append(root.Props, sg.Prop{Name: "office", S: &sg.Schema{Ref: "#/$defs/DupAddr", Target: d1}}, sg.Prop{Name: "home", S: &sg.Schema{Ref: "#/$defs/dupAddr", Target: d2}})
		}
		// an untyped subschema in every position the statement names, and a dependency keyword
		root.Props = append(root.Props, sg.Prop{Name: "anyprop", S: &sg.Schema{}}, sg.Prop{Name: "anyitems", S: &sg.Schema{Types: []string{"array"}, Items: &sg.Schema{}}},
			sg.Prop{Name: "anyadd", S: &sg.Schema{Types: []string{"object"}, Props: []sg.Prop{{Name: "k", S: &sg.Schema{Types: []string{"string"}}}}, AddProps: &sg.Schema{}}})
		root.Extra = append(root.Extra, jsonx.KV{K: "dependentSchemas", V: jsonx.Obj{{K: "anyprop", V: jsonx.Obj{{K: "type", V: "object"}, {K: "required", V: []any{"anyitems"}}}}}})
		// the dependency keyword below the root as well (in a property, in array items, in a definition), with an
		// object schema and with the anything-schema as values: two of the re-spellings meet at one spot
		dep := func() jsonx.KV {
			return jsonx.KV{K: "dependentSchemas", V: jsonx.Obj{{K: "k", V: jsonx.Obj{}}, {K: "m", V: jsonx.Obj{{K: "type", V: "object"}, {K: "required", V: []any{"k"}}}}}}
		}
		inner := &sg.Schema{Types: []string{"object"}, Props: []sg.Prop{{Name: "k", S: &sg.Schema{Types: []string{"string"}}}, {Name: "m", S: &sg.Schema{Types: []string{"integer"}}}}}
		inner.Extra = append(inner.Extra, dep())
		item := &sg.Schema{Types: []string{"object"}, Props: []sg.Prop{{Name: "k", S: &sg.Schema{Types: []string{"boolean"}}}}}
		item.Extra = append(item.Extra, dep())
		root.Props = append(root.Props, sg.Prop{Name: "depprop", S: inner}, sg.Prop{Name: "depitems", S: &sg.Schema{Types: []string{"array"}, Items: item}})
		if len(root.Defs) > 0 && len(root.Defs[0].S.Types) == 1 && root.Defs[0].S.Types[0] == "object" {
			root.Defs[0].S.Extra = append(root.Defs[0].S.Extra, dep())
		}
		if i%5 == 4 {
			// a "type library": the root carries nothing but an id and definitions (also reached through an external $ref
			// is not needed: the root document itself shows whether the two definition spellings are treated alike)
			lib := &sg.Schema{ID: root.ID, Version: root.Version, Defs: root.Defs}
			if len(lib.Defs) == 0 {
				lib.Defs = []sg.Prop{{Name: "Thing", S: &sg.Schema{Types: []string{"object"}, Props: []sg.Prop{{Name: "n", S: &sg.Schema{Types: []string{"integer"}}}}}}}
			}
			// definitions may reference each other only
			ok := true
			lib.Walk(func(x *sg.Schema) {
				if x.Ref != "" && x.Target != nil {
					found := false
					for _, d := range lib.Defs {
						if d.S == x.Target {
							found = true
						}
					}
					ok = ok && found
				}
			})
			if ok {
				root = lib
				if i%10 == 9 {
					// ... plus a title and ONE keyword that only objects have - no `type`, no `properties`: whatever is made of
					// such a root, it is made of both spellings of the keyword
					root.Title = "Typeless Library"
					switch (i / 10) % 4 {
					case 0:
						root.Extra = append(root.Extra, dep())
					case 1:
						root.Extra = append(root.Extra, dep(), jsonx.KV{K: "minProperties", V: jsonx.N(1)})
					case 2:
						root.Required = []string{"k"}
						root.Extra = append(root.Extra, dep())
					default:
						root.Extra = append(root.Extra, jsonx.KV{K: "dependentSchemas", V: jsonx.Obj{{K: "k", V: true}}})
					}
				}
			}
		}
		var lib *sg.Schema
		libPath := ""
		if i%4 == 1 && len(root.Types) == 1 && root.Types[0] == "object" {
			addr := &sg.Schema{Types: []string{"object"}, Props: []sg.Prop{{Name: "street", S: &sg.Schema{Types: []string{"string"}, MinLen: 1}}, {Name: "zip", S: &sg.Schema{Ref: "#/$defs/LibCode"}}}, Required: []string{"street"}}
			code := &sg.Schema{Types: []string{"string"}, MaxLen: 8}
			addr.Props[1].S.Target = code
			lib = &sg.Schema{ID: "https://example.com/spelllib", Types: []string{"object"}, Props: []sg.Prop{{Name: "libRootProp", S: &sg.Schema{Types: []string{"integer"}}}},
				Defs: []sg.Prop{{Name: "LibAddress", S: addr}, {Name: "LibCode", S: code}}}
			libPath = sg.PickOf(r, []string{"defs", "./defs", "sub/defs", "defs.v2"})
			root.Props = append(root.Props, sg.Prop{Name: "shipTo", S: &sg.Schema{Ref: libPath + "#/$defs/LibAddress", Target: addr}},
				sg.Prop{Name: "libcode", S: &sg.Schema{Ref: libPath + "#/$defs/LibCode", Target: code}})
			if r.Chance(0.5) {
				root.Props = append(root.Props, sg.Prop{Name: "wholeLib", S: &sg.Schema{Ref: libPath, Target: lib}})
			}
		}
		// the output must depend on the id, so that a lost id spelling is visible
		j := &job{root: root, lib: lib, libPath: libPath, opts: append(RandArgs(r, nil), "--schema-root-type", idKey+"=SpellRoot")}
		if i%7 == 3 || i%7 == 5 || i%14 == 2 {
			// the other two mapping options under the same key
			j.opts = append(j.opts, "--schema-package", idKey+"=example.com/mod/spellpkg", "--schema-output", idKey+"=spellpkg/spell.go")
		}
		// base spelling first, then a sample of combinations (thorough: more)
		j.sps = append(j.sps, spelling{format: "json", defs: "$defs", ptr: "#/$defs/"})
		k := ctx.N(7, 15)
		for x := 0; x < k; x++ {
			sp := spelling{format: formats[(x+i)%len(formats)], legacyID: r.Chance(0.5), typeList: r.Chance(0.5), boolAny: r.Chance(0.5), legacyDp: r.Chance(0.5)}
			sp.defs = sg.PickOf(r, []string{"$defs", "definitions"})
			sp.ptr = sg.PickOf(r, []string{"#/$defs/", "#/definitions/", "#/Definitions/", "#/$DEFS/"})
			if x%3 == 2 {
				sp.mixedPtr, sp.occ = true, new(int)
				*sp.occ = x
			}
			j.sps = append(j.sps, sp)
		}
		jobs = append(jobs, j)
	}
	type res struct {
		fps   []string
		fails []string
		dirs  []string
	}
	results := make([]res, len(jobs))
	stage.Parallel(len(jobs), func(i int) {
		j := jobs[i]
		base := j.root.ToJSON()
		var r res
		for _, sp := range j.sps {
			ext := ".json"
			if !strings.HasPrefix(sp.format, "json") {
				ext = ".yaml"
			}
			data := renderSpelling(respell(base, sp, true), sp)
			args := append([]string{"-p", "spell", "-o", "out.go", "--resolve-extension", ".json", "--resolve-extension", ".yaml"}, j.opts...)
			if sp.format == "yamlblock" && sp.typeList && j.lib == nil {
				// YAML under an extension of the user's choosing
				ext = ".yschema"
				args = append(args, "--yaml-extension", ".yschema", "--resolve-extension", ".yschema")
			} else if sp.format == "yamlflow" && sp.boolAny && j.lib == nil {
				ext = ".yml"
				args = append(args, "--resolve-extension", ".yml")
			}
			args = append(args, "root"+ext)
			files := []batch.File{{Path: "root" + ext, Data: data}}
			if j.lib != nil {
				files = append(files, batch.File{Path: filepath.Clean(j.libPath) + ext, Data: renderSpelling(respell(j.lib.ToJSON(), sp, true), sp)})
			}
			cr := cli.Run(ctx.Env, &cli.Inv{Files: files, Args: args})
			// the fingerprint must not depend on the input file's own name: only outputs, stdout and exit status are hashed
			r.fps = append(r.fps, cr.Fingerprint())
			r.dirs = append(r.dirs, cr.Dir)
			if cr.Proc.Exit != 0 {
				r.fails = append(r.fails, cr.Failed())
			} else {
				r.fails = append(r.fails, "")
			}
		}
		results[i] = r
	})
	var viols []Viol
	sigs := map[string]bool{}
	var samples []any
	runs, accepted := 0, 0
	for i, j := range jobs {
		r := results[i]
		for k, sp := range j.sps {
			runs++
			if r.fails[k] == "" {
				accepted++
			}
			sigs[sp.String()] = true
			if r.fps[k] != r.fps[0] && len(viols) < 10 {
				rp := filepath.Join(evid.ReplayDir(), fmt.Sprintf("C13-%d", len(viols)))
				_ = os.MkdirAll(rp, 0o755)
				_ = osexec("cp", "-r", r.dirs[0], filepath.Join(rp, "base"))
				_ = osexec("cp", "-r", r.dirs[k], filepath.Join(rp, "respelled"))
				b, _ := json.MarshalIndent(map[string]any{"property": "C13", "spelling": sp.String(), "options": j.opts, "base_failed": r.fails[0], "respelled_failed": r.fails[k]}, "", " ")
				_ = os.WriteFile(filepath.Join(rp, "summary.json"), b, 0o644)
				viols = append(viols, Viol{Replay: rp, Summary: fmt.Sprintf("spelling [%s] changes the output (base fp %s, respelled fp %s; base failed=%q respelled failed=%q)\n options=%v", sp, r.fps[0], r.fps[k], r.fails[0], r.fails[k], j.opts)})
			}
		}
		if len(samples) < 4 && i%53 == 1 {
			samples = append(samples, map[string]any{"options": j.opts, "spellings": len(j.sps), "example_spelling": j.sps[len(j.sps)-1].String(), "all_fingerprints_equal": allEqual(r.fps)})
		}
		for _, d := range r.dirs {
			_ = os.RemoveAll(d)
		}
	}
	o := &Outcome{Level: "exploration", Violations: viols}
	o.Coverage = map[string]any{
		"evaluations":         runs,
		"distinct_nontrivial": len(sigs),
		"rule":                "random schemas (refs into definitions, untyped subschemas as property/items/additionalProperties, a dependency keyword, property names that look numeric/boolean) (a quarter of them with a sibling document referenced without file extension, same format as the root, found through --resolve-extension) rendered in a base spelling and in sampled combinations of {JSON, YAML block, YAML flow, YAML with unquoted keys/scalars} x {$id,id} x {$defs,definitions} x {pointer prefix #/$defs/, #/definitions/, other letter case} x {type string, one-element list} x {{} , true} x {dependentSchemas, dependencies}; the CLI output (bytes, stdout, exit status) of every spelling must equal the base's; distinct_nontrivial = distinct spelling combinations exercised",
		"samples":             samples,
		"schemas":             len(jobs),
		"cli_runs":            runs,
		"runs_exit0":          accepted,
	}
	if len(samples) == 0 {
		o.Coverage["samples"] = []any{"none"}
	}
	o.Assumptions = []string{"both runs get --resolve-extension .json/.yaml so that the root type name does not depend on the file extension", "the harness's own YAML writer emits YAML that means the same document (double-quoted JSON-style scalars; bare form only for plain-safe strings)"}
	if accepted < runs/2 {
		o.Inconclusive = fmt.Sprintf("only %d of %d runs accepted", accepted, runs)
	}
	return o, nil
}

func allEqual(s []string) bool {
	for _, x := range s {
		if x != s[0] {
			return false
		}
	}
	return true
}
