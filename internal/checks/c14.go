package checks

import (
	"bufio"
	"bytes"
	"encoding/json"
	"fmt"
	"go/ast"
	"go/token"
	"os"
	"path/filepath"
	"strings"
	"unicode"

	"verif/internal/docgen"
	"verif/internal/evid"
	"verif/internal/gocheck"
	"verif/internal/jsonx"
	"verif/internal/sem"
	"verif/internal/sg"
	"verif/internal/stage"
)

func init() { Register("C14", c14) }

// one representative per character class
var c14Alphabet = []string{
	"a", "B", "ǅ", "日", "ʰ", "ß", "7", "٣", "²", "Ⅷ", "_", "-", " ", ".", "$", "+", "*", "𝒜", "😀", "́", "é", "Ω",
}

var c14CapLists = [][]string{nil, {"ID"}, {"id"}, {"aB7", "URL"}, {"ß"}, {"日"}, {"iOS", "gRPC"},
	// entries that are not single words: separators, blanks, dots, symbols, the empty entry (the option takes any text)
	{"Wi-Fi", "e_mail"}, {"a b", "x.y", "a-B"}, {"-", "", "²", "*"}, {"a", "A", "aa"}}

type idReq struct {
	S    string   `json:"s"`
	Caps []string `json:"caps"`
	Exts []string `json:"exts"`
	File bool     `json:"file"`
}

// identifierMonitor calls the real Identifierize / IdentifierFromFileName on every string of bounded length over the
// class alphabet and asserts: valid Go identifier, exported.
func identifierMonitor(ctx *Ctx) (calls int, classes int, viols []Viol, samples []any, err error) {
	bin, err := ctx.Env.BuildInDrv(false)
	if err != nil {
		return 0, 0, nil, nil, err
	}
	maxLen := ctx.N(3, 4)
	var strs []string
	var gen func(prefix string, n int)
	gen = func(prefix string, n int) {
		strs = append(strs, prefix)
		if n == 0 {
			return
		}
		for _, a := range c14Alphabet {
			gen(prefix+a, n-1)
		}
	}
	gen("", maxLen)
	// real-world-like names, and words that match capitalisation entries at different positions
	for _, w := range []string{"id", "ID", "user_id", "userId", "ios_version", "iosVersion", "min_ios", "grpc-server", "GRPCServer", "url", "base URL", "ab7", "AB7x", "x.json", "my schema.yaml", "1st", "ünï-cödé", "snake_case_name", "kebab-case-name", "dotted.name", "with space", "trailing_", "__dunder__", "CamelCaseHTTPServer", "ßeta", "日本語", "a²", "ⅧSection",
		"wi-fi", "wi_fi", "wiFi", "WiFi", "wifi", "e-mail", "eMail", "e_mail", "a b", "a-b", "aB", "x.y", "xY", "x-y-z", "a", "aa", "a_a"} {
		strs = append(strs, w)
	}
	var reqs []idReq
	for ci, caps := range c14CapLists {
		for i, s := range strs {
			if ci > 0 && len(s) > 6 && i%3 != 0 && ctx.Quick() {
				continue
			}
			reqs = append(reqs, idReq{S: s, Caps: caps})
			if ci < 2 && i%5 == 0 {
				reqs = append(reqs, idReq{S: s + ".json", Caps: caps, Exts: []string{".json", ".yaml"}, File: true})
				reqs = append(reqs, idReq{S: "dir/" + s + ".yaml", Caps: caps, Exts: []string{".yaml"}, File: true})
			}
		}
	}
	var in bytes.Buffer
	for _, r := range reqs {
		j, _ := json.Marshal(r)
		in.Write(j)
		in.WriteByte('\n')
	}
	pr := stage.Run(stage.Proc{Path: bin, Args: []string{"identifiers"}, Stdin: in.Bytes(), CPUSec: 300})
	if pr.Exit != 0 {
		return 0, 0, nil, nil, fmt.Errorf("identifiers driver failed: exit=%d %s", pr.Exit, pr.Stderr)
	}
	sc := bufio.NewScanner(bytes.NewReader(pr.Stdout))
	sc.Buffer(make([]byte, 1<<16), 1<<22)
	i := 0
	seen := map[string]bool{}
	shapes := map[string]bool{}
	for sc.Scan() {
		if i >= len(reqs) {
			break
		}
		var res map[string]string
		if err := json.Unmarshal(sc.Bytes(), &res); err != nil {
			return 0, 0, nil, nil, fmt.Errorf("bad driver line: %v", err)
		}
		r := reqs[i]
		i++
		calls++
		shapes[classShape(r.S)+fmt.Sprint(len(r.Caps), r.File)] = true
		id := res["id"]
		bad := ""
		switch {
		case res["panic"] != "":
			bad = "panic: " + res["panic"]
		case !token.IsIdentifier(id):
			bad = fmt.Sprintf("%q is not a valid Go identifier", id)
		case !ast.IsExported(id):
			bad = fmt.Sprintf("%q is not exported", id)
		}
		if len(samples) < 5 && calls%9973 == 11 {
			samples = append(samples, map[string]any{"name": r.S, "capitalizations": r.Caps, "file": r.File, "identifier": id})
		}
		if bad != "" {
			key := classShape(r.S) + "|" + fmt.Sprint(r.Caps)
			if seen[key] || len(viols) >= 8 {
				continue
			}
			seen[key] = true
			b, _ := json.MarshalIndent(map[string]any{"property": "C14", "monitor": "Identifierize", "call": r, "result": res, "problem": bad}, "", " ")
			p := filepath.Join(evid.ReplayDir(), fmt.Sprintf("C14-ident-%d.json", len(viols)))
			_ = os.WriteFile(p, b, 0o644)
			viols = append(viols, Viol{Replay: p, Summary: fmt.Sprintf("Identifierize(%q, capitalizations=%v, file=%v) -> %s", r.S, r.Caps, r.File, bad)})
		}
	}
	if i != len(reqs) {
		return calls, len(shapes), viols, samples, fmt.Errorf("driver answered %d of %d calls", i, len(reqs))
	}
	return calls, len(shapes), viols, samples, nil
}

func classShape(s string) string {
	var b strings.Builder
	for _, r := range s {
		found := false
		for i, a := range c14Alphabet {
			if []rune(a)[0] == r {
				fmt.Fprintf(&b, "%c", 'a'+rune(i))
				found = true
				break
			}
		}
		if !found {
			b.WriteByte('?')
		}
	}
	return b.String()
}

// name pools for the end-to-end part
var c14NamesClean = []string{
	"a b", "a-b", "aB", "a_b", "AB", "ab", "a.b", "Ab", // collide after normalisation
	"id", "ID", "Id", "user id", "user_id", "userId",
	"日本", "日本語", "ünï", "ß", "ßeta", "Ωmega", "ǅx", "x²", "Ⅷ", "٣x",
	"1st", "2", "007", "x1", "1x",
	"$ref-like", "@type", "+plus", "#hash", "a/b", "a:b", "a;b", "a=b", "a?b", "a&b", "a|b", "a%b", "(paren)", "[brack]", "{brace}", "<angle>", "a!b", "tab\tsep",
	"*", "**", "😀", "a😀b", "𝒜script",
	"a  b", " lead", "trail ", "_", "__", "a__b", "-a", "a-",
}

// names that cannot live in a Go struct tag or that encoding/json reads as options (recorded finding name-breaks-tag)
var c14NamesHazard = []string{`quo"te`, `back\slash`, "back`tick", "new\nline", "com,ma", "-", "", `a"b,c`}

// jsonTagSafe mirrors encoding/json's rule for a usable tag name; other names cannot be bound by a struct tag at all
// (recorded finding name-breaks-tag).
func jsonTagSafe(name string) bool {
	if name == "" || name == "-" {
		return false
	}
	for _, c := range name {
		switch {
		case strings.ContainsRune("!#$%&()*+-./:;<=>?@[]^_{|}~ ", c):
		case unicode.IsLetter(c) || unicode.IsDigit(c):
		default:
			return false
		}
	}
	return true
}

func c14(ctx *Ctx) (*Outcome, error) {
	calls, shapes, idViols, idSamples, err := identifierMonitor(ctx)
	if err != nil {
		return nil, err
	}
	var clean []string
	hazard := append([]string{}, c14NamesHazard...)
	for _, nme := range c14NamesClean {
		if jsonTagSafe(nme) {
			clean = append(clean, nme)
		} else {
			hazard = append(hazard, nme)
		}
	}
	c14NamesClean := clean
	// end to end: sibling sets drawn from pools that collide after normalisation; definitions, titles and file names too
	n := ctx.N(260, 5000)
	var cases []*sem.Case
	for i := 0; i < n; i++ {
		r := sg.NewRng(ctx.Seed, fmt.Sprintf("C14-case-%d", i))
		o := sg.Opts{MaxDepth: 2, NoFormats: true, Names: c14NamesClean, PNullable: 0.15, PDefault: 0.15, PAddProps: 0.15,
			W: map[string]float64{"object": 4, "string": 3, "integer": 3, "enum": 1.5, "ref": 2, "compose": 0.5, "array": 1, "untyped": 0.3}}
		g := sg.NewGen(r, o)
		root := g.Root()
		// more siblings: a dense sample of the pool on the root
		perm := r.Perm(len(c14NamesClean))
		have := map[string]bool{}
		for _, p := range root.Props {
			have[p.Name] = true
		}
		for _, k := range perm[:6+r.IntN(8)] {
			name := c14NamesClean[k]
			if have[name] {
				continue
			}
			have[name] = true
			var s *sg.Schema
			switch r.IntN(3) {
			case 0:
				s = &sg.Schema{Types: []string{"string"}}
			case 1:
				s = &sg.Schema{Types: []string{"integer"}}
			default:
				s = &sg.Schema{Types: []string{"object"}, Props: []sg.Prop{{Name: sg.PickOf(r, c14NamesClean), S: &sg.Schema{Types: []string{"string"}}}}}
			}
			root.Props = append(root.Props, sg.Prop{Name: name, S: s})
			if r.Chance(0.3) {
				root.Required = append(root.Required, name)
			}
		}
		// definitions whose names collide after normalisation but differ in content
		if i%3 == 0 {
			for k, dn := range []string{"my def", "my-def", "MyDef", "日本 def", "x²y", "2nd"} {
				if r.Chance(0.5) {
					d := &sg.Schema{Types: []string{"object"}, Props: []sg.Prop{{Name: fmt.Sprintf("f%d", k), S: &sg.Schema{Types: []string{"integer"}, Min: sg.Fp(float64(k))}}}, Required: []string{fmt.Sprintf("f%d", k)}}
					root.Defs = append(root.Defs, sg.Prop{Name: dn, S: d})
					root.Props = append(root.Props, sg.Prop{Name: fmt.Sprintf("ref%d", k), S: &sg.Schema{Ref: "#/$defs/" + dn, Target: d}})
				}
			}
		}
		c := &sem.Case{Root: root, Sig: fmt.Sprintf("names:%d", i)}
		switch i % 4 {
		case 1:
			c.Args = []string{"--capitalization", sg.PickOf(r, []string{"ID", "id", "iOS,gRPC", "URL,ID,Ab", "a-b,user_id", "A B,a.b"})}
		case 2:
			root.Title = sg.PickOf(r, []string{"my title", "ünï title", "2nd title", "日本", "x²", "title-with-dash", "*"})
			c.Args = []string{"--struct-name-from-title"}
			c.RootType = "" // derived below from the emitted file
		case 3:
			c.RootFile = sg.PickOf(r, []string{"my schema.json", "1st.json", "ünï-cödé.json", "x².json", "UPPER.JSON", "a.b.c.json"})
		}
		cases = append(cases, c)
	}
	for i := 0; i < ctx.N(72, 288); i++ {
		cases = append(cases, collisionTripleCase(i, sg.NewRng(ctx.Seed, fmt.Sprintf("C14-triple-%d", i))))
	}
	for i := 0; i < ctx.N(32, 160); i++ {
		c := internalNameCase(i, sg.NewRng(ctx.Seed, fmt.Sprintf("C14-internal-%d", i)))
		if i%3 == 0 {
			c.Args = append(c.Args, "--extra-imports")
		}
		cases = append(cases, c)
	}
	for i := 0; i < ctx.N(16, 32); i++ {
		cases = append(cases, identifierCollisionCase(i))
	}
	for i := 0; i < ctx.N(24, 48); i++ {
		cases = append(cases, suffixLookalikeCase(i))
	}
	for i := 0; i < 12; i++ {
		cases = append(cases, objectDefaultCase(i))
	}
	for i := 0; i < 128; i++ {
		cases = append(cases, collisionKindsCase(i))
	}
	for i := 0; i < 9; i++ {
		cases = append(cases, anyOfAliasCollisionCase(i))
	}
	for i := 0; i < 12; i++ {
		cases = append(cases, caseDefCompositionCase(i))
	}
	for i := 0; i < ctx.N(96, 240); i++ {
		cases = append(cases, siblingCollisionSetCase(i))
	}
	for i := 0; i < 18; i++ {
		cases = append(cases, derivedNameCollisionCase(i))
	}
	for i := 0; i < 24; i++ {
		cases = append(cases, branchFieldCollisionCase(i))
	}
	for i := 0; i < 3*nearTwinVariants; i++ {
		// distinct schemas, distinct types: two contenders for one type name that differ in a single keyword
		cases = append(cases, nearTwinCase(i))
	}
	// pinned witness of the recorded finding name-breaks-tag
	for _, hn := range hazard {
		root := &sg.Schema{Types: []string{"object"}, Props: []sg.Prop{{Name: hn, S: &sg.Schema{Types: []string{"string"}}}, {Name: "plain", S: &sg.Schema{Types: []string{"integer"}}}}}
		doc := jsonx.Obj{{K: hn, V: "bound-value"}, {K: "plain", V: jsonx.N(3)}}
		cases = append(cases, &sem.Case{Root: root, Sig: "witness:name-breaks-tag", NoAuto: true, Witness: "name-breaks-tag", Docs: []docgen.Doc{{V: doc, Class: "pinned", Label: "witness"}}})
	}
	cfg := &sem.Config{Prop: "C14", Tier: ctx.Tier, Seed: ctx.Seed, Cases: cases, Classes: docgen.Classes{"delopt": true, "required": true, "type": true}, Valid: 5, PerSite: 2, MaxDocs: 60,
		Env: ctx.Env, Values: true, RootTypeFromOutput: true}
	// AST census: field names distinct per struct, every tag key carries exactly the property name
	fieldsSeen, tagBad, dupKnown := 0, 0, 0
	var cviol []Viol
	cfg.AfterBatch = func(cases []*sem.Case) {
		for _, c := range cases {
			p := sem.ProgramOf(c)
			if p != nil && p.Report != nil && p.Report.File != nil && c.Witness == "" {
				// distinct schema types have distinct Go names: no type is declared twice (also judged on files that
				// do not type-check - a duplicate is exactly why they would not)
				seenT := map[string]bool{}
				for _, tn := range gocheck.TypeNames(p.Report.File) {
					if seenT[tn] {
						if ctx.Known.Has("nested-collision-duplicate-type") && len(collidingDefRefs(c.Root)) > 0 {
							dupKnown++
							continue
						}
						tagBad++
						if len(cviol) < 5 {
							b, _ := json.MarshalIndent(map[string]any{"property": "C14", "kind": "ast-census", "problem": "type " + tn + " declared twice", "schema": json.RawMessage(jsonx.Marshal(c.Root.ToJSON())), "args": c.Args, "emitted": string(p.Src)}, "", " ")
							path := filepath.Join(evid.ReplayDir(), fmt.Sprintf("C14-census-%d.json", len(cviol)))
							_ = os.WriteFile(path, b, 0o644)
							cviol = append(cviol, Viol{Replay: path, Summary: fmt.Sprintf("AST census: type %s is declared twice (two schema types share one Go name)\n schema=%s", tn, trunc(string(jsonx.Marshal(c.Root.ToJSON())), 500))})
						}
					}
					seenT[tn] = true
				}
				// ... and no struct declares a field twice (two properties share one Go name)
				if !p.Usable() {
					ast.Inspect(p.Report.File, func(nd ast.Node) bool {
						st, ok := nd.(*ast.StructType)
						if !ok {
							return true
						}
						seenF := map[string]bool{}
						for _, fl := range st.Fields.List {
							for _, nm := range fl.Names {
								if seenF[nm.Name] {
									tagBad++
									if len(cviol) < 5 {
										b, _ := json.MarshalIndent(map[string]any{"property": "C14", "kind": "ast-census", "problem": "field " + nm.Name + " declared twice", "schema": json.RawMessage(jsonx.Marshal(c.Root.ToJSON())), "args": c.Args, "emitted": string(p.Src)}, "", " ")
										path := filepath.Join(evid.ReplayDir(), fmt.Sprintf("C14-census-%d.json", len(cviol)))
										_ = os.WriteFile(path, b, 0o644)
										cviol = append(cviol, Viol{Replay: path, Summary: fmt.Sprintf("AST census: field %s is declared twice in one struct (two properties share one Go name)\n schema=%s", nm.Name, trunc(string(jsonx.Marshal(c.Root.ToJSON())), 500))})
									}
								}
								seenF[nm.Name] = true
							}
						}
						return true
					})
				}
			}
			if p == nil || !p.Usable() || c.Witness != "" {
				continue
			}
			names := map[string]bool{}
			c.Root.Walk(func(x *sg.Schema) {
				for _, pr := range x.Props {
					names[pr.Name] = true
				}
			})
			ast.Inspect(p.Report.File, func(nd ast.Node) bool {
				st, ok := nd.(*ast.StructType)
				if !ok {
					return true
				}
				seen := map[string]bool{}
				for _, fl := range st.Fields.List {
					for _, nm := range fl.Names {
						fieldsSeen++
						msg := ""
						if seen[nm.Name] {
							msg = "duplicate field " + nm.Name
						}
						seen[nm.Name] = true
						if !token.IsIdentifier(nm.Name) || !ast.IsExported(nm.Name) {
							msg = fmt.Sprintf("field %q is not a valid exported identifier", nm.Name)
						}
						if fl.Tag != nil && msg == "" {
							tag := strings.Trim(fl.Tag.Value, "`")
							if tag != `mapstructure:",remain"` {
								for _, m := range reTag.FindAllStringSubmatch(tag, -1) {
									val := strings.TrimSuffix(m[2], ",omitempty")
									if !names[val] {
										msg = fmt.Sprintf("field %s: tag %s:%q names no property of the schema", nm.Name, m[1], m[2])
									}
								}
							}
						}
						if msg != "" {
							tagBad++
							if len(cviol) < 5 {
								b, _ := json.MarshalIndent(map[string]any{"property": "C14", "kind": "ast-census", "problem": msg, "schema": json.RawMessage(jsonx.Marshal(c.Root.ToJSON())), "args": c.Args, "emitted": string(p.Src)}, "", " ")
								path := filepath.Join(evid.ReplayDir(), fmt.Sprintf("C14-census-%d.json", len(cviol)))
								_ = os.WriteFile(path, b, 0o644)
								cviol = append(cviol, Viol{Replay: path, Summary: "AST census: " + msg})
							}
						}
					}
				}
				return true
			})
			for _, tn := range gocheck.TypeNames(p.Report.File) {
				if !token.IsIdentifier(tn) || !ast.IsExported(tn) {
					tagBad++
					if len(cviol) < 5 {
						cviol = append(cviol, Viol{Replay: p.Dir, Summary: fmt.Sprintf("AST census: type name %q is not a valid exported identifier", tn)})
					}
				}
			}
		}
	}
	rep, err := sem.Run(cfg)
	if err != nil {
		return nil, err
	}
	o := FromSem(ctx, rep, "(a) the real Identifierize / IdentifierFromFileName called on every string of length <= 3 (thorough 4) over one representative per character class (lower, upper, title-case, caseless, modifier letter, uncased-to-upper lower, ASCII and non-ASCII decimal digit, other numeral, letter-number, separators, symbols, '*', non-BMP letter and symbol, combining mark) x capitalization lists (incl. lower-case-initial entries), plus file names with resolve extensions: result must be a valid exported Go identifier (exhaustive for that abstraction); (b) generated code for sibling sets, definition names, titles and file names that collide after normalisation: go/ast census (fields distinct and exported, every tag key carries exactly a property name of the schema) and binding round trip (documents with a value per key must come back with each value under its own key, verdicts as the model says)",
		2000, commonAssumptions)
	o.Coverage["identifierize_calls"] = calls
	o.Coverage["identifierize_class_shapes"] = shapes
	o.Coverage["identifierize_exhaustive_over_alphabet"] = true
	o.Coverage["identifierize_samples"] = idSamples
	o.Coverage["ast_fields_checked"] = fieldsSeen
	o.Coverage["ast_census_violations"] = tagBad
	o.Coverage["duplicate_type_declarations_explained_by_recorded_finding"] = dupKnown
	o.Coverage["evaluations"] = rep.Decided + calls
	o.Coverage["distinct_nontrivial"] = len(rep.Sigs) + shapes
	o.Violations = append(append(idViols, cviol...), o.Violations...)
	return o, nil
}
