package checks

import (
	"bytes"
	"encoding/json"
	"fmt"
	"os"
	"path/filepath"
	"regexp"
	"sort"
	"strings"
	"verif/internal/gocheck"

	"verif/internal/batch"
	"verif/internal/cli"
	"verif/internal/evid"
	"verif/internal/jsonx"
	"verif/internal/sg"
	"verif/internal/stage"
)

func init() { Register("C18", c18) }

// slot is a position in a schema document where a subschema sits.
type slot struct {
	path []any
	kind string // property, items, definition, allOf, anyOf
}

func collectSlots(v any, path []any, out *[]slot, depth int) {
	o, ok := v.(jsonx.Obj)
	if !ok || depth > 8 {
		return
	}
	for _, kv := range o {
		switch kv.K {
		case "properties", "$defs", "definitions":
			if po, ok := kv.V.(jsonx.Obj); ok {
				kind := "property"
				if kv.K != "properties" {
					kind = "definition"
				}
				for _, p := range po {
					np := append(append([]any{}, path...), kv.K, p.K)
					*out = append(*out, slot{np, kind})
					collectSlots(p.V, np, out, depth+1)
				}
			}
		case "items":
			np := append(append([]any{}, path...), kv.K)
			*out = append(*out, slot{np, "items"})
			collectSlots(kv.V, np, out, depth+1)
		case "allOf", "anyOf":
			if a, ok := kv.V.([]any); ok {
				for i, e := range a {
					np := append(append([]any{}, path...), kv.K, i)
					*out = append(*out, slot{np, kv.K})
					collectSlots(e, np, out, depth+1)
				}
			}
		}
	}
}

func setAt(v any, path []any, nv any) any {
	if len(path) == 0 {
		return nv
	}
	switch t := v.(type) {
	case jsonx.Obj:
		k := path[0].(string)
		n := make(jsonx.Obj, len(t))
		copy(n, t)
		for i := range n {
			if n[i].K == k {
				n[i].V = setAt(n[i].V, path[1:], nv)
			}
		}
		return n
	case []any:
		i := path[0].(int)
		n := make([]any, len(t))
		copy(n, t)
		n[i] = setAt(n[i], path[1:], nv)
		return n
	}
	return v
}

type faultKind struct {
	name   string
	schema any
	files  []batch.File
}

var c18Faults = []faultKind{
	{name: "unknown-type", schema: jsonx.Obj{{K: "type", V: "strnig"}}},
	{name: "ref-missing-definition", schema: jsonx.Obj{{K: "$ref", V: "#/$defs/DoesNotExist"}}},
	{name: "ref-missing-file", schema: jsonx.Obj{{K: "$ref", V: "./does-not-exist.json"}}},
	{name: "ref-unsupported-scheme", schema: jsonx.Obj{{K: "$ref", V: "ftp://example.com/x.json"}}},
	{name: "ref-not-into-definitions", schema: jsonx.Obj{{K: "$ref", V: "#/properties/x"}}},
	{name: "empty-enum", schema: jsonx.Obj{{K: "enum", V: []any{}}}},
	{name: "empty-enum-typed", schema: jsonx.Obj{{K: "type", V: "string"}, {K: "enum", V: []any{}}}},
	{name: "non-primitive-enum", schema: jsonx.Obj{{K: "enum", V: []any{jsonx.Obj{{K: "x", V: jsonx.N(1)}}}}}},
	{name: "non-primitive-enum-array-value", schema: jsonx.Obj{{K: "enum", V: []any{"a", []any{jsonx.N(1)}}}}},
	{name: "integer-enum-with-string", schema: jsonx.Obj{{K: "type", V: "integer"}, {K: "enum", V: []any{"a"}}}},
	{name: "ref-missing-definition-in-file", schema: jsonx.Obj{{K: "$ref", V: "./lib.json#/$defs/Nope"}}, files: []batch.File{{Path: "lib.json", Data: []byte(`{"type":"object","$defs":{"Yes":{"type":"string"}}}`)}}},
	{name: "mixed-enum-later-non-primitive", schema: jsonx.Obj{{K: "enum", V: []any{"a", jsonx.N(1), jsonx.Obj{{K: "x", V: jsonx.N(1)}}}}}},
	{name: "typed-enum-non-primitive", schema: jsonx.Obj{{K: "type", V: "string"}, {K: "enum", V: []any{jsonx.Obj{{K: "x", V: jsonx.N(1)}}}}}},
	{name: "null-subschema", schema: nil},
	{name: "ref-to-unparsable-file", schema: jsonx.Obj{{K: "$ref", V: "./broken.json"}}, files: []batch.File{{Path: "broken.json", Data: []byte(`{"type": "object", `)}}},
	// a whole-file reference to documents that have no root schema to refer to
	{name: "ref-to-rootless-file", schema: jsonx.Obj{{K: "$ref", V: "./defsonly.json"}}, files: []batch.File{{Path: "defsonly.json", Data: []byte(`{"$defs":{"X":{"type":"string"}}}`)}}},
	{name: "ref-to-rootless-file-with-id", schema: jsonx.Obj{{K: "$ref", V: "./idonly.json"}}, files: []batch.File{{Path: "idonly.json", Data: []byte(`{"$id":"https://example.com/idonly","definitions":{"X":{"type":"object","properties":{"a":{"type":"string"}}}}}`)}}},
	{name: "ref-to-empty-object-file", schema: jsonx.Obj{{K: "$ref", V: "./empty.json"}}, files: []batch.File{{Path: "empty.json", Data: []byte(`{}`)}}},
}

var rePanic = regexp.MustCompile(`(?m)^(panic:|fatal error:|goroutine \d+ \[|runtime error:|\[signal )`)

const sentinel = "// SENTINEL: pre-existing output that a failing run must not touch\n"

// judgeFailing applies the "fails loudly and cleanly" oracle to a run that MUST fail.
func judgeFailing(r *cli.Result, outFile string) string {
	p := r.Proc
	switch {
	case p.TimedOut:
		return "" // inconclusive, counted separately
	case p.CPULimit:
		return "hang: CPU limit hit"
	case p.Signal != "":
		return "killed by signal " + p.Signal
	case rePanic.Match(p.Stderr) || rePanic.Match(p.Stdout):
		return "panic / runtime fatal: " + firstMatchLine(p.Stderr)
	case p.Exit == 0:
		return "exit status 0 although an element cannot be generated / the input is invalid"
	case len(p.Stdout) > 0:
		return fmt.Sprintf("%d bytes on stdout of a failing run", len(p.Stdout))
	case len(bytes.TrimSpace(p.Stderr)) == 0:
		return "non-zero exit without a diagnostic on stderr"
	}
	if len(r.Created) > 0 {
		return fmt.Sprintf("failing run created %v", r.Created)
	}
	if len(r.Changed) > 0 {
		return fmt.Sprintf("failing run modified %v", r.Changed)
	}
	if len(r.Removed) > 0 {
		return fmt.Sprintf("failing run removed %v", r.Removed)
	}
	return ""
}

// judgeAny applies the oracle that holds for every run: terminates, never panics, and is all-or-nothing.
func judgeAny(r *cli.Result) string {
	p := r.Proc
	switch {
	case p.TimedOut:
		return ""
	case p.CPULimit:
		return "hang: CPU limit hit"
	case p.Signal != "":
		return "killed by signal " + p.Signal
	case rePanic.Match(p.Stderr) || rePanic.Match(p.Stdout):
		return "panic / runtime fatal: " + firstMatchLine(p.Stderr)
	case p.Exit != 0 && len(bytes.TrimSpace(p.Stderr)) == 0:
		return "non-zero exit without a diagnostic on stderr"
	case p.Exit != 0 && len(p.Stdout) > 0:
		return fmt.Sprintf("%d bytes on stdout of a failing run", len(p.Stdout))
	case p.Exit != 0 && (len(r.Created) > 0 || len(r.Changed) > 0):
		return fmt.Sprintf("failing run created/modified %v %v", r.Created, r.Changed)
	}
	return ""
}

func firstMatchLine(b []byte) string {
	for _, l := range strings.Split(string(b), "\n") {
		if rePanic.MatchString(l) {
			return trunc(l, 200)
		}
	}
	return ""
}

type c18job struct {
	class   string // fault class for accounting
	label   string
	inv     *cli.Inv
	must    bool // the run must fail
	outFile string
	known   string // sig of the recorded finding this case is a pinned witness of
	inproc  map[string]any
	doc     any   // the mutated schema document (injected faults)
	path    []any // where the fault sits
}

func c18(ctx *Ctx) (*Outcome, error) {
	var jobs []*c18job
	basesRefused := 0
	nBase := ctx.N(60, 900)
	perBase := ctx.N(40, 70)
	// 1. structural faults injected into valid schemas
	for i := 0; i < nBase; i++ {
		r := sg.NewRng(ctx.Seed, fmt.Sprintf("C18-base-%d", i))
		g := sg.NewGen(r, sg.Opts{MaxDepth: 3, PDefault: 0.2, PAddProps: 0.2, AnyBranch: i%2 == 1, W: map[string]float64{"object": 4, "array": 3, "compose": 3.5, "ref": 2.5}})
		root := g.Root()
		if i%2 == 1 {
			// array-typed branches at every index of an anyOf / allOf, items being objects, scalars and nested arrays
			arr := func(it *sg.Schema) *sg.Schema { return &sg.Schema{Types: []string{"array"}, Items: it} }
			obj := &sg.Schema{Types: []string{"object"}, Props: []sg.Prop{{Name: "inarr", S: &sg.Schema{Types: []string{"string"}}}}}
			bs := []*sg.Schema{{Types: []string{"string"}}, arr(obj), arr(&sg.Schema{Types: []string{"integer"}}), arr(arr(&sg.Schema{Types: []string{"boolean"}}))}
			r.Shuffle(len(bs), func(a, b int) { bs[a], bs[b] = bs[b], bs[a] })
			root.Props = append(root.Props, sg.Prop{Name: "mixedAny", S: &sg.Schema{AnyOf: bs}})
		}
		{
			// the base itself must be accepted, otherwise an injected fault proves nothing
			binv := &cli.Inv{Files: []batch.File{{Path: "root.json", Data: jsonx.MarshalIndent(root.ToJSON())}}, Args: []string{"-p", "faulty", "-o", "out/gen.go", "root.json"}}
			br := cli.Run(ctx.Env, binv)
			okBase := br.Proc.Exit == 0
			br.Cleanup()
			if !okBase {
				basesRefused++
				// a refused base is still a run: it goes through the all-runs oracle (clean diagnostic, no panic)
				jobs = append(jobs, &c18job{class: "valid:base-refused", label: "fault-free base schema refused", inv: binv, outFile: "out/gen.go"})
				continue
			}
		}
		if len(root.Defs) == 0 {
			root.Defs = []sg.Prop{{Name: "Spare", S: &sg.Schema{Types: []string{"object"}, Props: []sg.Prop{{Name: "q", S: &sg.Schema{Types: []string{"string"}}}}}}}
		}
		base := root.ToJSON()
		var slots []slot
		collectSlots(base, nil, &slots, 0)
		if len(slots) == 0 {
			continue
		}
		yaml := i%4 == 3
		for k := 0; k < perBase; k++ {
			sl := slots[r.IntN(len(slots))]
			fk := c18Faults[(k+i)%len(c18Faults)]
			mut := setAt(base, sl.path, fk.schema)
			name, data := "root.json", jsonx.MarshalIndent(mut)
			if yaml {
				name, data = "root.yaml", sg.ToYAML(mut, sg.YAMLBlock)
			}
			outFile := "out/gen.go"
			args := []string{"-p", "faulty", "-o", outFile}
			if k%3 == 0 {
				args = append(args, "--extra-imports")
			}
			if k%7 == 0 {
				args = []string{"-p", "faulty"} // stdout mode
				outFile = ""
			}
			switch k % 5 {
			case 2:
				// what cannot be generated cannot be generated as a model either
				args = append(args, "--only-models")
			case 4:
				args = append(args, "--min-sized-ints", "--struct-name-from-title")
			}
			args = append(args, name)
			inv := &cli.Inv{Files: append([]batch.File{{Path: name, Data: data}}, fk.files...), Args: args}
			if outFile != "" {
				inv.Seed = map[string][]byte{outFile: []byte(sentinel)}
			}
			// the statement speaks of property / array item / definition positions (also inside allOf/anyOf branches);
			// replacing a whole branch by a non-object schema is outside it: judged by the all-runs oracle only
			must := sl.kind != "allOf" && sl.kind != "anyOf"
			if fk.name == "null-subschema" && sl.kind == "items" {
				must = false // "items": null reads as "no items keyword" (elements become interface{}): not an error by the statement
			}
			j := &c18job{class: "inject:" + fk.name + "@" + sl.kind, label: fmt.Sprintf("%s at %s", fk.name, pathStr(sl.path)), inv: inv, must: must, outFile: outFile}
			j.doc, j.path = mut, sl.path
			j.inproc = map[string]any{"files": []string{name}, "config": map[string]any{"DefaultPackageName": "faulty", "DefaultOutputName": "out/gen.go", "YAMLExtensions": []string{".yml", ".yaml"}, "Tags": []string{"json"}}}
			jobs = append(jobs, j)
		}
		// 2. byte-level faults on the same document
		text := jsonx.MarshalIndent(base)
		for k := 0; k < ctx.N(14, 30); k++ {
			b := append([]byte{}, text...)
			label := ""
			switch k % 7 {
			case 0:
				b = b[:len(b)*(1+r.IntN(9))/10]
				label = "truncated"
			case 1:
				pos := r.IntN(len(b))
				b[pos] ^= byte(1 << r.IntN(8))
				label = "bit-flip"
			case 2:
				pos := r.IntN(len(b))
				b = append(b[:pos], b[pos+1:]...)
				label = "byte-deleted"
			case 3:
				pos := r.IntN(len(b))
				b = append(b[:pos], append([]byte{sg.PickOf(r, []byte(`{}[],:"`))}, b[pos:]...)...)
				label = "structural-byte-inserted"
			case 4:
				pos := r.IntN(len(b))
				b = append(b[:pos], append(append([]byte{}, b[pos:]...), b[pos:]...)...)
				label = "tail-duplicated"
			case 5:
				b = make([]byte, 1+r.IntN(200))
				for x := range b {
					b[x] = byte(r.IntN(256))
				}
				label = "random-bytes"
			case 6:
				b = bytes.Replace(b, []byte(`"type"`), []byte(`"type": 5, "x"`), 1)
				label = "wrong-keyword-value-type"
			}
			name := "root.json"
			if k%5 == 4 {
				name = "root.yaml"
			}
			_, perr := jsonx.Parse(b)
			must := perr != nil && name == "root.json" && !decodableFirstValue(b)
			inv := &cli.Inv{Files: []batch.File{{Path: name, Data: b}}, Args: []string{"-p", "faulty", "-o", "out/gen.go", name}, Seed: map[string][]byte{"out/gen.go": []byte(sentinel)}}
			jobs = append(jobs, &c18job{class: "bytes:" + label + ":" + filepath.Ext(name), label: label, inv: inv, must: must, outFile: "out/gen.go",
				inproc: map[string]any{"files": []string{name}, "config": map[string]any{"DefaultPackageName": "faulty", "DefaultOutputName": "out/gen.go", "YAMLExtensions": []string{".yml", ".yaml"}}}})
		}
	}
	// 3. flags and files
	good := []byte(`{"$id":"https://example.com/a","type":"object","properties":{"x":{"type":"string"}}}`)
	good2 := []byte(`{"$id":"https://example.com/b","type":"object","properties":{"y":{"type":"integer"}}}`)
	flagCases := []struct {
		label string
		args  []string
		must  bool
	}{
		{"schema-package without =", []string{"-p", "x", "--schema-package", "https://example.com/a", "-o", "o.go", "a.json"}, true},
		{"schema-output without =", []string{"-p", "x", "--schema-output", "nothing", "-o", "o.go", "a.json"}, true},
		{"schema-root-type without =", []string{"-p", "x", "--schema-root-type", "Foo", "-o", "o.go", "a.json"}, true},
		{"unknown flag", []string{"-p", "x", "--no-such-flag", "-o", "o.go", "a.json"}, true},
		{"no package", []string{"-o", "o.go", "a.json"}, true},
		{"no arguments", []string{"-p", "x", "-o", "o.go"}, true},
		{"flag missing its value", []string{"-p", "x", "a.json", "-o"}, true},
		{"missing input file", []string{"-p", "x", "-o", "o.go", "nope.json"}, true},
		{"input is a directory", []string{"-p", "x", "-o", "o.go", "adir"}, true},
		{"dangling symlink input", []string{"-p", "x", "-o", "o.go", "dangling.json"}, true},
		{"second input missing", []string{"-p", "x", "-o", "o.go", "a.json", "nope.json"}, true},
		{"first input missing, second fine", []string{"-p", "x", "-o", "o.go", "nope.json", "a.json"}, true},
		{"first input broken, second fine", []string{"-p", "x", "-o", "o.go", "broken.json", "a.json"}, true},
		{"first input ungeneratable, second fine", []string{"-p", "x", "-o", "o.go", "badtype.json", "a.json"}, true},
		{"first input ungeneratable, second fine, stdout", []string{"-p", "x", "badtype.json", "a.json"}, true},
		{"middle input ungeneratable", []string{"-p", "x", "-o", "o.go", "a.json", "badref.json", "b.json"}, true},
		{"middle input broken, outputs mapped", []string{"-p", "x", "--schema-output", "https://example.com/a=oa.go", "--schema-output", "https://example.com/b=ob.go", "-o", "o.go", "a.json", "broken.json", "b.json"}, true},
		{"last input ungeneratable", []string{"-p", "x", "-o", "o.go", "a.json", "b.json", "badenum.json"}, true},
		{"ungeneratable definition in a file whose root type name is already taken", []string{"-p", "x", "-o", "o.go", "--resolve-extension", ".json", "ntorder.json", "customer.json"}, true},
		{"the same, stdout", []string{"-p", "x", "--resolve-extension", ".json", "ntorder.json", "customer.json"}, true},
		{"the same, root type name taken through --schema-root-type", []string{"-p", "x", "-o", "o.go", "--schema-root-type", "https://example.com/ntc=Customer", "ntorder.json", "customer.json"}, true},
		{"the same, through titles", []string{"-p", "x", "-o", "o.go", "--struct-name-from-title", "ntorder.json", "customer.json"}, true},
		{"second input broken", []string{"-p", "x", "-o", "o.go", "a.json", "broken.json"}, true},
		{"same output two packages", []string{"--schema-package", "https://example.com/a=example.com/p1", "--schema-output", "https://example.com/a=same.go", "--schema-package", "https://example.com/b=example.com/p2", "--schema-output", "https://example.com/b=same.go", "a.json", "b.json"}, true},
		{"empty package value", []string{"-p", "", "-o", "o.go", "a.json"}, true},
		{"empty schema-package value", []string{"-p", "x", "--schema-package", "https://example.com/a=", "-o", "o.go", "a.json"}, false},
		{"empty file", []string{"-p", "x", "-o", "o.go", "empty.json"}, true},
		{"empty yaml file", []string{"-p", "x", "-o", "o.go", "empty.yaml"}, false},
		{"valid control", []string{"-p", "x", "-o", "o.go", "a.json"}, false},
		{"stdin unparsable", []string{"-p", "x", "-o", "o.go", "-"}, true},
		// a referenced file that is mapped to a package WITHOUT an output file is still read and checked as a whole
		{"ungeneratable sibling definition in a referenced file mapped to a package without output", []string{"-p", "x", "-o", "o.go", "--schema-package", "https://example.com/po=example.com/other", "pkgmain.json"}, true},
		{"the same, root property of the referenced file", []string{"-p", "x", "-o", "o.go", "--schema-package", "https://example.com/po2=example.com/other", "pkgmain2.json"}, true},
		{"the same, missing definition in the referenced file", []string{"-p", "x", "-o", "o.go", "--schema-package", "https://example.com/po3=example.com/other", "pkgmain3.json"}, true},
		{"the same with an output file (control)", []string{"-p", "x", "-o", "o.go", "--schema-package", "https://example.com/po=example.com/other", "--schema-output", "https://example.com/po=other/o.go", "pkgmain.json"}, true},
		// nothing listens on the loopback port: the transport error comes back at once, without any network
		{"http URL as input, connection refused", []string{"-p", "x", "-o", "o.go", "http://127.0.0.1:1/schemas/order.json"}, true},
		{"http URL as second input, connection refused", []string{"-p", "x", "-o", "o.go", "a.json", "http://127.0.0.1:1/schemas/order.yaml"}, true},
		{"$ref to an unreachable http URL", []string{"-p", "x", "-o", "o.go", "httpref.json"}, true},
		{"$ref to an unreachable http URL, whole document, after a fine input", []string{"-p", "x", "-o", "o.go", "a.json", "httpref2.yaml"}, true},
	}
	for rep := 0; rep < ctx.N(2, 6); rep++ {
		for _, fc := range flagCases {
			inv := &cli.Inv{Files: []batch.File{{Path: "a.json", Data: good}, {Path: "b.json", Data: good2}, {Path: "broken.json", Data: []byte(`{"type":`)},
				{Path: "ntorder.json", Data: []byte(`{"$id":"https://example.com/nto","title":"Order","type":"object","properties":{"buyer":{"$ref":"#/$defs/Customer"}},"$defs":{"Customer":{"title":"Customer","type":"object","properties":{"name":{"type":"string"}}}}}`)},
				{Path: "customer.json", Data: []byte(`{"$id":"https://example.com/ntc","title":"Customer","type":"object","properties":{"name":{"type":"string"}},"$defs":{"Loyalty":{"type":"object","properties":{"points":{"type":"strng"}}}}}`)}, {Path: "badtype.json", Data: []byte(`{"$id":"https://example.com/bt","type":"object","properties":{"addr":{"type":"object","properties":{"z":{"type":"string"}}},"w":{"type":"kilogram"}}}`)},
				{Path: "badref.json", Data: []byte(`{"$id":"https://example.com/br","type":"object","properties":{"r":{"$ref":"#/$defs/Nope"}}}`)}, {Path: "badenum.json", Data: []byte(`{"$id":"https://example.com/be","type":"object","properties":{"e":{"enum":[]}}}`)}, {Path: "empty.json", Data: nil}, {Path: "empty.yaml", Data: nil},
				{Path: "pkgmain.json", Data: []byte(`{"$id":"https://example.com/pm","type":"object","properties":{"thing":{"$ref":"pkgother.json#/$defs/Thing"}}}`)},
				{Path: "pkgother.json", Data: []byte(`{"$id":"https://example.com/po","type":"object","$defs":{"Thing":{"type":"object","properties":{"n":{"type":"integer"}}},"Broken":{"type":"object","properties":{"w":{"type":"intger"}}}}}`)},
				{Path: "pkgmain2.json", Data: []byte(`{"$id":"https://example.com/pm2","type":"object","properties":{"thing":{"$ref":"pkgother2.json#/$defs/Thing"}}}`)},
				{Path: "pkgother2.json", Data: []byte(`{"$id":"https://example.com/po2","type":"object","properties":{"e":{"enum":[]}},"$defs":{"Thing":{"type":"object","properties":{"n":{"type":"integer"}}}}}`)},
				{Path: "pkgmain3.json", Data: []byte(`{"$id":"https://example.com/pm3","type":"object","properties":{"thing":{"$ref":"pkgother3.json#/$defs/Thing"}}}`)},
				{Path: "pkgother3.json", Data: []byte(`{"$id":"https://example.com/po3","type":"object","$defs":{"Thing":{"type":"object","properties":{"n":{"type":"integer"}}},"Other":{"type":"object","properties":{"r":{"$ref":"#/$defs/DoesNotExist"}}}}}`)},
				{Path: "httpref.json", Data: []byte(`{"$id":"https://example.com/hr","type":"object","properties":{"n":{"type":"string"},"r":{"$ref":"http://127.0.0.1:1/defs.json#/$defs/X"}}}`)},
				{Path: "httpref2.yaml", Data: []byte("$id: https://example.com/hr2\ntype: object\nproperties:\n  r:\n    $ref: http://127.0.0.1:1/whole.yaml\n")}, {Path: "adir/keep", Data: []byte("x")}},
				Args: fc.args, Seed: map[string][]byte{"o.go": []byte(sentinel), "same.go": []byte(sentinel), "oa.go": []byte(sentinel), "ob.go": []byte(sentinel)}, Stdin: []byte("{ not json")}
			jobs = append(jobs, &c18job{class: "cli:" + fc.label, label: fc.label, inv: inv, must: fc.must, outFile: "o.go"})
		}
	}
	// 4. fault-free corpus: every feature of the schema generator x random options, and an enumerated family of
	// composition shapes (1-2 branches of every kind at every position); all-runs oracle (status 0 with output, or a
	// diagnostic; never a panic or hang)
	for i := 0; i < ctx.N(300, 6000); i++ {
		r := sg.NewRng(ctx.Seed, fmt.Sprintf("C18-valid-%d", i))
		o := sg.Opts{MaxDepth: 3, PDefault: 0.3, PNullable: 0.3, PAddProps: 0.3, AnyBranch: true, AddPropsTrue: i%2 == 0, NullType: i%3 == 0, RootKinds: i%4 == 0, Hazard: i%5 == 0, IntLimits: true,
			W: map[string]float64{"compose": 3, "enum": 2, "map": 1.5, "ref": 2}}
		if i%6 == 0 {
			o.Names, o.Titles = c01Names, c01Titles
		}
		root := sg.NewGen(r, o).Root()
		name, data := "root.json", jsonx.MarshalIndent(root.ToJSON())
		if i%7 == 0 {
			name, data = "root.yaml", sg.ToYAML(root.ToJSON(), sg.YAMLBlock)
		}
		args := append([]string{"-p", "valid", "-o", "out/gen.go"}, RandArgs(r, nil)...)
		jobs = append(jobs, &c18job{class: "valid:random", label: "fault-free random schema", outFile: "out/gen.go",
			inv: &cli.Inv{Files: []batch.File{{Path: name, Data: data}}, Args: append(args, name)}})
	}
	for _, sh := range recursiveShapes() {
		for ai, extra := range [][]string{nil, {"--only-models"}, {"--extra-imports", "--min-sized-ints"}} {
			args := append(append([]string{"-p", "valid", "-o", "out/gen.go"}, extra...), "shape.json")
			jobs = append(jobs, &c18job{class: "valid:" + sh.class, label: fmt.Sprintf("%s (args %d)", sh.label, ai), outFile: "out/gen.go",
				inv: &cli.Inv{Files: []batch.File{{Path: "shape.json", Data: []byte(sh.text)}}, Args: args}})
		}
	}
	for _, sh := range compositionShapes() {
		for ai, extra := range [][]string{nil, {"--only-models"}, {"--extra-imports"}, {"--min-sized-ints", "--struct-name-from-title"}} {
			args := append(append([]string{"-p", "valid", "-o", "out/gen.go"}, extra...), "shape.json")
			jobs = append(jobs, &c18job{class: "valid:" + sh.class, label: fmt.Sprintf("%s (args %d)", sh.label, ai), outFile: "out/gen.go",
				inv: &cli.Inv{Files: []batch.File{{Path: "shape.json", Data: []byte(sh.text)}}, Args: args}})
		}
	}
	// an element that cannot be generated, inside a member of every composition layout (after a definition that is
	// referenced twice, nested below a member, in the first / middle / last member ...): the run must fail
	for _, sh := range faultShapes() {
		for ai, extra := range [][]string{nil, {"--only-models"}} {
			args := append(append([]string{"-p", "faulty", "-o", "out/gen.go"}, extra...), "shape.json")
			doc, _ := jsonx.Parse([]byte(sh.text))
			jobs = append(jobs, &c18job{class: "fault-" + sh.class, label: fmt.Sprintf("%s (args %d)", sh.label, ai), outFile: "out/gen.go", must: true, doc: doc, path: pathToKey(doc, "bad"),
				inv: &cli.Inv{Files: []batch.File{{Path: "shape.json", Data: []byte(sh.text)}}, Args: args, Seed: map[string][]byte{"out/gen.go": []byte(sentinel)}}})
		}
	}
	// the same ungeneratable elements 1 ... 40 levels below the root, along chains of properties, items, map values and
	// alternations of them, below a definition and below a composition member; and the fault-free chains themselves
	for _, sh := range deepShapes(ctx.N(0, 1) == 1) {
		for ai, extra := range [][]string{nil, {"--only-models"}} {
			if strings.HasPrefix(sh.class, "deep-ok:") {
				args := append(append([]string{"-p", "valid", "-o", "out/gen.go"}, extra...), "shape.json")
				jobs = append(jobs, &c18job{class: "valid:" + sh.class, label: fmt.Sprintf("%s (args %d)", sh.label, ai), outFile: "out/gen.go",
					inv: &cli.Inv{Files: []batch.File{{Path: "shape.json", Data: []byte(sh.text)}}, Args: args}})
				continue
			}
			outFile := "out/gen.go"
			args := append([]string{"-p", "faulty", "-o", outFile}, extra...)
			if ai == 1 {
				args, outFile = append([]string{"-p", "faulty"}, extra...), "" // stdout mode
			}
			args = append(args, "shape.json")
			doc, _ := jsonx.Parse([]byte(sh.text))
			inv := &cli.Inv{Files: []batch.File{{Path: "shape.json", Data: []byte(sh.text)}}, Args: args}
			if outFile != "" {
				inv.Seed = map[string][]byte{outFile: []byte(sentinel)}
			}
			jobs = append(jobs, &c18job{class: "fault-" + sh.class, label: fmt.Sprintf("%s (args %d)", sh.label, ai), outFile: outFile, must: true, doc: doc, path: pathToKey(doc, "bad"), inv: inv})
		}
	}
	for _, sh := range defaultShapes() {
		for ai, extra := range [][]string{nil, {"--only-models"}, {"--extra-imports", "--min-sized-ints"}} {
			args := append(append([]string{"-p", "valid", "-o", "out/gen.go"}, extra...), "shape.json")
			// class prefix "defaults:" - whether the emitted default literal is valid Go is C01/C09's business
			// (recorded finding default-ill-typed); here: output or diagnostic, never a panic or hang
			jobs = append(jobs, &c18job{class: "defaults:" + sh.class, label: fmt.Sprintf("%s (args %d)", sh.label, ai), outFile: "out/gen.go",
				inv: &cli.Inv{Files: []batch.File{{Path: "shape.json", Data: []byte(sh.text)}}, Args: args}})
		}
	}
	// pinned witnesses of recorded findings
	for _, w := range c18Witnesses() {
		jobs = append(jobs, w)
	}

	type res struct {
		problem string
		proc    stage.ProcResult
		dir     string
		timed   bool
	}
	results := make([]res, len(jobs))
	stage.Parallel(len(jobs), func(i int) {
		j := jobs[i]
		dir := ctx.Env.St.TempDir("c18")
		if strings.HasPrefix(j.class, "cli:dangling") || j.label == "dangling symlink input" {
			_ = os.MkdirAll(dir, 0o755)
			_ = os.Symlink("no-such-target.json", filepath.Join(dir, "dangling.json"))
		}
		r := cli.RunIn(ctx.Env, dir, j.inv)
		var p string
		if j.must {
			p = judgeFailing(r, j.outFile)
		} else {
			p = judgeAny(r)
			if p == "" && r.Proc.Exit == 0 && !r.Proc.TimedOut && j.outFile != "" && strings.HasPrefix(j.class, "valid:") {
				// status 0 means complete output: the file exists and is a whole Go file
				if src := r.Out(j.outFile); len(src) == 0 {
					p = "exit status 0 but the output file " + j.outFile + " is missing or empty"
				} else if _, _, err := gocheck.ParseOnly(src); err != nil {
					p = "exit status 0 but the output is not a complete Go file: " + err.Error()
				}
			}
		}
		results[i] = res{problem: p, proc: r.Proc, dir: dir, timed: r.Proc.TimedOut}
		if p == "" {
			r.Cleanup()
		}
	})
	// in-process twin: DoFile + Sources under recover for the injected/byte cases
	inprocRuns, inprocViols := c18Inproc(ctx, jobs)

	// strace syscall-fault injection on the real binary (I/O errors while writing the output)
	straceRuns, straceViols := c18Strace(ctx)

	var viols []Viol
	classes := map[string]bool{}
	byClass := map[string]int{}
	var samples []any
	decided, watchdog := 0, 0
	knownHits := map[string]int{}
	vseen := map[string]bool{}
	mustFail, failedOK := 0, 0
	for i, j := range jobs {
		r := results[i]
		if r.timed {
			watchdog++
			continue
		}
		decided++
		classes[j.class] = true
		byClass[strings.SplitN(j.class, "@", 2)[0]]++
		if j.must {
			mustFail++
			if r.problem == "" {
				failedOK++
			}
		}
		if len(samples) < 6 && decided%397 == 9 {
			samples = append(samples, map[string]any{"fault": j.label, "argv": j.inv.Args, "must_fail": j.must, "exit": r.proc.Exit, "stderr": trunc(string(r.proc.Stderr), 200), "stdout_bytes": len(r.proc.Stdout)})
		}
		if r.problem == "" {
			continue
		}
		if j.known != "" && ctx.Known.Has(j.known) {
			knownHits[j.known]++
			_ = os.RemoveAll(r.dir)
			continue
		}
		if sig := c18Explain(ctx, j, r.problem); sig != "" {
			knownHits[sig]++
			_ = os.RemoveAll(r.dir)
			continue
		}
		key := strings.SplitN(j.class, "@", 2)[0] + "|" + classifyDiag(r.problem)
		if vseen[key] || len(viols) >= 15 {
			_ = os.RemoveAll(r.dir)
			continue
		}
		vseen[key] = true
		rp := filepath.Join(evid.ReplayDir(), fmt.Sprintf("C18-%d", len(viols)))
		_ = os.RemoveAll(rp)
		_ = osexec("cp", "-r", r.dir, rp)
		b, _ := json.MarshalIndent(map[string]any{"property": "C18", "fault": j.label, "class": j.class, "argv": j.inv.Args, "problem": r.problem, "exit": r.proc.Exit, "stderr": string(r.proc.Stderr), "stdout": trunc(string(r.proc.Stdout), 2000)}, "", " ")
		_ = os.WriteFile(filepath.Join(rp, "verif-summary.json"), b, 0o644)
		_ = os.RemoveAll(r.dir)
		viols = append(viols, Viol{Replay: rp, Summary: fmt.Sprintf("[%s] %s\n argv=%v\n stderr=%s", j.class, r.problem, j.inv.Args, trunc(string(r.proc.Stderr), 300))})
	}
	viols = append(viols, inprocViols...)
	viols = append(viols, straceViols...)
	o := &Outcome{Level: "fault_enumeration", Violations: viols}
	var cl []string
	for c := range byClass {
		cl = append(cl, c)
	}
	sort.Strings(cl)
	o.Coverage = map[string]any{
		"evaluations":           decided + inprocRuns + straceRuns,
		"distinct_nontrivial":   len(classes),
		"rule":                  "fault enumeration over real CLI runs in a sandbox directory whose output files are pre-seeded with sentinel bytes (tree snapshot before/after, stdout, stderr, exit status, rusage): (1) every fault kind {unknown type, $ref to missing definition / missing file / unsupported scheme / non-definition pointer / missing definition in another file / unparsable file, empty enum (typed and untyped), non-primitive enum values, integer enum with a string} injected at sampled positions {property, array items, definition, allOf branch, anyOf branch} at any depth of random valid schemas (JSON and YAML, file and stdout output); (2) byte-level faults (truncation, bit flip, byte deletion/insertion/duplication, random bytes, wrong keyword value type); (3) malformed flags and bad files; (3b) fault-free corpus through the all-runs oracle: random schemas over every generator feature x random options, and an enumerated family of allOf/anyOf/oneOf shapes (1-2 branches of 18 kinds incl. null elements x 9 positions x 4 option sets), and a default keyword next to 27 kinds of schema (objects with every form of additionalProperties ...) x 12 default values x 4 positions x 3 option sets; (4) the same inputs through DoFile+Sources in-process under recover; (5) strace syscall-fault injection on output writes; oracle for must-fail runs: non-zero exit, diagnostic on stderr, empty stdout, no file created/modified/removed, no panic/fatal/signal, CPU limit not hit; for all runs: no panic/hang and no output on failure; distinct_nontrivial = distinct (fault kind, position kind) classes",
		"samples":               samples,
		"runs_by_fault":         byClass,
		"must_fail_runs":        mustFail,
		"must_fail_runs_clean":  failedOK,
		"inprocess_runs":        inprocRuns,
		"strace_injected_runs":  straceRuns,
		"known_finding_hits":    knownHits,
		"watchdog_inconclusive": watchdog,
		"base_schemas_refused":  basesRefused,
	}
	if len(samples) == 0 {
		o.Coverage["samples"] = []any{"none"}
	}
	o.Assumptions = []string{"the 'must fail' oracle for byte-level faults applies only when an independent streaming decoder cannot decode a first JSON value (DESIGN §3.9); YAML byte faults are judged by the all-runs oracle only", "running as root: mode-000 files are readable, so 'unreadable file' is covered by directory / dangling-symlink inputs instead"}
	var ks []string
	for s := range knownHits {
		ks = append(ks, s)
	}
	sort.Strings(ks)
	for _, s := range ks {
		if e, ok := ctx.Known.Get(s); ok {
			o.KnownLines = append(o.KnownLines, fmt.Sprintf("sig=%s %s", e.Sig, e.Text))
		}
	}
	if decided < ctx.N(1500, 20000) {
		o.Inconclusive = fmt.Sprintf("only %d faulted runs decided", decided)
	}
	return o, nil
}

func decodableFirstValue(b []byte) bool {
	dec := json.NewDecoder(bytes.NewReader(b))
	var v any
	return dec.Decode(&v) == nil
}

func pathStr(p []any) string {
	var b strings.Builder
	for _, e := range p {
		fmt.Fprintf(&b, "/%v", e)
	}
	return b.String()
}

type compShape struct{ class, label, text string }

// compositionShapes enumerates allOf / anyOf / oneOf with one or two branches of every kind, at every position of a
// schema document, including null elements (which are not schemas at all).
func compositionShapes() []compShape {
	branches := []struct{ name, text string }{
		{"string", `{"type":"string","minLength":1}`},
		{"integer", `{"type":"integer","minimum":1}`},
		{"number", `{"type":"number"}`},
		{"boolean", `{"type":"boolean"}`},
		{"nulltype", `{"type":"null"}`},
		{"object", `{"type":"object","properties":{"q":{"type":"string"}},"required":["q"]}`},
		{"array", `{"type":"array","items":{"type":"integer"}}`},
		{"enum", `{"enum":["a","b"]}`},
		{"typed-enum", `{"type":"string","enum":["a","b"]}`},
		{"ref-object", `{"$ref":"#/$defs/Obj"}`},
		{"ref-prim", `{"$ref":"#/$defs/Prim"}`},
		{"empty", `{}`},
		{"true", `true`},
		{"null-element", `null`},
		{"nested-any", `{"anyOf":[{"type":"string"}]}`},
		{"nested-null", `{"anyOf":[null]}`},
		{"format", `{"type":"string","format":"date-time"}`},
		{"multi-type", `{"type":["string","null"]}`},
	}
	defs := `"Obj":{"type":"object","properties":{"w":{"type":"integer"}}},"Prim":{"type":"string","maxLength":3}`
	var out []compShape
	for _, kw := range []string{"anyOf", "allOf", "oneOf"} {
		for bi, b := range branches {
			lists := []string{"[" + b.text + "]", "[" + b.text + "," + b.text + "]", "[" + branches[(bi+5)%len(branches)].text + "," + b.text + "]"}
			for li, l := range lists {
				comp := `{"` + kw + `":` + l + `}`
				typed := `{"type":"object","` + kw + `":` + l + `}`
				positions := []struct{ name, text string }{
					{"property", `{"type":"object","properties":{"p":` + comp + `},"$defs":{` + defs + `}}`},
					{"required-property", `{"type":"object","properties":{"p":` + comp + `},"required":["p"],"$defs":{` + defs + `}}`},
					{"items", `{"type":"object","properties":{"p":{"type":"array","items":` + comp + `}},"$defs":{` + defs + `}}`},
					{"definition", `{"type":"object","properties":{"p":{"$ref":"#/$defs/C"}},"$defs":{"C":` + comp + `,` + defs + `}}`},
					{"unused-definition", `{"type":"object","$defs":{"C":` + comp + `,` + defs + `}}`},
					{"typed-definition", `{"type":"object","properties":{"p":{"$ref":"#/$defs/C"}},"$defs":{"C":` + typed + `,` + defs + `}}`},
					{"root", `{"` + kw + `":` + l + `,"$defs":{` + defs + `}}`},
					{"additionalProperties", `{"type":"object","properties":{"k":{"type":"string"}},"additionalProperties":` + comp + `,"$defs":{` + defs + `}}`},
					{"branch-property", `{"type":"object","properties":{"p":{"allOf":[{"type":"object","properties":{"in":` + comp + `}}]}},"$defs":{` + defs + `}}`},
				}
				for _, pos := range positions {
					out = append(out, compShape{class: "shape:" + kw + ":" + b.name + "@" + pos.name, label: fmt.Sprintf("%s %s list %d at %s", kw, b.name, li, pos.name), text: pos.text})
				}
			}
		}
	}
	return out
}

// pathToKey finds the first object member called key (depth first) and returns the path to its value.
func pathToKey(v any, key string) []any {
	switch t := v.(type) {
	case jsonx.Obj:
		for _, kv := range t {
			if kv.K == key {
				return []any{key}
			}
			if p := pathToKey(kv.V, key); p != nil {
				return append([]any{kv.K}, p...)
			}
		}
	case []any:
		for i, e := range t {
			if p := pathToKey(e, key); p != nil {
				return append([]any{i}, p...)
			}
		}
	}
	return nil
}

// faultShapes: an ungeneratable element (unknown type, reference to a missing definition, empty enum) as a property of
// an inline object member B of a composition, for every layout of the other members.
func faultShapes() []compShape {
	faults := []struct{ name, text string }{{"unknown-type", `{"type":"decimal"}`}, {"missing-definition", `{"$ref":"#/$defs/Missing"}`}, {"empty-enum", `{"enum":[]}`}}
	defs := `"Obj":{"type":"object","properties":{"w":{"type":"integer"}}},"Prim":{"type":"string","maxLength":3},"Other":{"type":"object","properties":{"o":{"type":"string"}}}`
	var out []compShape
	for _, f := range faults {
		b := `{"type":"object","properties":{"bad":` + f.text + `}}`
		obj, prim, other := `{"$ref":"#/$defs/Obj"}`, `{"$ref":"#/$defs/Prim"}`, `{"$ref":"#/$defs/Other"}`
		layouts := []struct{ name, text string }{
			{"anyOf-alone", `{"anyOf":[` + b + `]}`},
			{"anyOf-after-ref", `{"anyOf":[` + obj + `,` + b + `]}`},
			{"anyOf-after-same-ref-twice", `{"anyOf":[` + obj + `,` + obj + `,` + b + `]}`},
			{"anyOf-after-same-prim-ref-twice", `{"anyOf":[` + prim + `,` + prim + `,` + b + `]}`},
			{"anyOf-between-same-ref", `{"anyOf":[` + obj + `,` + b + `,` + obj + `]}`},
			{"anyOf-first", `{"anyOf":[` + b + `,` + obj + `,` + obj + `]}`},
			{"anyOf-after-two-refs", `{"anyOf":[` + obj + `,` + other + `,` + b + `]}`},
			{"anyOf-nested-below-member", `{"anyOf":[` + prim + `,{"type":"object","properties":{"inner":{"anyOf":[` + prim + `,` + b + `]}}}]}`},
			{"anyOf-nested-in-items", `{"anyOf":[` + obj + `,{"type":"object","properties":{"members":{"type":"array","items":{"anyOf":[` + obj + `,` + b + `]}}}}]}`},
			{"allOf-after-ref", `{"allOf":[` + obj + `,` + b + `]}`},
			{"allOf-after-same-ref-twice", `{"allOf":[` + obj + `,` + obj + `,` + b + `]}`},
			{"allOf-first", `{"allOf":[` + b + `,` + obj + `]}`},
			{"allOf-in-anyOf", `{"anyOf":[` + obj + `,{"allOf":[` + obj + `,` + b + `]}]}`},
			// members that are all primitive or type-less, one of them wrapping a composition
			{"anyOf-primitive-and-wrapped-allOf", `{"anyOf":[{"type":"string"},{"allOf":[` + obj + `,` + b + `]}]}`},
			{"anyOf-wrapped-anyOf-and-primitive", `{"anyOf":[{"anyOf":[` + obj + `,` + b + `]},{"type":"integer"}]}`},
			{"anyOf-null-and-wrapped-allOf", `{"anyOf":[{"type":"null"},{"description":"wrapped","allOf":[` + b + `]}]}`},
			{"allOf-primitive-and-wrapped-anyOf", `{"allOf":[{"type":"string"},{"anyOf":[` + obj + `,` + b + `]}]}`},
		}
		for _, l := range layouts {
			positions := []struct{ name, text string }{
				{"property", `{"type":"object","properties":{"p":` + l.text + `},"$defs":{` + defs + `}}`},
				{"items", `{"type":"object","properties":{"p":{"type":"array","items":` + l.text + `}},"$defs":{` + defs + `}}`},
				{"definition", `{"type":"object","properties":{"p":{"$ref":"#/$defs/C"}},"$defs":{"C":` + l.text + `,` + defs + `}}`},
				{"typed-definition", `{"type":"object","properties":{"p":{"$ref":"#/$defs/C"}},"$defs":{"C":{"type":"object",` + l.text[1:] + `,` + defs + `}}`},
				// (the map form: next to declared properties only the type keyword of additionalProperties is read - recorded
				// finding addprop-container-lax -, its schema is not a generated position)
				{"map-values", `{"type":"object","properties":{"m":{"type":"object","additionalProperties":` + l.text + `}},"$defs":{` + defs + `}}`},
			}
			for _, pos := range positions {
				out = append(out, compShape{class: f.name + ":" + l.name + "@" + pos.name, label: fmt.Sprintf("%s in %s at %s", f.name, l.name, pos.name), text: pos.text})
			}
		}
	}
	return out
}

// deepShapes: an ungeneratable element d levels below the root (d = 1 ... 40), reached over a chain of inline object
// properties, of array items, of map values, alternating, starting inside a definition or inside an allOf / anyOf member.
// "At any depth": no level may turn the fault into a silent interface{}. The fault-free chain of the same depth is a
// valid input (class deep-ok).
func deepShapes(thorough bool) []compShape {
	faults := []struct{ name, text string }{{"unknown-type", `{"type":"decimal"}`}, {"missing-definition", `{"$ref":"#/$defs/Missing"}`}, {"empty-enum", `{"enum":[]}`},
		{"missing-file", `{"$ref":"./not-there.json"}`}, {"non-primitive-enum", `{"enum":[{"x":1}]}`}}
	depths := []int{1, 2, 4, 6, 8, 10, 11, 12, 13, 14, 16, 20, 24, 32, 40}
	if thorough {
		depths = nil
		for d := 1; d <= 48; d++ {
			depths = append(depths, d)
		}
	}
	chain := func(kind string, d int, leaf string) string {
		// level k wraps what is below it
		cur := `{"type":"object","properties":{"bad":` + leaf + `,"ok":{"type":"string"}}}`
		for k := d - 1; k >= 1; k-- {
			step := kind
			if kind == "alternating" {
				step = []string{"property", "items", "map"}[k%3]
			}
			switch step {
			case "property":
				cur = fmt.Sprintf(`{"type":"object","properties":{"l%d":%s,"s%d":{"type":"integer"}}}`, k, cur, k)
			case "items":
				cur = `{"type":"array","items":` + cur + `}`
			case "map":
				cur = `{"type":"object","additionalProperties":` + cur + `}`
			}
		}
		return cur
	}
	var out []compShape
	for _, kind := range []string{"property", "items", "map", "alternating"} {
		for _, d := range depths {
			for fi, f := range faults {
				if !thorough && (fi+d)%2 == 1 && fi > 0 {
					continue
				}
				for _, start := range []string{"root", "definition", "allOf-member", "anyOf-member"} {
					body := chain(kind, d, f.text)
					var text string
					switch start {
					case "root":
						text = `{"type":"object","properties":{"top":` + body + `}}`
					case "definition":
						text = `{"type":"object","properties":{"top":{"$ref":"#/$defs/Deep"}},"$defs":{"Deep":` + body + `}}`
					case "allOf-member":
						text = `{"type":"object","properties":{"top":{"allOf":[{"type":"object","properties":{"q":{"type":"string"}}},{"type":"object","properties":{"in":` + body + `}}]}}}`
					default:
						text = `{"type":"object","properties":{"top":{"anyOf":[{"type":"object","properties":{"q":{"type":"string"}}},{"type":"object","properties":{"in":` + body + `}}]}}}`
					}
					if !thorough && start != "root" && d%4 != 0 && d != 13 {
						continue
					}
					out = append(out, compShape{class: fmt.Sprintf("deep:%s:%s@%s", f.name, kind, start), label: fmt.Sprintf("%s %d levels down a %s chain from %s", f.name, d, kind, start), text: text})
				}
			}
			ok := `{"type":"object","properties":{"top":` + chain(kind, d, `{"type":"string","minLength":1}`) + `}}`
			out = append(out, compShape{class: "deep-ok:" + kind, label: fmt.Sprintf("fault-free %s chain of depth %d", kind, d), text: ok})
		}
	}
	return out
}

// recursiveShapes: compositions that lead back to the definition they sit in (directly, through a second definition,
// through items / additionalProperties, next to other members): valid inputs - the run ends with output or a
// diagnostic.
func recursiveShapes() []compShape {
	var out []compShape
	for _, kw := range []string{"allOf", "anyOf"} {
		self := `{"$ref":"#/$defs/Node"}`
		other := `{"type":"object","properties":{"w":{"type":"integer"}}}`
		lists := []struct{ name, text string }{{"self", `[` + self + `]`}, {"self-and-inline", `[` + self + `,` + other + `]`}, {"inline-and-self", `[` + other + `,` + self + `]`}, {"self-twice", `[` + self + `,` + self + `]`}}
		for _, l := range lists {
			comp := `{"` + kw + `":` + l.text + `}`
			layouts := []struct{ name, text string }{
				{"property", `{"type":"object","properties":{"n":{"$ref":"#/$defs/Node"}},"$defs":{"Node":{"type":"object","properties":{"v":{"type":"integer","minimum":1},"next":` + comp + `},"required":["v"]}}}`},
				{"items", `{"type":"object","properties":{"n":{"$ref":"#/$defs/Node"}},"$defs":{"Node":{"type":"object","properties":{"v":{"type":"integer"},"children":{"type":"array","items":` + comp + `}}}}}`},
				{"map-values", `{"type":"object","properties":{"n":{"$ref":"#/$defs/Node"}},"$defs":{"Node":{"type":"object","properties":{"v":{"type":"integer"},"byName":{"type":"object","additionalProperties":` + comp + `}}}}}`},
				{"mutual", `{"type":"object","properties":{"n":{"$ref":"#/$defs/Node"}},"$defs":{"Node":{"type":"object","properties":{"peer":{"` + kw + `":[{"$ref":"#/$defs/Peer"}]}}},"Peer":{"type":"object","properties":{"back":` + comp + `}}}}`},
				{"definition-is-composition", `{"type":"object","properties":{"n":{"$ref":"#/$defs/Node"}},"$defs":{"Node":{"type":"object","` + kw + `":[{"type":"object","properties":{"v":{"type":"integer"},"next":{"$ref":"#/$defs/Node"}}}]}}}`},
				{"root", `{"type":"object","properties":{"v":{"type":"integer"},"next":{"` + kw + `":[{"$ref":"#"}]}}}`},
			}
			for _, lay := range layouts {
				out = append(out, compShape{class: "recursive:" + kw + ":" + l.name + "@" + lay.name, label: fmt.Sprintf("recursive %s %s at %s", kw, l.name, lay.name), text: lay.text})
			}
		}
	}
	return out
}

// defaultShapes enumerates a default keyword next to every kind of schema (incl. objects with every form of
// additionalProperties) x default values of every JSON kind x positions. Whether such a default is honoured is not the
// point here (C09); the generator must come back with output or a diagnostic.
func defaultShapes() []compShape {
	kinds := []struct{ name, text string }{
		{"string", `"type":"string"`}, {"integer", `"type":"integer","minimum":1`}, {"number", `"type":"number"`}, {"boolean", `"type":"boolean"`},
		{"nullable-string", `"type":["string","null"]`}, {"null-first-integer", `"type":["null","integer"]`},
		{"array", `"type":"array","items":{"type":"string"}`}, {"array-untyped-items", `"type":"array"`}, {"nullable-array", `"type":["null","array"],"items":{"type":"integer"}`},
		{"object-props", `"type":"object","properties":{"a":{"type":"string"},"n":{"type":"integer"}}`},
		{"object-addprops-true", `"type":"object","properties":{"a":{"type":"string"}},"additionalProperties":true`},
		{"object-addprops-empty", `"type":"object","additionalProperties":{}`},
		{"object-addprops-false", `"type":"object","properties":{"a":{"type":"string"}},"additionalProperties":false`},
		{"object-addprops-typed", `"type":"object","additionalProperties":{"type":"integer"}`},
		{"object-addprops-ref", `"type":"object","additionalProperties":{"$ref":"#/$defs/Obj"}`},
		{"object-addprops-anyof", `"type":"object","properties":{"a":{"type":"string"}},"additionalProperties":{"anyOf":[{"type":"string"},{"type":"integer"}]}`},
		{"object-addprops-multitype", `"type":"object","additionalProperties":{"type":["string","integer"]}`},
		{"object-bare", `"type":"object"`},
		{"enum", `"enum":["a","b"]`}, {"typed-enum", `"type":"string","enum":["a","b"]`}, {"mixed-enum", `"enum":["a",1,null]`},
		{"ref-object", `"$ref":"#/$defs/Obj"`}, {"ref-prim", `"$ref":"#/$defs/Prim"`}, {"untyped", `"description":"anything"`},
		{"format-date", `"type":"string","format":"date"`}, {"anyof", `"anyOf":[{"type":"string"},{"type":"object","properties":{"q":{"type":"string"}}}]`},
		{"allof", `"allOf":[{"type":"object","properties":{"q":{"type":"string"}}}]`},
	}
	values := []struct{ name, text string }{
		{"string", `"a"`}, {"int", `3`}, {"float", `1.5`}, {"bool", `true`}, {"null", `null`}, {"empty-array", `[]`}, {"array", `["x","y"]`}, {"int-array", `[1,2]`},
		{"empty-object", `{}`}, {"object", `{"a":"x","n":1}`}, {"nested", `{"a":{"b":[1,{"c":null}]}}`}, {"date", `"2024-02-28"`},
	}
	defs := `"Obj":{"type":"object","properties":{"w":{"type":"integer"}}},"Prim":{"type":"string","maxLength":3}`
	var out []compShape
	for _, k := range kinds {
		for _, v := range values {
			sch := `{` + k.text + `,"default":` + v.text + `}`
			positions := []struct{ name, text string }{
				{"property", `{"type":"object","properties":{"p":` + sch + `},"$defs":{` + defs + `}}`},
				{"definition", `{"type":"object","properties":{"p":{"$ref":"#/$defs/D"}},"$defs":{"D":` + sch + `,` + defs + `}}`},
				{"items", `{"type":"object","properties":{"p":{"type":"array","items":` + sch + `}},"$defs":{` + defs + `}}`},
				{"root", `{` + k.text + `,"default":` + v.text + `,"$defs":{` + defs + `}}`},
			}
			for _, pos := range positions {
				out = append(out, compShape{class: "default-shape:" + k.name + "@" + pos.name, label: fmt.Sprintf("default %s on %s at %s", v.name, k.name, pos.name), text: pos.text})
			}
		}
	}
	return out
}

// c18Witnesses are pinned inputs of recorded findings.
func c18Witnesses() []*c18job {
	mk := func(sig, label, schema string) *c18job {
		return &c18job{class: "witness:" + sig, label: label, must: true, outFile: "o.go", known: sig,
			inv: &cli.Inv{Files: []batch.File{{Path: "w.json", Data: []byte(schema)}}, Args: []string{"-p", "w", "-o", "o.go", "w.json"}, Seed: map[string][]byte{"o.go": []byte(sentinel)}}}
	}
	return []*c18job{
		mk("", "typed enum with a non-primitive value (fixed 9319e85)", `{"type":"object","properties":{"e":{"type":"string","enum":[{"x":1}]}}}`),
		mk("", "mixed enum with a later non-primitive value (fixed 9319e85)", `{"type":"object","properties":{"e":{"enum":["a",1,{"x":1}]}}}`),
		mk("", "null property schema (fixed)", `{"type":"object","properties":{"e":null}}`),
		mk("", "null definition (fixed)", `{"type":"object","$defs":{"X":null}}`),
		{class: "witness:null-anyof-definition", label: "null anyOf elements in a definition (fixed c5dfc66)", outFile: "o.go",
			inv: &cli.Inv{Files: []batch.File{{Path: "w.json", Data: []byte(`{"type":"object","properties":{"x":{"$ref":"#/$defs/D"}},"$defs":{"D":{"anyOf":[null,null]},"E":{"allOf":[{"type":"string"},null]},"F":{"anyOf":[{"anyOf":[null]}]}}}`)}}, Args: []string{"-p", "w", "-o", "o.go", "w.json"}}},
		mk("", "null anyOf element (fixed)", `{"type":"object","properties":{"a":{"anyOf":[{"type":"object","properties":{"q":{"type":"string"}}},null]}}}`),
	}
}

// c18Explain attributes a failure to a recorded finding by its trigger.
func c18Explain(ctx *Ctx, j *c18job, problem string) string {
	if j.doc == nil || !strings.HasPrefix(problem, "exit status 0") {
		return ""
	}
	// recorded finding untyped-composition-definition: a definition (or the items of a definition that is an array, at
	// any depth) that consists of allOf/anyOf only is taken for "anything"; its members are never generated, so a fault
	// inside them goes unnoticed. Path shape: (definitions|$defs)/<name>/(items/)*(anyOf|allOf)/<n>/...
	if ctx.Known.Has("untyped-composition-definition") && len(j.path) >= 4 {
		if k0, ok := j.path[0].(string); ok && (k0 == "definitions" || k0 == "$defs") {
			i := 2
			for i < len(j.path) && j.path[i] == "items" {
				i++
			}
			if i < len(j.path) {
				if k, ok := j.path[i].(string); ok && (k == "anyOf" || k == "allOf") {
					// the schema that holds the composition has no type / properties / enum of its own
					var cur any = j.doc
					for _, seg := range j.path[:i] {
						if o, isObj := cur.(jsonx.Obj); isObj {
							cur, _ = o.Get(seg.(string))
						}
					}
					if o, isObj := cur.(jsonx.Obj); isObj {
						_, hasT := o.Get("type")
						_, hasP := o.Get("properties")
						_, hasE := o.Get("enum")
						if !hasT && !hasP && !hasE {
							return "untyped-composition-definition"
						}
					}
				}
			}
		}
	}
	// the same recorded finding at the other position that is generated through the declared path: the value schema of
	// a map (additionalProperties of an object WITHOUT declared properties), possibly below items: .../additionalProperties/
	// (items/)*(anyOf|allOf)/<n>/... with a holder that has no type / properties / enum of its own
	if ctx.Known.Has("untyped-composition-definition") {
		at := func(n int) any {
			var cur any = j.doc
			for _, seg := range j.path[:n] {
				switch t := cur.(type) {
				case jsonx.Obj:
					if k, isStr := seg.(string); isStr {
						cur, _ = t.Get(k)
					}
				case []any:
					if k, isInt := seg.(int); isInt && k < len(t) {
						cur = t[k]
					}
				}
			}
			return cur
		}
		for i := 1; i < len(j.path); i++ {
			if k, ok := j.path[i].(string); !ok || (k != "anyOf" && k != "allOf") {
				continue
			}
			b := i
			for b > 0 && j.path[b-1] == "items" {
				b--
			}
			if b == 0 || j.path[b-1] != "additionalProperties" {
				continue
			}
			holder, _ := at(b - 1).(jsonx.Obj)
			comp, _ := at(i).(jsonx.Obj)
			if holder == nil || comp == nil {
				continue
			}
			_, hasProps := holder.Get("properties")
			_, hasT := comp.Get("type")
			_, hasP := comp.Get("properties")
			_, hasE := comp.Get("enum")
			if !hasProps && !hasT && !hasP && !hasE {
				return "untyped-composition-definition"
			}
		}
	}
	// recorded finding allof-mixed-branches-unchecked: the fault sits below an allOf that has a branch which is not
	// an object schema; the tool then merges to interface{} without generating the branches
	if ctx.Known.Has("allof-mixed-branches-unchecked") {
		cur := j.doc
		for i, seg := range j.path {
			o, isObj := cur.(jsonx.Obj)
			if k, isStr := seg.(string); isStr && isObj {
				v, _ := o.Get(k)
				if k == "allOf" && i+1 < len(j.path) {
					if a, ok := v.([]any); ok {
						for bi, b := range a {
							if bi == j.path[i+1].(int) && len(j.path) == i+2 {
								continue
							}
							bo, _ := b.(jsonx.Obj)
							t, _ := bo.Get("type")
							_, hasRef := bo.Get("$ref")
							if ts, _ := t.(string); ts != "object" && !hasRef {
								return "allof-mixed-branches-unchecked"
							}
						}
					}
				}
				cur = v
				continue
			}
			if idx, isInt := seg.(int); isInt {
				if a, ok := cur.([]any); ok && idx < len(a) {
					cur = a[idx]
					continue
				}
			}
			break
		}
	}
	return ""
}

func c18Inproc(ctx *Ctx, jobs []*c18job) (int, []Viol) {
	bin, err := ctx.Env.BuildInDrv(false)
	if err != nil {
		return 0, []Viol{{Replay: "", Summary: "cannot build in-module driver: " + err.Error()}}
	}
	var sel []*c18job
	for i, j := range jobs {
		if j.inproc != nil && i%ctx.N(6, 3) == 0 {
			sel = append(sel, j)
		}
	}
	type out struct {
		Err   string `json:"err"`
		Panic string `json:"panic"`
		Stack string `json:"stack"`
	}
	var viols []Viol
	runs := 0
	chunk := 200
	var mu = make(chan struct{}, 1)
	mu <- struct{}{}
	nChunks := (len(sel) + chunk - 1) / chunk
	stage.Parallel(nChunks, func(ci int) {
		lo, hi := ci*chunk, (ci+1)*chunk
		if hi > len(sel) {
			hi = len(sel)
		}
		var in bytes.Buffer
		var dirs []string
		for _, j := range sel[lo:hi] {
			dir := ctx.Env.St.TempDir("inp")
			dirs = append(dirs, dir)
			for _, f := range j.inv.Files {
				p := filepath.Join(dir, f.Path)
				_ = os.MkdirAll(filepath.Dir(p), 0o755)
				_ = os.WriteFile(p, f.Data, 0o644)
			}
			req := map[string]any{"dir": dir}
			for k, v := range j.inproc {
				req[k] = v
			}
			b, _ := json.Marshal(req)
			in.Write(b)
			in.WriteByte('\n')
		}
		pr := stage.Run(stage.Proc{Path: bin, Args: []string{"inproc"}, Stdin: in.Bytes(), CPUSec: 300})
		lines := bytes.Split(bytes.TrimSpace(pr.Stdout), []byte("\n"))
		<-mu
		for k, l := range lines {
			if lo+k >= hi || len(l) == 0 {
				break
			}
			var o out
			if json.Unmarshal(l, &o) != nil {
				continue
			}
			runs++
			if o.Panic != "" && len(viols) < 5 {
				j := sel[lo+k]
				p := filepath.Join(evid.ReplayDir(), fmt.Sprintf("C18-inproc-%d.json", len(viols)))
				b, _ := json.MarshalIndent(map[string]any{"property": "C18", "monitor": "in-process DoFile+Sources under recover", "fault": j.label, "panic": o.Panic, "stack": o.Stack, "input": string(j.inv.Files[0].Data)}, "", " ")
				_ = os.WriteFile(p, b, 0o644)
				viols = append(viols, Viol{Replay: p, Summary: fmt.Sprintf("in-process panic for fault %q: %s", j.label, trunc(o.Panic, 200))})
			}
		}
		if pr.Exit != 0 && len(viols) < 5 && rePanic.Match(pr.Stderr) {
			viols = append(viols, Viol{Replay: "", Summary: "in-process driver died: " + firstMatchLine(pr.Stderr)})
		}
		mu <- struct{}{}
		for _, d := range dirs {
			_ = os.RemoveAll(d)
		}
	})
	return runs, viols
}

// c18Strace injects I/O errors into the output syscalls of the real binary: the run must fail with a diagnostic, no panic.
func c18Strace(ctx *Ctx) (int, []Viol) {
	if _, err := osLookPath("strace"); err != nil {
		return 0, nil
	}
	good := []byte(`{"type":"object","properties":{"x":{"type":"string","minLength":2},"y":{"type":"array","items":{"type":"integer"}}},"required":["x"]}`)
	type inj struct{ expr, label string }
	var injs []inj
	for _, sc := range []string{"openat", "write", "mkdir", "mkdirat"} {
		for _, e := range []string{"ENOSPC", "EIO", "EACCES"} {
			injs = append(injs, inj{fmt.Sprintf("inject=%s:error=%s", sc, e), sc + ":" + e})
		}
	}
	if ctx.Quick() {
		injs = injs[:6]
	}
	var viols []Viol
	runs := 0
	for _, in := range injs {
		dir := ctx.Env.St.TempDir("strace")
		_ = os.WriteFile(filepath.Join(dir, "a.json"), good, 0o644)
		out := filepath.Join(dir, "outdir", "gen.go")
		// -P restricts tracing (and injection) to syscalls touching the output path
		args := []string{"-f", "-qq", "-o", "/dev/null", "-P", out, "-P", filepath.Dir(out), "-e", "trace=openat,write,mkdir,mkdirat", "-e", in.expr, ctx.Env.GJS, "-p", "x", "-o", out, "a.json"}
		pr := stage.Run(stage.Proc{Path: "strace", Args: args, Dir: dir, CPUSec: 60})
		runs++
		problem := ""
		switch {
		case pr.TimedOut:
		case rePanic.Match(pr.Stderr):
			problem = "panic under injected " + in.label + ": " + firstMatchLine(pr.Stderr)
		case pr.Exit == 0:
			// the injection may not have hit any syscall (e.g. mkdir vs mkdirat); then the output must be complete
			if b, err := os.ReadFile(out); err != nil || !bytes.Contains(b, []byte("package x")) {
				problem = "exit 0 under injected " + in.label + " but the output file is missing or incomplete"
			}
		case len(bytes.TrimSpace(pr.Stderr)) == 0:
			problem = "non-zero exit without diagnostic under injected " + in.label
		}
		if problem != "" && len(viols) < 4 {
			p := filepath.Join(evid.ReplayDir(), fmt.Sprintf("C18-strace-%d.txt", len(viols)))
			_ = os.WriteFile(p, []byte(fmt.Sprintf("strace %v\nexit=%d\nstderr:\n%s", args, pr.Exit, pr.Stderr)), 0o644)
			viols = append(viols, Viol{Replay: p, Summary: problem})
		}
		_ = os.RemoveAll(dir)
	}
	return runs, viols
}
