package checks

import (
	"encoding/json"
	"fmt"
	"go/ast"
	"go/scanner"
	"go/token"
	"os"
	"path/filepath"
	"regexp"
	"sort"
	"strings"

	"verif/internal/batch"
	"verif/internal/cli"
	"verif/internal/evid"
	"verif/internal/gocheck"
	"verif/internal/jsonx"
	"verif/internal/sg"
	"verif/internal/stage"
)

func init() { Register("C16", c16) }

var goPredeclared = map[string]bool{}

func init() {
	for _, s := range strings.Fields("bool byte complex64 complex128 error float32 float64 int int8 int16 int32 int64 rune string uint uint8 uint16 uint32 uint64 uintptr any true false iota nil append cap clear close complex copy delete imag len make max min new panic print println real recover interface") {
		goPredeclared[s] = true
	}
}

// maskedDecls tokenises every top-level declaration with package-local identifiers and interpreted string literals
// masked; struct tags and other raw strings, numbers, operators, predeclared and imported names are kept.
func maskedDecls(src []byte) ([]string, error) {
	fset, f, err := gocheck.ParseOnly(src)
	if err != nil {
		return nil, err
	}
	pkgs := map[string]bool{}
	for _, im := range f.Imports {
		p := strings.Trim(im.Path.Value, `"`)
		name := p[strings.LastIndex(p, "/")+1:]
		if im.Name != nil {
			name = im.Name.Name
		}
		if name == "v2" || name == "v3" {
			parts := strings.Split(p, "/")
			name = parts[len(parts)-2]
		}
		if p == "gopkg.in/yaml.v3" {
			name = "yaml"
		}
		pkgs[name] = true
	}
	var out []string
	for _, d := range f.Decls {
		start, end := fset.Position(d.Pos()).Offset, fset.Position(d.End()).Offset
		if gd, ok := d.(*ast.GenDecl); ok && gd.Tok == token.IMPORT {
			out = append(out, string(src[start:end]))
			continue
		}
		var s scanner.Scanner
		fs := token.NewFileSet()
		file := fs.AddFile("", fs.Base(), end-start)
		s.Init(file, src[start:end], nil, 0)
		var toks []string
		afterPkgDot := false
		prevPkg := false
		for {
			_, tok, lit := s.Scan()
			if tok == token.EOF {
				break
			}
			switch tok {
			case token.IDENT:
				switch {
				case afterPkgDot:
					toks = append(toks, lit) // member of an imported package
				case goPredeclared[lit]:
					toks = append(toks, lit)
				case pkgs[lit]:
					toks = append(toks, lit)
				default:
					toks = append(toks, "ID")
				}
				prevPkg = pkgs[lit] && !afterPkgDot
				afterPkgDot = false
				continue
			case token.PERIOD:
				toks = append(toks, ".")
				afterPkgDot = prevPkg
				prevPkg = false
				continue
			case token.STRING:
				if strings.HasPrefix(lit, "`") {
					toks = append(toks, lit)
				} else {
					toks = append(toks, "STR")
				}
			case token.SEMICOLON:
				if lit == "\n" {
					toks = append(toks, ";")
				} else {
					toks = append(toks, ";")
				}
			default:
				if lit != "" {
					toks = append(toks, lit)
				} else {
					toks = append(toks, tok.String())
				}
			}
			prevPkg, afterPkgDot = false, false
		}
		out = append(out, strings.Join(toks, " "))
	}
	sort.Strings(out)
	return out, nil
}

var reTag = regexp.MustCompile(`([A-Za-z_][A-Za-z0-9_]*):"([^"]*)"`)
var reBackTag = regexp.MustCompile("`[^`]*`")

// stripTags removes struct tags from source text.
func stripTags(src []byte) string {
	fset, f, err := gocheck.ParseOnly(src)
	if err != nil {
		return "PARSE ERROR: " + err.Error()
	}
	ast.Inspect(f, func(n ast.Node) bool {
		if fl, ok := n.(*ast.Field); ok {
			fl.Tag = nil
		}
		return true
	})
	ds := gocheck.DeclStrings(fset, f, false)
	var keys []string
	for k := range ds {
		keys = append(keys, k)
	}
	sort.Strings(keys)
	var b strings.Builder
	for _, k := range keys {
		b.WriteString(k + "\n" + ds[k] + "\n")
	}
	return b.String()
}

// tagProblems checks that every tagged field carries exactly the requested keys, in order, all with the same value.
func tagProblems(src []byte, want []string) []string {
	_, f, err := gocheck.ParseOnly(src)
	if err != nil {
		return []string{"parse: " + err.Error()}
	}
	var probs []string
	ast.Inspect(f, func(n ast.Node) bool {
		fl, ok := n.(*ast.Field)
		if !ok || fl.Tag == nil {
			return true
		}
		tag := strings.Trim(fl.Tag.Value, "`")
		if tag == `mapstructure:",remain"` {
			return true
		}
		ms := reTag.FindAllStringSubmatch(tag, -1)
		var keys []string
		vals := map[string]bool{}
		for _, m := range ms {
			keys = append(keys, m[1])
			vals[m[2]] = true
		}
		if strings.Join(keys, ",") != strings.Join(want, ",") {
			probs = append(probs, fmt.Sprintf("field %v has tag keys %v, requested %v", fieldNames(fl), keys, want))
		}
		if len(vals) > 1 {
			probs = append(probs, fmt.Sprintf("field %v: tag values differ between keys: %s", fieldNames(fl), tag))
		}
		return true
	})
	return probs
}

func fieldNames(fl *ast.Field) []string {
	var out []string
	for _, n := range fl.Names {
		out = append(out, n.Name)
	}
	return out
}

func tagValues(src []byte) []string {
	// ordered list of the first tag value of every tagged field: must not change with --tags
	_, f, err := gocheck.ParseOnly(src)
	if err != nil {
		return nil
	}
	var out []string
	ast.Inspect(f, func(n ast.Node) bool {
		if fl, ok := n.(*ast.Field); ok && fl.Tag != nil {
			if m := reTag.FindStringSubmatch(fl.Tag.Value); m != nil {
				out = append(out, strings.Join(fieldNames(fl), "+")+"="+m[2])
			}
		}
		return true
	})
	return out
}

type optPair struct {
	kind string
	a, b []string // option sets (without -p/-o/input)
	tagA []string
	tagB []string
}

func parseTags(opts []string) []string {
	var t []string
	for i := 0; i < len(opts); i++ {
		if opts[i] == "--tags" && i+1 < len(opts) {
			t = append(t, strings.Split(opts[i+1], ",")...)
		}
	}
	if t == nil {
		return []string{"json", "yaml", "mapstructure"}
	}
	return t
}

func without(opts []string, flag string, hasArg bool) []string {
	var out []string
	for i := 0; i < len(opts); i++ {
		if opts[i] == flag {
			if hasArg {
				i++
			}
			continue
		}
		out = append(out, opts[i])
	}
	return out
}

func c16(ctx *Ctx) (*Outcome, error) {
	n := ctx.N(260, 5000)
	type job struct {
		root  *sg.Schema
		pairs []optPair
	}
	var jobs []*job
	for i := 0; i < n; i++ {
		r := sg.NewRng(ctx.Seed, fmt.Sprintf("C16-case-%d", i))
		o := sg.Opts{MaxDepth: 3, Descs: true, Titles: c01Titles, IntLimits: true, PDefault: 0.3, PNullable: 0.25, PAddProps: 0.3, ComposeDefaults: true, AnyBranch: i%4 == 0, W: map[string]float64{"compose": 2}}
		if i%3 == 0 {
			o.Names = []string{"id", "url", "user_id", "httpServer", "alpha", "beta", "camelCase", "snake_case", "x1", "plainName"}
		}
		if i%6 == 1 {
			// names the generated code has a use for itself (methods, locals, packages): whether one of them is taken
			// must not depend on an option that does not speak about names
			o.Names = InternalNames
		}
		g := sg.NewGen(r, o)
		root := g.Root()
		root.ID = "https://example.com/opt"
		root.Title = sg.PickOf(r, c01Titles)
		base := without(without(RandArgs(r, nil), "--only-models", false), "--tags", true)
		base = without(base, "--tags", true)
		j := &job{root: root}
		j.pairs = append(j.pairs, optPair{kind: "only-models", a: base, b: append(append([]string{}, base...), "--only-models")})
		pool := []string{"json", "yaml", "mapstructure", "custom", "toml"}
		mk := func() []string {
			perm := r.Perm(len(pool))
			var t []string
			for _, x := range perm[:1+r.IntN(len(pool))] {
				t = append(t, pool[x])
			}
			return t
		}
		ta, tb := mk(), mk()
		j.pairs = append(j.pairs, optPair{kind: "tags", a: append(append([]string{}, base...), "--tags", strings.Join(ta, ",")), b: append(append([]string{}, base...), "--tags", strings.Join(tb, ",")), tagA: ta, tagB: tb})
		nb := without(base, "--capitalization", true)
		j.pairs = append(j.pairs, optPair{kind: "capitalization", a: nb, b: append(append([]string{}, nb...), "--capitalization", sg.PickOf(r, []string{"ID", "URL,HTTP", "ID,URL,HTTP,Id", "CASE,Alpha", "PROPERTIES", "ADDITIONAL", "PLAIN,Elem", "JSON,YAML", "VALUE,unmarshal"}))})
		nt := without(base, "--struct-name-from-title", false)
		j.pairs = append(j.pairs, optPair{kind: "struct-name-from-title", a: nt, b: append(append([]string{}, nt...), "--struct-name-from-title")})
		j.pairs = append(j.pairs, optPair{kind: "schema-root-type", a: base, b: append(append([]string{}, base...), "--schema-root-type", "https://example.com/opt=Renamed")})
		ne := without(base, "--extra-imports", false)
		j.pairs = append(j.pairs, optPair{kind: "extra-imports", a: ne, b: append(append([]string{}, ne...), "--extra-imports")})
		jobs = append(jobs, j)
	}
	// enumerated: two distinct schema nodes of equal content that want the same Go type name (definition FooBar next
	// to property bar of definition Foo; array levels next to property levelsElem) for every kind of named type -
	// whether the second is merged with the first or declared as X_1 must not depend on --only-models
	for k, body := range []string{`"type":"integer","enum":[1,2,3]`, `"type":"string","enum":["a","b"]`, `"type":"number","enum":[1.5,2]`, `"enum":["x",1,null]`,
		`"type":"object","properties":{"q":{"type":"integer","minimum":1}},"required":["q"]`, `"type":"object","properties":{"q":{"type":"string","default":"d"}}`, `"type":"integer","minimum":3`} {
		for v, text := range []string{
			`{"$id":"https://example.com/opt","type":"object","properties":{"a":{"$ref":"#/$defs/FooBar"},"b":{"$ref":"#/$defs/Foo"}},"$defs":{"FooBar":{` + body + `},"Foo":{"type":"object","properties":{"bar":{` + body + `}}}}}`,
			`{"$id":"https://example.com/opt","type":"object","properties":{"levels":{"type":"array","items":{` + body + `}},"levelsElem":{` + body + `}}}`,
			`{"$id":"https://example.com/opt","type":"object","properties":{"x":{"type":"object","properties":{"y":{` + body + `}}},"xY":{` + body + `},"x_y":{` + body + `}}}`,
		} {
			root, err := sg.FromJSON([]byte(text))
			if err != nil {
				continue
			}
			j := &job{root: root}
			for _, base := range [][]string{nil, {"--extra-imports"}, {"--min-sized-ints"}} {
				j.pairs = append(j.pairs, optPair{kind: "only-models", a: base, b: append(append([]string{}, base...), "--only-models")})
			}
			_ = k
			_ = v
			jobs = append(jobs, j)
		}
	}
	// enumerated: every kind of schema that gets methods in a full run (enums of every value kind incl. the null-typed
	// one whose wrapper exists because interface{} cannot carry methods, nullable enums, format strings, objects with
	// every validator kind, maps, anyOf) at required / optional / nullable-list / items / definition positions - what is
	// declared must not depend on whether the methods are emitted
	for k, body := range []string{`"type":"null","enum":[null]`, `"type":["null"],"enum":[null]`, `"enum":[null]`, `"type":["string","null"],"enum":["a",null]`, `"type":"boolean","enum":[true]`,
		`"type":"string","enum":["a"],"default":"a"`, `"type":"string","format":"date"`, `"type":"object","additionalProperties":{"type":"integer"}`, `"type":"object","properties":{"k":{"type":"string","pattern":"^a"}},"additionalProperties":{"type":"string"}`,
		`"anyOf":[{"type":"object","properties":{"a":{"type":"string"}},"required":["a"]},{"type":"object","properties":{"b":{"type":"integer"}}}]`, `"type":"array","items":{"type":"string","enum":["x","y"]},"minItems":1`, `"type":"null"`,
		// enums over several types, with integers among the values (the two decoders read integers differently)
		`"type":["integer","string"],"enum":[1,2,"auto"]`, `"type":["integer","null"],"enum":[1,2,null]`, `"type":["number","string"],"enum":[1.5,2,"x"]`, `"type":["integer","boolean"],"enum":[1,true]`, `"enum":[1,"a",2.5,true,null]`,
		`"type":["string","integer"],"enum":["auto",1]`, `"type":"integer","enum":[1,2,3]`, `"type":"number","enum":[1,2.5]`} {
		text := `{"$id":"https://example.com/opt","type":"object","required":["req"],"properties":{"req":{` + body + `},"opt":{` + body + `},"list":{"type":"array","items":{` + body + `}},"viaDef":{"$ref":"#/$defs/D"},"nested":{"type":"object","properties":{"in":{` + body + `}}}},"$defs":{"D":{` + body + `}}}`
		root, err := sg.FromJSON([]byte(text))
		if err != nil {
			continue
		}
		j := &job{root: root}
		for _, base := range [][]string{nil, {"--extra-imports"}, {"--min-sized-ints", "--struct-name-from-title"}} {
			j.pairs = append(j.pairs, optPair{kind: "only-models", a: base, b: append(append([]string{}, base...), "--only-models")})
		}
		// ... nor may the JSON side of it depend on whether the YAML methods are emitted next to it
		for _, base := range [][]string{nil, {"--min-sized-ints"}, {"--tags", "json"}} {
			j.pairs = append(j.pairs, optPair{kind: "extra-imports", a: base, b: append(append([]string{}, base...), "--extra-imports")})
		}
		_ = k
		jobs = append(jobs, j)
	}
	// enumerated: a definition that holds a composition and is generated twice under two scopes (used by reference AND
	// merged into another struct through allOf): the member types the second scope needs are declared with and without
	// methods alike
	for _, inner := range []string{
		`"anyOf":[{"type":"object","properties":{"r":{"type":"number"}},"required":["r"]},{"type":"object","properties":{"w":{"type":"number"},"h":{"type":"number"}},"required":["w"]}]`,
		`"anyOf":[{"$ref":"#/$defs/Circle"},{"type":"object","properties":{"w":{"type":"number"}},"required":["w"]}]`,
		`"allOf":[{"type":"object","properties":{"r":{"type":"number","minimum":0}}},{"type":"object","properties":{"label":{"type":"string"}}}]`,
		`"type":"array","items":{"anyOf":[{"type":"object","properties":{"r":{"type":"number"}},"required":["r"]},{"type":"object","properties":{"w":{"type":"number"}},"required":["w"]}]}`,
	} {
		text := `{"$id":"https://example.com/opt","type":"object","properties":{"plain":{"$ref":"#/$defs/Figure"},"tagged":{"allOf":[{"$ref":"#/$defs/Figure"},{"type":"object","properties":{"tag":{"type":"string"}}}]},"again":{"allOf":[{"type":"object","properties":{"n":{"type":"integer"}}},{"$ref":"#/$defs/Figure"}]}},` +
			`"$defs":{"Circle":{"type":"object","properties":{"r":{"type":"number"}},"required":["r"]},"Figure":{"type":"object","properties":{"name":{"type":"string"},"shape":{` + inner + `}}}}}`
		root, err := sg.FromJSON([]byte(text))
		if err != nil {
			continue
		}
		j := &job{root: root}
		for _, base := range [][]string{nil, {"--extra-imports"}, {"--struct-name-from-title", "--min-sized-ints"}} {
			j.pairs = append(j.pairs, optPair{kind: "only-models", a: base, b: append(append([]string{}, base...), "--only-models")})
		}
		jobs = append(jobs, j)
	}
	type pres struct {
		problem string
		skipped string
		srcA    []byte
		srcB    []byte
	}
	results := make([][]pres, len(jobs))
	stage.Parallel(len(jobs), func(i int) {
		j := jobs[i]
		data := jsonx.MarshalIndent(j.root.ToJSON())
		cache := map[string]*cli.Result{}
		run := func(opts []string) *cli.Result {
			key := strings.Join(opts, "\x00")
			if r, ok := cache[key]; ok {
				return r
			}
			args := append([]string{"-p", "optpkg", "-o", "out.go"}, opts...)
			args = append(args, "root.json")
			r := cli.Run(ctx.Env, &cli.Inv{Files: []batch.File{{Path: "root.json", Data: data}}, Args: args})
			cache[key] = r
			return r
		}
		for _, p := range j.pairs {
			ra, rb := run(p.a), run(p.b)
			var pr pres
			if ra.Proc.Exit != 0 || rb.Proc.Exit != 0 {
				if (ra.Proc.Exit == 0) != (rb.Proc.Exit == 0) {
					pr.problem = fmt.Sprintf("the option changes whether generation succeeds: without: exit %d %s | with: exit %d %s", ra.Proc.Exit, ra.Failed(), rb.Proc.Exit, rb.Failed())
				} else {
					pr.skipped = "refused: " + ra.Failed()
				}
				results[i] = append(results[i], pr)
				continue
			}
			a, b := ra.Out("out.go"), rb.Out("out.go")
			pr.srcA, pr.srcB = a, b
			pr.problem = comparePair(ctx, p, a, b)
			results[i] = append(results[i], pr)
		}
		for _, r := range cache {
			r.Cleanup()
		}
	})
	var viols []Viol
	sigs := map[string]bool{}
	var samples []any
	pairsChecked, skipped := 0, 0
	byKind := map[string]int{}
	vseen := map[string]bool{}
	for i, j := range jobs {
		for k, p := range j.pairs {
			pr := results[i][k]
			if pr.skipped != "" {
				skipped++
				continue
			}
			pairsChecked++
			byKind[p.kind]++
			sigs[p.kind+"|"+j.root.Sig()] = true
			if len(samples) < 5 && pairsChecked%211 == 5 {
				samples = append(samples, map[string]any{"kind": p.kind, "options_a": p.a, "options_b": p.b, "schema": json.RawMessage(jsonx.Marshal(j.root.ToJSON())), "verdict": "outputs differ only in what the option names"})
			}
			if pr.problem != "" {
				key := p.kind + "|" + classifyDiag(pr.problem)
				if vseen[key] || len(viols) >= 12 {
					continue
				}
				vseen[key] = true
				rp := filepath.Join(evid.ReplayDir(), fmt.Sprintf("C16-%d", len(viols)))
				_ = os.MkdirAll(rp, 0o755)
				_ = os.WriteFile(filepath.Join(rp, "root.json"), jsonx.MarshalIndent(j.root.ToJSON()), 0o644)
				_ = os.WriteFile(filepath.Join(rp, "a.go.txt"), pr.srcA, 0o644)
				_ = os.WriteFile(filepath.Join(rp, "b.go.txt"), pr.srcB, 0o644)
				b, _ := json.MarshalIndent(map[string]any{"property": "C16", "kind": p.kind, "options_a": p.a, "options_b": p.b, "problem": pr.problem}, "", " ")
				_ = os.WriteFile(filepath.Join(rp, "summary.json"), b, 0o644)
				viols = append(viols, Viol{Replay: rp, Summary: fmt.Sprintf("[%s] %s\n a=%v\n b=%v", p.kind, trunc(pr.problem, 600), p.a, p.b)})
			}
		}
	}
	crossChecked, crossSigs, crossProbs := c16CrossFile(ctx)
	pairsChecked += crossChecked
	byKind["schema-root-type (cross-file, x package/output mapping)"] = crossChecked
	for k := range crossSigs {
		sigs[k] = true
	}
	for _, cp := range crossProbs {
		key := "cross|" + classifyDiag(cp.problem)
		if vseen[key] || len(viols) >= 12 {
			_ = os.RemoveAll(cp.dir)
			continue
		}
		vseen[key] = true
		rp := filepath.Join(evid.ReplayDir(), fmt.Sprintf("C16-%d", len(viols)))
		_ = os.RemoveAll(rp)
		_ = osexec("cp", "-r", cp.dir, rp)
		_ = os.RemoveAll(cp.dir)
		b, _ := json.MarshalIndent(map[string]any{"property": "C16", "kind": cp.sig, "options_a": cp.a, "options_b": cp.b, "problem": cp.problem}, "", " ")
		_ = os.WriteFile(filepath.Join(rp, "verif-summary.json"), b, 0o644)
		viols = append(viols, Viol{Replay: rp, Summary: fmt.Sprintf("[%s] %s\n a=%v\n b=%v", cp.sig, trunc(cp.problem, 600), cp.a, cp.b)})
	}
	o := &Outcome{Level: "exploration", Violations: viols}
	o.Coverage = map[string]any{
		"evaluations":           pairsChecked,
		"distinct_nontrivial":   len(sigs),
		"rule":                  "random schemas over the full feature space x a random base option set x its six one-option neighbours (+-only-models, --tags A vs B, +-capitalization, +-struct-name-from-title, +-schema-root-type, +-extra-imports) plus a cross-file stratum (order -> customer file and definition, JSON/YAML; --schema-root-type for the referenced or the referring schema next to every combination of --schema-package / --schema-output for the referenced id: same set of files, same declarations up to the renamed type); the two real CLI outputs are compared at go/ast level: only-models => identical type declarations (printed with comments), no func, no var, and the file still type-checks (no stray import); tags => identical after erasing tags, every tag = requested keys in order with one common value, values unchanged; naming options => identical multiset of declarations after masking package-local identifiers and interpreted strings (struct tags kept); extra-imports => with-flag declarations minus *YAML methods and the yaml import equal the without-flag declarations; distinct_nontrivial = distinct (option kind, schema signature) pairs",
		"samples":               samples,
		"pairs_by_option":       byKind,
		"pairs_skipped_refused": skipped,
	}
	if len(samples) == 0 {
		o.Coverage["samples"] = []any{"none"}
	}
	o.Assumptions = []string{"constants of string enums are not 'functions, methods or variables' (DESIGN §3.8)", "go/parser, go/printer, go/scanner, go/types of the installed toolchain"}
	if pairsChecked < n*3 {
		o.Inconclusive = fmt.Sprintf("only %d option pairs compared", pairsChecked)
	}
	return o, nil
}

func comparePair(ctx *Ctx, p optPair, a, b []byte) string {
	switch p.kind {
	case "only-models":
		fa, fileA, errA := gocheck.ParseOnly(a)
		fb, fileB, errB := gocheck.ParseOnly(b)
		if errA != nil || errB != nil {
			return fmt.Sprintf("output does not parse: %v %v", errA, errB)
		}
		da, db := gocheck.DeclStrings(fa, fileA, false), gocheck.DeclStrings(fb, fileB, false)
		for k := range db {
			if strings.HasPrefix(k, "func ") || strings.HasPrefix(k, "var ") {
				return "--only-models output contains " + k
			}
		}
		for k, v := range da {
			if strings.HasPrefix(k, "type ") {
				if bv, ok := db[k]; !ok {
					return "--only-models output lacks " + k
				} else if bv != v {
					return fmt.Sprintf("%s differs with --only-models:\n--- full\n%s\n--- only-models\n%s", k, v, bv)
				}
			}
		}
		for k := range db {
			if strings.HasPrefix(k, "type ") {
				if _, ok := da[k]; !ok {
					return "--only-models output has extra " + k
				}
			}
		}
		// "and nothing else": the file must not carry imports that nothing uses (it has to compile)
		rep := ctx.Env.Exports.CheckSource("out.go", b, nil)
		ra := ctx.Env.Exports.CheckSource("out.go", a, nil)
		if len(rep.TypeErrs) > 0 && len(ra.TypeErrs) == 0 {
			return "--only-models output does not type-check although the full output does: " + rep.TypeErrs[0]
		}
	case "tags":
		if sa, sb := stripTags(a), stripTags(b); sa != sb {
			return "outputs differ beyond struct tags: " + firstDiff(sa, sb)
		}
		if pr := tagProblems(a, p.tagA); len(pr) > 0 {
			return pr[0]
		}
		if pr := tagProblems(b, p.tagB); len(pr) > 0 {
			return pr[0]
		}
		va, vb := tagValues(a), tagValues(b)
		if strings.Join(va, "|") != strings.Join(vb, "|") {
			return "--tags changed a tag value (name/omitempty): " + firstDiff(strings.Join(va, "\n"), strings.Join(vb, "\n"))
		}
	case "capitalization", "struct-name-from-title", "schema-root-type":
		ma, errA := maskedDecls(a)
		mb, errB := maskedDecls(b)
		if errA != nil || errB != nil {
			return fmt.Sprintf("output does not parse: %v %v", errA, errB)
		}
		if strings.Join(ma, "\n") != strings.Join(mb, "\n") {
			return "outputs differ in more than identifiers: " + firstDiff(strings.Join(ma, "\n"), strings.Join(mb, "\n"))
		}
	case "extra-imports":
		fa, fileA, errA := gocheck.ParseOnly(a)
		fb, fileB, errB := gocheck.ParseOnly(b)
		if errA != nil || errB != nil {
			return fmt.Sprintf("output does not parse: %v %v", errA, errB)
		}
		da, db := gocheck.DeclStrings(fa, fileA, false), gocheck.DeclStrings(fb, fileB, false)
		for k := range da {
			// YAML code = the YAML methods and the import of the yaml package (not any name that merely contains
			// "YAML": a property may be called UnmarshalYAML)
			if strings.HasSuffix(k, ".UnmarshalYAML") || strings.HasSuffix(k, ".MarshalYAML") || (strings.HasPrefix(k, "import ") && strings.Contains(k, "yaml.v3")) {
				return "YAML code without --extra-imports: " + k
			}
		}
		for k, v := range db {
			if strings.HasSuffix(k, ".UnmarshalYAML") || strings.HasSuffix(k, ".MarshalYAML") || k == `import "gopkg.in/yaml.v3"` {
				continue
			}
			if av, ok := da[k]; !ok {
				return "--extra-imports adds " + k
			} else if av != v {
				return fmt.Sprintf("%s differs with --extra-imports:\n--- without\n%s\n--- with\n%s", k, av, v)
			}
		}
		for k := range da {
			if _, ok := db[k]; !ok {
				return "--extra-imports removes " + k
			}
		}
	}
	return ""
}

func bytesContains(b []byte, s string) bool { return strings.Contains(string(b), s) }

func firstDiff(a, b string) string {
	la, lb := strings.Split(a, "\n"), strings.Split(b, "\n")
	for i := 0; i < len(la) || i < len(lb); i++ {
		var x, y string
		if i < len(la) {
			x = la[i]
		}
		if i < len(lb) {
			y = lb[i]
		}
		if x != y {
			return fmt.Sprintf("line %d:\n  a: %s\n  b: %s", i+1, trunc(x, 300), trunc(y, 300))
		}
	}
	return "(no line differs)"
}

// c16CrossFile: --schema-root-type for a schema that is reached through a cross-file reference, next to every
// combination of --schema-package / --schema-output for the same id. Adding the root-type mapping may rename the
// root type (and what refers to it) and nothing else: the same set of files, the same declarations.
type crossProblem struct {
	sig, problem string
	a, b         []string
	dir          string
}

func c16CrossFile(ctx *Ctx) (checked int, sigs map[string]bool, probs []crossProblem) {
	sigs = map[string]bool{}
	const custID, orderID = "https://example.com/customer", "https://example.com/order"
	mod := c20ModFiles(ctx.Env)
	n := ctx.N(96, 384)
	type res struct {
		p   *crossProblem
		sig string
		ok  bool
	}
	results := make([]res, n)
	stage.Parallel(n, func(i int) {
		r := sg.NewRng(ctx.Seed, fmt.Sprintf("C16-cross-%d", i))
		g := sg.NewGen(r, sg.Opts{MaxDepth: 2, NoFormats: true, NoRefs: true})
		cust := g.Object(1, true)
		cust.ID = custID
		addr := g.Object(2, false)
		cust.Defs = append(cust.Defs, sg.Prop{Name: "Address", S: addr})
		yaml := i%5 == 4
		ext := ".json"
		if yaml {
			ext = ".yaml"
		}
		order := &sg.Schema{ID: orderID, Types: []string{"object"}, Props: []sg.Prop{
			{Name: "customer", S: &sg.Schema{Ref: "customer" + ext, Target: cust}},
			{Name: "n", S: g.Integer()},
		}}
		if i%2 == 0 {
			order.Props = append(order.Props, sg.Prop{Name: "shipTo", S: &sg.Schema{Ref: "customer" + ext + "#/$defs/Address", Target: addr}})
		}
		typeless := (i/24)%2 == 1
		if typeless {
			// a referenced document without a "type" of its own is named where it is referred to
			cust.Types = nil
		}
		order.Title, cust.Title = "Purchase Order", "Postal Address"
		var base []string
		mapping := i % 4 // which of package/output the referenced schema is mapped with
		if mapping&1 != 0 {
			base = append(base, "--schema-package", custID+"="+c20Mod+"/cust")
		}
		if mapping&2 != 0 {
			base = append(base, "--schema-output", custID+"=cust/customer.go")
		}
		if (i/4)%3 == 1 {
			base = append(base, "--only-models")
		} else if (i/4)%3 == 2 {
			base = append(base, "--extra-imports")
		}
		which, oldName := custID, "Customer"+strings.ToUpper(ext[1:2])+ext[2:]
		if (i/12)%2 == 1 {
			which, oldName = orderID, "Order"+strings.ToUpper(ext[1:2])+ext[2:]
		}
		with := append(append([]string{}, base...), "--schema-root-type", which+"=Renamed")
		titleNeighbour := mapping == 0 && (i/48)%2 == 1
		if titleNeighbour {
			// +-struct-name-from-title instead (one package: every identifier is local and masked)
			with = append(append([]string{}, base...), "--struct-name-from-title")
		}
		files := append([]batch.File{}, mod...)
		data := func(s *sg.Schema) []byte {
			if yaml {
				return sg.ToYAML(s.ToJSON(), sg.YAMLBlock)
			}
			return jsonx.MarshalIndent(s.ToJSON())
		}
		files = append(files, batch.File{Path: "schemas/customer" + ext, Data: data(cust)}, batch.File{Path: "schemas/order" + ext, Data: data(order)})
		run := func(opts []string) *cli.Result {
			args := append([]string{"-p", c20Mod + "/defpkg", "-o", "defpkg/default.go"}, opts...)
			return cli.Run(ctx.Env, &cli.Inv{Files: files, Args: append(args, "schemas/order"+ext)})
		}
		ra, rb := run(base), run(with)
		defer ra.Cleanup()
		sig := fmt.Sprintf("cross mapping=%d mode=%d which=%s yaml=%v typeless=%v title=%v", mapping, (i/4)%3, oldName, yaml, typeless, titleNeighbour)
		results[i].sig = sig
		fail := func(msg string) {
			results[i].p = &crossProblem{sig: sig, problem: msg, a: base, b: with, dir: rb.Dir}
		}
		if ra.Proc.Exit != 0 || rb.Proc.Exit != 0 {
			if (ra.Proc.Exit == 0) != (rb.Proc.Exit == 0) {
				fail(fmt.Sprintf("the option changes whether generation succeeds: without: exit %d %s | with: exit %d %s", ra.Proc.Exit, ra.Failed(), rb.Proc.Exit, rb.Failed()))
				return
			}
			rb.Cleanup()
			return
		}
		results[i].ok = true
		oa, ob := ra.Outputs(), rb.Outputs()
		if strings.Join(keysOf(oa), ",") != strings.Join(keysOf(ob), ",") {
			fail(fmt.Sprintf("--schema-root-type changes the set of emitted files: without %v, with %v", keysOf(oa), keysOf(ob)))
			return
		}
		re := regexp.MustCompile(`\bRenamed`)
		for name, a := range oa {
			if !strings.HasSuffix(name, ".go") {
				continue
			}
			b := ob[name]
			if !titleNeighbour {
				b = re.ReplaceAll(b, []byte(oldName))
			}
			ma, errA := maskedDecls(a)
			mb, errB := maskedDecls(b)
			if errA != nil || errB != nil {
				fail(fmt.Sprintf("%s does not parse: %v %v", name, errA, errB))
				return
			}
			sort.Strings(ma)
			sort.Strings(mb)
			if strings.Join(ma, "\n") != strings.Join(mb, "\n") {
				fail(name + ": outputs differ in more than identifiers: " + firstDiff(strings.Join(ma, "\n"), strings.Join(mb, "\n")))
				return
			}
		}
		rb.Cleanup()
	})
	for _, r := range results {
		if r.ok {
			checked++
			sigs[r.sig] = true
		}
		if r.p != nil {
			probs = append(probs, *r.p)
		}
	}
	return
}
