package checks

import (
	"fmt"
	"os"
	"sort"

	"verif/internal/docgen"
	"verif/internal/sem"
	"verif/internal/sg"
)

func init() { Register("EXPLORE", explore) }

// explore is a development aid: generic generator, everything on, prints mismatch classes.
func explore(ctx *Ctx) (*Outcome, error) {
	n := ctx.N(200, 2000)
	var cases []*sem.Case
	for i := 0; i < n; i++ {
		r := sg.NewRng(ctx.Seed, fmt.Sprintf("explore-%d", i))
		g := sg.NewGen(r, sg.Opts{MaxDepth: 2, Hazard: os.Getenv("HAZARD") != "", AddPropsTrue: true, NullType: true, RootKinds: true})
		root := g.Root()
		cases = append(cases, &sem.Case{Root: root, Sig: root.Sig()})
	}
	cfg := &sem.Config{Prop: "EXPLORE", Tier: ctx.Tier, Seed: ctx.Seed, Cases: cases, Classes: docgen.AllClasses, Valid: 4, PerSite: 2, MaxDocs: 120,
		Modes: []string{"json"}, Values: true, ByValue: true, Defaults: true, AddProps: true, Env: ctx.Env}
	rep, err := sem.Run(cfg)
	if err != nil {
		return nil, err
	}
	fmt.Printf("programs=%d usable=%d genfail=%v compilefail=%v\n", rep.Programs, rep.Usable, rep.GenFail, rep.CompileFail)
	for _, e := range rep.GenFailEx {
		fmt.Println("  ex:", e)
	}
	fmt.Printf("decided=%d byclass=%v accepts=%d rejects=%d dontcare=%v known=%v selfFail=%d\n", rep.Decided, rep.ByClass, rep.Accepts, rep.Rejects, rep.DontCare, rep.Known, rep.ModelSelfFail)
	ks := map[string]int{}
	for _, v := range rep.Violations {
		ks[v.Kind+"/"+v.Class]++
	}
	var keys []string
	for k := range ks {
		keys = append(keys, k)
	}
	sort.Strings(keys)
	for _, k := range keys {
		fmt.Println("  viol", k, ks[k])
	}
	for _, v := range rep.Violations {
		fmt.Printf("V %s/%s exp=%s obs=%s :: %s\n    doc=%s\n    schema=%s\n", v.Kind, v.Class, trunc(v.Expected, 80), trunc(v.Observed, 80), trunc(v.Detail, 160), trunc(v.Doc, 200), trunc(fmt.Sprintf("%s", v.Schema), 700))
	}
	o := FromSem(ctx, rep, "generic random schemas", 1, nil)
	if os.Getenv("XCHECK") != "" {
		cov, inc := modelCrossCheck(ctx, 400)
		fmt.Println("XCHECK", cov, inc)
	}
	o.Violations = nil
	return o, nil
}
