package checks

import (
	"encoding/json"
	"fmt"
	"math"
	"os"
	"path/filepath"
	"regexp"
	"sort"
	"strings"
	"unicode"

	"verif/internal/batch"
	"verif/internal/evid"
	"verif/internal/jsonx"
	"verif/internal/sem"
	"verif/internal/sg"
)

func init() { Register("C01", c01) }

// HostileTexts is the description/title pool of the clean part: all of these must give valid Go.
var HostileTexts = []string{
	"plain",
	"two\nlines",
	"windows\r\nline ends",
	"trailing newline\n",
	"\nleading newline",
	"blank\n\nline between",
	"with \"double\" and 'single' quotes",
	"back`tick`s",
	"comment terminator */ inside",
	"comment opener /* inside",
	"// looks like a comment",
	"a_very_long_word_without_any_space_that_is_much_longer_than_the_eighty_columns_the_emitter_wraps_at_so_it_cannot_wrap",
	"tabs\there\tand there",
	"percent %d %s %v %% signs",
	"backslash \\ and \\n literal",
	"unicode ✓ héllo 日本語 😀",
	"line separator \u2028 and paragraph separator \u2029 inside",
	"next line \u0085 char",
	"  leading and trailing spaces  ",
	"ends with backslash \\",
	"braces { } [ ] ( ) < >",
	"go:generate echo hi",
	"nolint:all",
	"Deprecated: use something else",
	strings.Repeat("word ", 60),
	"line one\n    indented code line\nline three",
	"carriage\rreturn only",
}

// HostileTextsHazard trigger recorded findings F14/F15.
var HostileTextsHazard = []string{
	"nul \x00 byte",
	"bom \ufeff inside",
	"+build ignore",
	"text\n+build linux\nmore",
	"go:build ignore",
}

var c01Titles = []string{"My Title", "my title", "title-with-dash", "Title With Many Words", "x", "2fast", "Ünïcödé", "snake_case_title", "HTTPServer", "a.b.c"}

var c01Names = []string{"alpha", "beta", "gamma", "delta", "camelCase", "snake_case", "kebab-case", "with space", "UPPER", "x1", "1x", "dotted.name", "ünï", "日本", "a", "b2b", "id", "url", "MixedCASEName", "trailing_", "$dollar", "at@sign"}

// RandArgs draws an option set.
func RandArgs(r *sg.Rng, root *sg.Schema) []string {
	var a []string
	if r.Chance(0.4) {
		a = append(a, "--extra-imports")
	}
	if r.Chance(0.15) {
		a = append(a, "--only-models")
	}
	if r.Chance(0.3) {
		a = append(a, "--min-sized-ints")
	}
	if r.Chance(0.3) {
		pool := []string{"json", "yaml", "mapstructure", "custom"}
		perm := r.Perm(len(pool))
		n := 1 + r.IntN(len(pool))
		var t []string
		for _, i := range perm[:n] {
			t = append(t, pool[i])
		}
		if r.Chance(0.5) {
			a = append(a, "--tags", strings.Join(t, ","))
		} else {
			for _, x := range t {
				a = append(a, "--tags", x)
			}
		}
	}
	if r.Chance(0.3) {
		a = append(a, "--capitalization", sg.PickOf(r, []string{"ID", "URL", "ID,URL,HTTP", "Alpha", "CASE", "PROPERTIES", "ADDITIONAL,PLAIN", "JSON,YAML,Elem", "VALUE", "unmarshal"}))
	}
	if r.Chance(0.3) {
		a = append(a, "--struct-name-from-title")
	}
	if root != nil && root.ID != "" && r.Chance(0.5) {
		a = append(a, "--schema-root-type", root.ID+"=CustomRoot")
	}
	if r.Chance(0.15) {
		a = append(a, sg.PickOf(r, []string{"--verbose", "-v"})) // logging only: nothing that is checked may depend on it
	}
	return a
}

// RespellOpts writes the same options differently: short for long flags, --flag=value for --flag value, repeated
// flags for comma-joined lists and the other way round.
func RespellOpts(opts []string) []string {
	takesValue := map[string]bool{"--tags": true, "--capitalization": true, "--schema-package": true, "--schema-output": true, "--schema-root-type": true,
		"--resolve-extension": true, "--yaml-extension": true, "-o": true, "--output": true, "-p": true, "--package": true}
	short := map[string]string{"--extra-imports": "-e", "--struct-name-from-title": "-t", "--verbose": "-v", "-v": "--verbose", "-o": "--output", "-p": "--package"}
	var out []string
	lists := map[string][]string{}
	var listOrder []string
	for i := 0; i < len(opts); i++ {
		f := opts[i]
		val := ""
		if eq := strings.Index(f, "="); strings.HasPrefix(f, "--") && eq > 0 && takesValue[f[:eq]] {
			f, val = f[:eq], f[eq+1:]
		} else if takesValue[f] && i+1 < len(opts) {
			i++
			val = opts[i]
		}
		switch f {
		case "--tags", "--capitalization", "--resolve-extension":
			if _, seen := lists[f]; !seen {
				listOrder = append(listOrder, f)
			}
			lists[f] = append(lists[f], strings.Split(val, ",")...)
		default:
			if s, ok := short[f]; ok {
				f = s
			}
			if val == "" && !takesValue[f] {
				out = append(out, f)
			} else if strings.HasPrefix(f, "--") {
				out = append(out, f+"="+val)
			} else {
				out = append(out, f, val)
			}
		}
	}
	for k, f := range listOrder {
		if k%2 == 0 {
			out = append(out, f+"="+strings.Join(lists[f], ","))
		} else {
			for _, v := range lists[f] {
				out = append(out, f, v)
			}
		}
	}
	return out
}

// genFinding is a recorded generator-side defect: trigger predicate + neutraliser + diagnostics it may explain.
type genFinding struct {
	sig        string
	trigger    func(root *sg.Schema, args []string) bool
	neutralise func(root *sg.Schema)
	diag       *regexp.Regexp
}

func anyNode(root *sg.Schema, f func(*sg.Schema) bool) bool {
	found := false
	root.Walk(func(x *sg.Schema) {
		if !found && f(x) {
			found = true
		}
	})
	return found
}

func isIntType(x *sg.Schema) bool {
	t, _, ok := x.NonNullType()
	return ok && t == "integer"
}

func namedNodes(root *sg.Schema) []*sg.Schema {
	out := []*sg.Schema{root}
	root.Walk(func(x *sg.Schema) {
		for _, d := range x.Defs {
			out = append(out, d.S)
		}
	})
	return out
}

func identKey(s string) string {
	var b strings.Builder
	up := true
	for _, r := range s {
		if unicode.IsLetter(r) || unicode.IsDigit(r) {
			if up {
				b.WriteRune(unicode.ToUpper(r))
				up = false
			} else {
				b.WriteRune(r)
			}
		} else {
			up = true
		}
	}
	return b.String()
}

func enumCollides(x *sg.Schema) bool {
	if !x.HasEnum {
		return false
	}
	seen := map[string]string{}
	for _, e := range x.Enum {
		if s, ok := e.(string); ok {
			k := identKey(s)
			// the same value listed twice is not a collision (the generator declares its constant once)
			if prev, dup := seen[k]; dup && prev != s {
				return true
			}
			seen[k] = s
		}
	}
	return false
}

func illTypedDefault(x *sg.Schema) bool {
	if !x.HasDefault {
		return false
	}
	if x.Ref != "" && x.Target != nil {
		// next to a reference a default is well-typed when the definition is a plain scalar, a one-kind enum or an
		// array of plain scalars (the generator emits a literal of the named type)
		tgt := x.Target
		if tgt.Ref != "" || len(tgt.AllOf) > 0 || len(tgt.AnyOf) > 0 || tgt.Ext != nil || tgt.HasDefault {
			return true
		}
		c := tgt.Clone()
		c.HasDefault, c.Default = true, x.Default
		return illTypedDefault(c)
	}
	if x.Ref != "" || len(x.AllOf) > 0 || len(x.AnyOf) > 0 || x.Ext != nil {
		return true
	}
	if len(x.Types) == 0 && !x.HasEnum {
		// no type: the field is interface{}; a scalar default is assignable, an array or object default becomes the
		// invalid literal interface{}{...}
		switch x.Default.(type) {
		case []any, jsonx.Obj:
			return true
		}
		return false
	}
	t, nullable, ok := x.NonNullType()
	if x.HasEnum {
		k := ""
		for _, e := range x.Enum {
			kk := jsonx.Kind(e)
			if k == "" {
				k = kk
			} else if k != kk {
				return true // wrapped enum
			}
		}
		if len(x.Types) == 1 && x.Types[0] == "null" {
			return true
		}
		return false
	}
	if !ok || nullable {
		return true
	}
	switch t {
	case "string":
		return x.Format != ""
	case "array":
		if x.Items == nil {
			return false
		}
		it, inul, iok := x.Items.NonNullType()
		if !iok || inul || x.Items.HasEnum || x.Items.Ref != "" {
			return true
		}
		return it == "array" || it == "object" || x.Items.Format != ""
	case "object":
		// a default for an inline object is a well-formed struct literal when every property of the object is
		// non-pointer (required or defaulted itself), the default names only declared keys and gives them scalars
		// of the declared type; anything else is the recorded finding
		if len(x.Props) == 0 || x.AddProps != nil || x.AddPropsBool != nil {
			return true
		}
		dv, isObj := x.Default.(jsonx.Obj)
		if !isObj {
			return true
		}
		for _, p := range x.Props {
			if !(x.IsRequired(p.Name) || p.S.HasDefault) {
				return true
			}
		}
		for _, kv := range dv {
			p := x.Prop(kv.K)
			if p == nil || p.Ref != "" || p.HasEnum || len(p.Types) != 1 {
				return true
			}
			ok := map[string]string{"string": "string", "integer": "number", "number": "number", "boolean": "boolean"}[p.Types[0]]
			if ok == "" || jsonx.Kind(kv.V) != ok {
				return true
			}
		}
		return false
	}
	return false
}

var genFindings = []genFinding{
	{sig: "int-multipleof-fraction",
		trigger: func(root *sg.Schema, _ []string) bool {
			return anyNode(root, func(x *sg.Schema) bool {
				return isIntType(x) && x.MultipleOf != nil && int64(*x.MultipleOf) == 0
			})
		},
		neutralise: func(root *sg.Schema) {
			root.Walk(func(x *sg.Schema) {
				if isIntType(x) && x.MultipleOf != nil && int64(*x.MultipleOf) == 0 {
					x.MultipleOf = sg.Fp(1)
				}
			})
		},
		diag: regexp.MustCompile(`division by zero`)},
	{sig: "named-number-multipleof",
		trigger: func(root *sg.Schema, _ []string) bool {
			for _, n := range namedNodes(root) {
				if t, _, ok := n.NonNullType(); ok && t == "number" && n.MultipleOf != nil && !n.HasEnum {
					return true
				}
			}
			return false
		},
		neutralise: func(root *sg.Schema) {
			for _, n := range namedNodes(root) {
				if t, _, ok := n.NonNullType(); ok && t == "number" {
					n.MultipleOf = nil
				}
			}
		},
		diag: regexp.MustCompile(`argument to math\.Mod`)},
	{sig: "enum-const-collision",
		trigger: func(root *sg.Schema, _ []string) bool { return anyNode(root, enumCollides) },
		neutralise: func(root *sg.Schema) {
			root.Walk(func(x *sg.Schema) {
				if enumCollides(x) {
					for i, e := range x.Enum {
						if _, ok := e.(string); ok {
							x.Enum[i] = fmt.Sprintf("v%d", i)
						}
					}
					if _, ok := x.Default.(string); ok && x.HasDefault {
						x.Default = "v0"
					}
				}
			})
		},
		diag: regexp.MustCompile(`redeclared in this block|other declaration of`)},
	{sig: "default-ill-typed",
		trigger: func(root *sg.Schema, _ []string) bool { return anyNode(root, illTypedDefault) },
		neutralise: func(root *sg.Schema) {
			root.Walk(func(x *sg.Schema) {
				if illTypedDefault(x) {
					x.HasDefault, x.Default = false, nil
				}
			})
		},
		diag: regexp.MustCompile(`cannot use .* as .* value in assignment|cannot use .* in (struct|slice|array|map) literal|undefined: |invalid composite literal|unknown field|mixture of field|missing type in composite literal|cannot use|too few values|invalid operation`)},
	{sig: "description-nul-bom",
		trigger: func(root *sg.Schema, _ []string) bool {
			return anyNode(root, func(x *sg.Schema) bool { return strings.ContainsAny(x.Desc, "\x00\ufeff") })
		},
		neutralise: func(root *sg.Schema) {
			root.Walk(func(x *sg.Schema) {
				x.Desc = strings.NewReplacer("\x00", "", "\ufeff", "").Replace(x.Desc)
			})
		},
		diag: regexp.MustCompile(`illegal character NUL|illegal byte order mark|could not be formatted`)},
	{sig: "description-build-line",
		trigger: func(root *sg.Schema, _ []string) bool {
			return anyNode(root, func(x *sg.Schema) bool { return reBuildLine.MatchString(x.Desc) })
		},
		neutralise: func(root *sg.Schema) {
			root.Walk(func(x *sg.Schema) { x.Desc = reBuildLine.ReplaceAllString(x.Desc, "${1}build-line-removed") })
		},
		diag: regexp.MustCompile(`not gofmt-stable|build constraint|gofmt`)},
}

// collidingDefRefs finds a definition that (directly) contains a reference to another definition whose name maps to
// the same Go identifier: the inner one is named while the outer declaration is still in progress.
func collidingDefRefs(root *sg.Schema) [][2]string {
	var out [][2]string
	for _, d := range root.Defs {
		for _, e := range root.Defs {
			if d.Name == e.Name || identKey(d.Name) != identKey(e.Name) {
				continue
			}
			// only the definition that holds the plain name (the first of its class in the generator's sorted
			// order) is affected: suffixed names are never handed out twice
			first := true
			for _, o := range root.Defs {
				if identKey(o.Name) == identKey(d.Name) && o.Name < d.Name {
					first = false
				}
			}
			if !first {
				continue
			}
			refs := false
			seen := map[*sg.Schema]bool{}
			var visit func(x *sg.Schema)
			visit = func(x *sg.Schema) {
				if x == nil || seen[x] {
					return
				}
				seen[x] = true
				x.Walk(func(y *sg.Schema) {
					if y.Ref != "" && y.Target != nil {
						if y.Target == e.S {
							refs = true
						}
						visit(y.Target)
					}
				})
			}
			visit(d.S)
			if refs {
				out = append(out, [2]string{d.Name, e.Name})
			}
		}
	}
	return out
}

func init() {
	genFindings = append(genFindings,
		genFinding{sig: "nested-collision-duplicate-type",
			trigger: func(root *sg.Schema, _ []string) bool { return len(collidingDefRefs(root)) > 0 },
			neutralise: func(root *sg.Schema) {
				for _, pr := range collidingDefRefs(root) {
					for i := range root.Defs {
						if root.Defs[i].Name == pr[1] {
							nn := pr[1] + "Renamed"
							root.Walk(func(x *sg.Schema) {
								for _, pre := range []string{"#/$defs/", "#/definitions/"} {
									if x.Ref == pre+pr[1] {
										x.Ref = pre + nn
									}
								}
							})
							root.Defs[i].Name = nn
						}
					}
				}
			},
			diag: regexp.MustCompile(`redeclared in this block|other declaration of`)},
		genFinding{sig: "anyof-ref-plain-def",
			trigger: func(root *sg.Schema, _ []string) bool {
				return anyNode(root, func(x *sg.Schema) bool {
					for _, b := range x.AnyOf {
						if b.Ref != "" {
							return true
						}
					}
					return false
				})
			},
			neutralise: func(root *sg.Schema) {
				root.Walk(func(x *sg.Schema) {
					for i, b := range x.AnyOf {
						if b.Ref != "" && b.Target != nil {
							x.AnyOf[i] = b.Target.Clone()
						}
					}
				})
			},
			diag: regexp.MustCompile(`_\d+\.Unmarshal(JSON|YAML) undefined`)},
		genFinding{sig: "anyof-primitive-member-undeclared",
			trigger: func(root *sg.Schema, _ []string) bool {
				return anyNode(root, anyOfMixesStructAndPrimitive)
			},
			neutralise: func(root *sg.Schema) {
				root.Walk(func(x *sg.Schema) {
					if anyOfMixesStructAndPrimitive(x) {
						var keep []*sg.Schema
						for _, m := range x.AnyOf {
							if !isPrimitiveMember(m) {
								keep = append(keep, m)
							}
						}
						x.AnyOf = keep
					}
				})
			},
			diag: regexp.MustCompile(`undefined: \w+_\d+\b`)},
		genFinding{sig: "int64-bound-overflow",
			trigger: func(root *sg.Schema, _ []string) bool { return anyNode(root, hasHugeIntBound) },
			neutralise: func(root *sg.Schema) {
				root.Walk(func(x *sg.Schema) {
					if !hasHugeIntBound(x) {
						return
					}
					cl := func(f float64) float64 { return math.Max(-4e18, math.Min(4e18, f)) }
					if x.Min != nil {
						x.Min = sg.Fp(cl(*x.Min))
					}
					if x.Max != nil {
						x.Max = sg.Fp(cl(*x.Max))
					}
					if f, ok := x.ExMin.(float64); ok {
						x.ExMin = cl(f)
					}
					if f, ok := x.ExMax.(float64); ok {
						x.ExMax = cl(f)
					}
					if x.HasDefault {
						x.HasDefault, x.Default = false, nil
					}
				})
			},
			diag: regexp.MustCompile(`overflows|constant .* overflow`)},
		genFinding{sig: "addprops-true-missing-imports",
			trigger: func(root *sg.Schema, _ []string) bool {
				return anyNode(root, func(x *sg.Schema) bool {
					return len(x.Props) > 0 && addPropsAnything(x)
				})
			},
			neutralise: func(root *sg.Schema) {
				root.Walk(func(x *sg.Schema) {
					if len(x.Props) > 0 && addPropsAnything(x) {
						x.AddPropsBool, x.AddProps = nil, nil
					}
				})
			},
			diag: regexp.MustCompile(`undefined: (raw|reflect|strings|mapstructure)`)},
		genFinding{sig: "ext-import-unused",
			trigger: func(root *sg.Schema, _ []string) bool {
				// only on enum schemas: next to a $ref the custom type is used (type X url.URL) and so is its import
				return anyNode(root, func(x *sg.Schema) bool { return x.Ext != nil && x.HasEnum })
			},
			neutralise: func(root *sg.Schema) {
				root.Walk(func(x *sg.Schema) {
					if x.Ext != nil && x.HasEnum {
						x.Ext = nil
					}
				})
			},
			diag: regexp.MustCompile(`imported and not used`)},
	)
}

func hasHugeIntBound(x *sg.Schema) bool {
	if !isIntType(x) {
		return false
	}
	huge := func(f float64) bool { return f >= 9223372036854775807 || f <= -9223372036854775808 }
	if x.Min != nil && huge(*x.Min) {
		return true
	}
	if x.Max != nil && huge(*x.Max) {
		return true
	}
	if f, ok := x.ExMin.(float64); ok && huge(f) {
		return true
	}
	if f, ok := x.ExMax.(float64); ok && huge(f) {
		return true
	}
	return false
}

var reBuildLine = regexp.MustCompile(`(?m)(^\s*)(\+build|go:build)\b.*`)

type c01Case struct {
	root *sg.Schema
	args []string
	prog *batch.Program
	tag  string
	sc   *sem.Case // a multi-file / multi-package invocation (the layout is the engine's)
}

func c01Diag(p *batch.Program) string {
	if p.Proc.Exit != 0 {
		return ""
	}
	if strings.Contains(string(p.Proc.Stderr), "could not be formatted automatically") {
		return "warning: could not be formatted automatically: " + firstLineOf(string(p.Proc.Stderr))
	}
	if p.Src == nil {
		return "exit 0 but no output file"
	}
	for _, sb := range p.Subs {
		// further packages of the same run: each of their files is judged like the main one
		if sb.Src == nil {
			return "exit 0 but no output file for package " + sb.Name
		}
		if sb.Report != nil && !sb.Report.OK() {
			return sb.Name + "/" + sb.Report.Summary()
		}
	}
	if p.Report != nil && !p.Report.OK() {
		return p.Report.Summary()
	}
	return ""
}

func firstLineOf(s string) string {
	for _, l := range strings.Split(s, "\n") {
		if strings.Contains(l, "could not be formatted") {
			if len(l) > 300 {
				l = l[:300]
			}
			return l
		}
	}
	return ""
}

func mkProgram(id string, root *sg.Schema, args []string) *batch.Program {
	return &batch.Program{ID: id, Files: []batch.File{{Path: "root.json", Data: jsonx.MarshalIndent(root.ToJSON())}}, Args: args, Inputs: []string{"root.json"}}
}

// attribute tries to explain a diagnostic by listed findings: all triggered, listed findings whose diagnostic
// pattern matches are neutralised together; the finding explains it only if the rerun is clean.
func attribute(ctx *Ctx, c *c01Case, diag string, seq *int) (string, string) {
	var trig []genFinding
	for _, f := range genFindings {
		if ctx.Known.Has(f.sig) && f.trigger(c.root, c.args) {
			trig = append(trig, f)
		}
	}
	if len(trig) == 0 {
		return "", diag
	}
	matches := false
	for _, f := range trig {
		if f.diag.MatchString(diag) {
			matches = true
		}
	}
	if !matches {
		return "", diag
	}
	n := c.root.Clone()
	var sigs []string
	for _, f := range trig {
		f.neutralise(n)
		sigs = append(sigs, f.sig)
	}
	*seq++
	p := mkProgram(fmt.Sprintf("n%06d", *seq), n, c.args)
	ctx.Env.Generate(p)
	ctx.Env.Check(p)
	if p.Proc.Exit != 0 {
		return "", diag + " (neutralised input is refused: " + firstFailed(p) + ")"
	}
	if d := c01Diag(p); d != "" {
		return "", "residual after neutralising " + strings.Join(sigs, "+") + ": " + d
	}
	// attribute to the findings whose pattern matched
	var hit []string
	for _, f := range trig {
		if f.diag.MatchString(diag) {
			hit = append(hit, f.sig)
		}
	}
	return strings.Join(hit, "+"), ""
}

// genFindingFor names the listed generator finding whose trigger is present in the schema / options and whose
// diagnostic pattern matches (the light form of attribute, without the neutralised rerun: C01 does that one).
func genFindingFor(ctx *Ctx, root *sg.Schema, args []string, diag string) string {
	for _, f := range genFindings {
		if ctx.Known.Has(f.sig) && f.trigger(root, args) && f.diag.MatchString(diag) {
			return f.sig
		}
	}
	return ""
}

// isPrimitiveMember: a composition member that is a string / integer / number / boolean schema (after references).
func isPrimitiveMember(m *sg.Schema) bool {
	r := m.Resolve()
	if r == nil || r.HasEnum {
		return false
	}
	t, _, ok := r.NonNullType()
	return ok && (t == "string" || t == "integer" || t == "number" || t == "boolean")
}

// anyOfMixesStructAndPrimitive: an anyOf that has a member which becomes a struct next to a primitive member - the
// generated unmarshaler names a type <Name>_<i> for EVERY member, primitive members get none (recorded finding
// anyof-primitive-member-undeclared; a TODO in the generator says as much).
func anyOfMixesStructAndPrimitive(x *sg.Schema) bool {
	if len(x.AnyOf) < 2 {
		return false
	}
	obj, prim := false, false
	for _, m := range x.AnyOf {
		r := m.Resolve()
		if r == nil {
			continue
		}
		if t, _, ok := r.NonNullType(); ok && t == "object" && (len(r.Props) > 0 || r.AddProps != nil) {
			obj = true
		}
		prim = prim || isPrimitiveMember(m)
	}
	return obj && prim
}

// addPropsAnything: additionalProperties whose values are interface{} - true, an untyped inline schema, or a
// reference to a definition without type and enum (the collect-the-rest block of recorded finding
// addprops-true-missing-imports).
func addPropsAnything(x *sg.Schema) bool {
	if x.AddPropsBool != nil && *x.AddPropsBool {
		return true
	}
	a := x.AddProps
	if a != nil && a.Ref != "" {
		a = a.Resolve()
	}
	return a != nil && a.Ref == "" && len(a.Types) == 0 && !a.HasEnum && len(a.AllOf) == 0 && len(a.AnyOf) == 0
}

func firstFailed(p *batch.Program) string {
	for _, l := range strings.Split(string(p.Proc.Stderr), "\n") {
		if strings.Contains(l, "Failed:") {
			return l
		}
	}
	return strings.TrimSpace(string(p.Proc.Stderr))
}

func c01(ctx *Ctx) (*Outcome, error) {
	n := ctx.N(900, 20000)
	var cases []*c01Case
	// clean part
	for i := 0; i < n; i++ {
		r := sg.NewRng(ctx.Seed, fmt.Sprintf("C01-case-%d", i))
		o := sg.Opts{MaxDepth: 3, Descs: true, DescPool: HostileTexts, Titles: c01Titles, IntLimits: true, PNullable: 0.25, PDefault: 0.35, PAddProps: 0.3, NullType: true, RootKinds: true, ComposeDefaults: true}
		if r.Chance(0.35) {
			o.Names = c01Names
		} else if r.Chance(0.15) {
			o.Names = InternalNames
		}
		g := sg.NewGen(r, o)
		root := g.Root()
		if i%25 == 11 {
			rc := refDefaultCase(i / 25)
			cases = append(cases, &c01Case{root: rc.Root, args: RandArgs(r, rc.Root), tag: "clean"})
			continue
		}
		if i%25 == 12 {
			sc := stringDefaultCase(i / 25)
			cases = append(cases, &c01Case{root: sc.Root, args: RandArgs(r, sc.Root), tag: "clean"})
			continue
		}
		if i%25 == 13 {
			oc := objectDefaultCase(i / 25)
			cases = append(cases, &c01Case{root: oc.Root, args: RandArgs(r, oc.Root), tag: "clean"})
			continue
		}
		if i%25 == 10 {
			sc := suffixLookalikeCase(i / 25)
			cases = append(cases, &c01Case{root: sc.Root, args: without(RandArgs(r, sc.Root), "--capitalization", true), tag: "clean"})
			continue
		}
		if i%25 == 9 {
			ic := identifierCollisionCase(i / 25)
			cases = append(cases, &c01Case{root: ic.Root, args: RandArgs(r, ic.Root), tag: "clean"})
			continue
		}
		if i%25 == 8 {
			// three names that normalise to one identifier, also with the second referring to the third
			tc := collisionTripleCase(i/25*2, r)
			cases = append(cases, &c01Case{root: tc.Root, args: RandArgs(r, tc.Root), tag: "clean"})
			continue
		}
		if i%25 == 7 {
			// definitions / properties / root type named after identifiers of the generated code
			ic := internalNameCase(i/25, r)
			cases = append(cases, &c01Case{root: ic.Root, args: append(RandArgs(r, ic.Root), ic.Args...), tag: "clean"})
			continue
		}
		if r.Chance(0.3) {
			root.ID = sg.PickOf(r, []string{"https://example.com/root", "urn:x:y", "root.json", "http://example.com/a/b.json#"})
			if r.Chance(0.3) {
				root.IDKey = "id"
			}
		}
		if r.Chance(0.3) {
			root.Title = sg.PickOf(r, c01Titles)
		}
		if r.Chance(0.3) {
			root.Desc = sg.PickOf(r, HostileTexts)
		}
		if r.Chance(0.25) {
			addExtension(r, root)
		}
		cases = append(cases, &c01Case{root: root, args: RandArgs(r, root), tag: "clean"})
	}
	// enumerated: root and library with same-named definitions, one package / separate packages of one run
	for i := 0; i < 40; i++ {
		xc := crossPackageCase(i)
		cases = append(cases, &c01Case{root: xc.Root, args: xc.Args, tag: "clean", sc: xc})
	}
	// enumerated: names led by every character class (C14's pool) as properties, definitions and titles
	for lo := 0; lo < len(c14NamesClean); lo += 8 {
		hi := lo + 8
		if hi > len(c14NamesClean) {
			hi = len(c14NamesClean)
		}
		root := &sg.Schema{Types: []string{"object"}}
		for k, n := range c14NamesClean[lo:hi] {
			d := &sg.Schema{Types: []string{"object"}, Title: n, Props: []sg.Prop{{Name: n, S: &sg.Schema{Types: []string{"integer"}, Min: sg.Fp(1)}}}, Required: []string{n}}
			root.Defs = append(root.Defs, sg.Prop{Name: n, S: d})
			root.Props = append(root.Props, sg.Prop{Name: n, S: &sg.Schema{Types: []string{"string"}, MinLen: 1}})
			_ = k // (the definitions are generated by the definitions pass; no reference spells these names)
		}
		for _, args := range [][]string{nil, {"--struct-name-from-title"}, {"--capitalization", "ID,URL"}} {
			cases = append(cases, &c01Case{root: root, args: args, tag: "clean"})
		}
	}
	// the semantic checks' strata (single- and multi-file invocations with the options they come with)
	for _, sc := range strataForC01(ctx) {
		cases = append(cases, &c01Case{root: sc.Root, args: sc.Args, tag: "clean", sc: sc})
	}
	// enumerated: three contenders of every combination of kinds for one Go type name
	for i := 0; i < 128; i++ {
		kc := collisionKindsCase(i)
		cases = append(cases, &c01Case{root: kc.Root, args: [][]string{nil, {"--only-models"}, {"--tags", "json"}, {"--struct-name-from-title"}}[i%4], tag: "clean"})
	}
	// enumerated: a custom type from every package the generated code may import itself (and from foreign ones) x the
	// options that decide which of those imports the generator adds on its own
	for _, e := range [][2]string{{"yaml.Node", "gopkg.in/yaml.v3"}, {"json.RawMessage", "encoding/json"}, {"reflect.Kind", "reflect"}, {"regexp.Regexp", "regexp"}, {"strings.Builder", "strings"},
		{"time.Time", "time"}, {"time.Duration", "time"}, {"mapstructure.Metadata", "github.com/go-viper/mapstructure/v2"}, {"fmt.Stringer", "fmt"}, {"big.Int", "math/big"}, {"url.URL", "net/url"}, {"netip.Addr", "net/netip"}, {"math.Mode", ""}} {
		if e[1] == "" {
			continue
		}
		for _, args := range [][]string{nil, {"--extra-imports"}, {"--only-models"}, {"--extra-imports", "--only-models"}, {"--extra-imports", "--min-sized-ints"}} {
			ext := jsonx.Obj{{K: "type", V: e[0]}, {K: "imports", V: []any{e[1]}}}
			root := &sg.Schema{Types: []string{"object"}, Props: []sg.Prop{
				{Name: "custom", S: &sg.Schema{Types: []string{"string"}, Ext: ext}},
				{Name: "name", S: &sg.Schema{Types: []string{"string"}, MinLen: 1, Pattern: "^[a-z]+$"}},
				{Name: "when", S: &sg.Schema{Types: []string{"string"}, Format: "date-time"}},
				{Name: "addr", S: &sg.Schema{Types: []string{"string", "null"}, Format: "ipv4"}},
				{Name: "ratio", S: &sg.Schema{Types: []string{"number"}, MultipleOf: sg.Fp(0.5)}},
				{Name: "kind", S: &sg.Schema{Types: []string{"string"}, HasEnum: true, Enum: []any{"a", "b"}}},
				{Name: "bag", S: &sg.Schema{Types: []string{"object"}, Props: []sg.Prop{{Name: "k", S: &sg.Schema{Types: []string{"string"}}}}, AddProps: &sg.Schema{Types: []string{"integer"}}}},
				{Name: "customList", S: &sg.Schema{Types: []string{"array"}, Items: &sg.Schema{Types: []string{"object"}, Ext: ext}}},
			}, Required: []string{"name"}}
			cases = append(cases, &c01Case{root: root, args: args, tag: "clean"})
		}
	}
	// hazard part: recorded triggers embedded in random schemas
	nh := ctx.N(120, 2000)
	for i := 0; i < nh; i++ {
		r := sg.NewRng(ctx.Seed, fmt.Sprintf("C01-hazard-%d", i))
		g := sg.NewGen(r, sg.Opts{MaxDepth: 2, Hazard: true, Descs: true, DescPool: append(append([]string{}, HostileTexts...), HostileTextsHazard...), PDefault: 0.4, PNullable: 0.3, AddPropsTrue: true, NullType: true, RootKinds: true})
		root := g.Root()
		switch i % 4 {
		case 0:
			root.Props = append(root.Props, sg.Prop{Name: "hz", S: &sg.Schema{Types: []string{"integer"}, MultipleOf: sg.Fp(0.5)}})
		case 1:
			root.Defs = append(root.Defs, sg.Prop{Name: "HzNum", S: &sg.Schema{Types: []string{"number"}, MultipleOf: sg.Fp(0.5)}})
		case 2:
			root.Props = append(root.Props, sg.Prop{Name: "hz", S: &sg.Schema{Types: []string{"string", "null"}, Default: "d", HasDefault: true}})
		case 3:
			root.Props = append(root.Props, sg.Prop{Name: "hz", S: &sg.Schema{Types: []string{"string"}, Desc: sg.PickOf(r, HostileTextsHazard)}})
		}
		switch (i / 4) % 4 {
		case 0:
			root.Props = append(root.Props, sg.Prop{Name: "hz2", S: &sg.Schema{Types: []string{"string"}, HasEnum: true, Enum: []any{"a", "b"},
				Ext: jsonx.Obj{{K: "type", V: "time.Duration"}, {K: "imports", V: []any{"time"}}}}})
		case 1:
			root.Props = append(root.Props, sg.Prop{Name: "hz2", S: &sg.Schema{Types: []string{"integer"}, Min: sg.Fp(0), Max: sg.Fp(18446744073709551615)}})
		case 3:
			// recorded finding nested-collision-duplicate-type: a definition refers to another one of the same Go name
			inner := &sg.Schema{Types: []string{"object"}, Props: []sg.Prop{{Name: "n", S: &sg.Schema{Types: []string{"integer"}}}}}
			outer := &sg.Schema{Types: []string{"object"}, Props: []sg.Prop{{Name: "inner", S: &sg.Schema{Ref: "#/$defs/hz_coll", Target: inner}}}}
			root.Defs = append(root.Defs, sg.Prop{Name: "hzColl", S: outer}, sg.Prop{Name: "hz_coll", S: inner})
			root.Props = append(root.Props, sg.Prop{Name: "hz2", S: &sg.Schema{Ref: "#/$defs/hzColl", Target: outer}})
		case 2:
			d := &sg.Schema{Types: []string{"object"}, Props: []sg.Prop{{Name: "plain", S: &sg.Schema{Types: []string{"integer"}}}}}
			root.Defs = append(root.Defs, sg.Prop{Name: "HzPlain", S: d})
			root.Props = append(root.Props, sg.Prop{Name: "hz2", S: &sg.Schema{AnyOf: []*sg.Schema{{Ref: "#/$defs/HzPlain", Target: d}, {Types: []string{"object"}, Props: []sg.Prop{{Name: "other", S: &sg.Schema{Types: []string{"string"}}}}}}}})
		}
		cases = append(cases, &c01Case{root: root, args: RandArgs(r, root), tag: "hazard"})
	}
	var progs []*batch.Program
	for i, c := range cases {
		if c.sc != nil {
			c.prog = sem.NewProgram(ctx.Env, c.sc, fmt.Sprintf("p%06d", i))
		} else {
			c.prog = mkProgram(fmt.Sprintf("p%06d", i), c.root, c.args)
		}
		c.prog.Meta = c
		progs = append(progs, c.prog)
	}
	refused := map[string]int{}
	knownHits := map[string]int{}
	sigs := map[string]bool{}
	var viols []Viol
	vseen := map[string]bool{}
	var samples []any
	checked, okCount := 0, 0
	seq := 0
	addV := func(c *c01Case, kind, msg string) {
		key := kind + "|" + classifyDiag(msg)
		if vseen[key] || len(viols) >= 15 {
			return
		}
		vseen[key] = true
		b, _ := json.MarshalIndent(map[string]any{"property": "C01", "seed": ctx.Seed, "kind": kind, "diagnostic": msg, "args": c.args,
			"schema": json.RawMessage(jsonx.Marshal(c.root.ToJSON())), "stderr": string(c.prog.Proc.Stderr), "emitted": string(c.prog.Src)}, "", " ")
		p := filepath.Join(evid.ReplayDir(), fmt.Sprintf("C01-%d.json", len(viols)))
		_ = os.WriteFile(p, b, 0o644)
		viols = append(viols, Viol{Replay: p, Summary: fmt.Sprintf("%s: %s\n args=%v\n schema=%s", kind, trunc(msg, 300), c.args, trunc(string(jsonx.Marshal(c.root.ToJSON())), 700))})
	}
	var okProgs []*batch.Program
	okLimit := ctx.N(300, 1500)
	const chunk = 1500
	for ci, c := range cases {
		if ci%chunk == 0 {
			// generate and check chunk by chunk; the programs of finished chunks are released (memory)
			hi := ci + chunk
			if hi > len(progs) {
				hi = len(progs)
			}
			ctx.Env.GenerateAll(progs[ci:hi])
			if ci > 0 {
				for _, old := range cases[ci-chunk : ci] {
					keep := false
					for _, k := range okProgs {
						keep = keep || k == old.prog
					}
					if !keep {
						_ = os.RemoveAll(old.prog.Dir)
						old.prog.Src, old.prog.Report = nil, nil
					}
				}
			}
		}
		p := c.prog
		if p.Proc.TimedOut {
			continue
		}
		if p.Proc.Exit != 0 {
			refused[classifyDiag(firstFailed(p))]++
			continue
		}
		checked++
		if c.sc != nil {
			sigs[c.sc.Sig+"|"+strings.Join(c.args, " ")] = true // (reference cycles through files: no structural signature)
		} else {
			sigs[c.root.Sig()+"|"+strings.Join(c.args, " ")] = true
		}
		d := c01Diag(p)
		if d == "" {
			okCount++
			if len(okProgs) < okLimit {
				okProgs = append(okProgs, p)
			}
			if len(samples) < 5 && checked%173 == 7 {
				samples = append(samples, map[string]any{"schema": json.RawMessage(jsonx.Marshal(c.root.ToJSON())), "args": c.args, "emitted_bytes": len(p.Src), "verdict": "parse+gofmt-fixpoint+go/types ok"})
			}
			continue
		}
		if sig, resid := attribute(ctx, c, d, &seq); sig != "" {
			knownHits[sig]++
		} else {
			addV(c, c.tag, resid)
		}
	}
	// cross-validation with the real compiler on a sample of the clean programs
	built, excluded := 0, 0

	for lo := 0; lo < len(okProgs); lo += 300 {
		hi := lo + 300
		if hi > len(okProgs) {
			hi = len(okProgs)
		}
		drv, err := ctx.Env.BuildDriver(okProgs[lo:hi], false)
		if err != nil {
			if strings.Contains(err.Error(), "no usable program") {
				continue
			}
			return nil, err
		}
		built += hi - lo - len(drv.Excluded)
		for id, msg := range drv.Excluded {
			excluded++
			for _, c := range cases {
				if c.prog.ID == id {
					addV(c, "go-build", "go build rejects a file that go/types accepted: "+msg)
				}
			}
		}
		_ = os.RemoveAll(drv.Dir)
	}
	o := &Outcome{Level: "exploration", Violations: viols}
	o.Coverage = map[string]any{
		"evaluations":            checked,
		"distinct_nontrivial":    len(sigs),
		"rule":                   "random schemas over the full supported feature space with hostile descriptions/titles/names, goJSONSchema extensions and random option sets; every exit-0 run's emitted bytes go through: stderr fallback-warning monitor, go/parser, gofmt fixpoint, go/types against real export data (unused/missing imports, undeclared/duplicate identifiers, ill-typed literals, constant overflow, division by zero), build-constraint scan; a sample is also compiled by the real go build; distinct_nontrivial = distinct (schema signature, option set) pairs checked",
		"samples":                samples,
		"cli_runs":               len(cases) + seq,
		"emitted_files_ok":       okCount,
		"refused_by_generator":   refused,
		"known_finding_hits":     knownHits,
		"compiled_with_go_build": built,
		"go_build_disagreements": excluded,
		"hazard_programs":        nh,
	}
	if len(samples) == 0 {
		o.Coverage["samples"] = []any{"none"}
	}
	o.Assumptions = []string{"type-checking and gofmt are those of the installed Go toolchain (the same one that builds the CLI)", "generator refusals (non-zero exit) are not C01 events; they are counted and belong to C18"}
	var ks []string
	for s := range knownHits {
		ks = append(ks, s)
	}
	sort.Strings(ks)
	for _, s := range ks {
		for _, part := range strings.Split(s, "+") {
			if e, ok := ctx.Known.Get(part); ok {
				line := fmt.Sprintf("sig=%s %s", e.Sig, e.Text)
				dup := false
				for _, l := range o.KnownLines {
					dup = dup || l == line
				}
				if !dup {
					o.KnownLines = append(o.KnownLines, line)
				}
			}
		}
	}
	if checked < ctx.N(500, 10000) {
		o.Inconclusive = fmt.Sprintf("only %d successful generator runs observed; refusals: %v", checked, refused)
	}
	return o, nil
}

func classifyDiag(msg string) string {
	msg = regexp.MustCompile(`gen\.go:\d+:\d+: `).ReplaceAllString(msg, "")
	msg = regexp.MustCompile(`"[^"]*"`).ReplaceAllString(msg, `""`)
	msg = regexp.MustCompile(`[A-Z][A-Za-z0-9_]*`).ReplaceAllString(msg, "X")
	msg = regexp.MustCompile(`\d+`).ReplaceAllString(msg, "N")
	if len(msg) > 90 {
		msg = msg[:90]
	}
	return msg
}

func addExtension(r *sg.Rng, root *sg.Schema) {
	if len(root.Props) == 0 {
		return
	}
	p := root.Props[r.IntN(len(root.Props))].S
	if p.Ref != "" && !p.HasDefault && r.Chance(0.7) {
		// a custom type next to a reference (property position): the custom type wins, its import is used
		p.Ext = jsonx.Obj{{K: "type", V: "url.URL"}, {K: "imports", V: []any{"net/url"}}}
		return
	}
	if p.Ref != "" || p.HasEnum || p.HasDefault {
		return
	}
	// custom types from packages the generated code imports itself (with and without an alias of its own)
	own := [][2]string{{"yaml.Node", "gopkg.in/yaml.v3"}, {"json.RawMessage", "encoding/json"}, {"reflect.Kind", "reflect"}, {"regexp.Regexp", "regexp"},
		{"strings.Builder", "strings"}, {"time.Time", "time"}, {"mapstructure.Metadata", "github.com/go-viper/mapstructure/v2"}, {"fmt.Stringer", "fmt"}, {"errors.ErrUnsupported", ""}}
	switch r.IntN(5) {
	case 3, 4:
		o := own[r.IntN(len(own)-1)]
		p.Ext = jsonx.Obj{{K: "type", V: o[0]}, {K: "imports", V: []any{o[1]}}}
		if r.Chance(0.3) {
			p.Ext = append(p.Ext, jsonx.KV{K: "nillable", V: true})
		}
	case 0:
		p.Ext = jsonx.Obj{{K: "type", V: "time.Duration"}, {K: "imports", V: []any{"time"}}}
	case 1:
		p.Ext = jsonx.Obj{{K: "identifier", V: "CustomIdent"}}
	case 2:
		p.Ext = jsonx.Obj{{K: "type", V: "big.Int"}, {K: "imports", V: []any{"math/big"}}, {K: "nillable", V: false}}
	}
	_ = math.Abs
}
