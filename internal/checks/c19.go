package checks

import (
	"bufio"
	"bytes"
	"encoding/json"
	"fmt"
	"os"
	"path/filepath"
	"sort"
	"strings"
	"verif/internal/docgen"
	"verif/internal/evid"
	"verif/internal/jsonx"
	"verif/internal/stage"

	"verif/internal/sem"
	"verif/internal/sg"
)

func init() { Register("C19", c19) }

func c19(ctx *Ctx) (*Outcome, error) {
	n := ctx.N(260, 4000)
	var cases []*sem.Case
	for i := 0; i < n; i++ {
		r := sg.NewRng(ctx.Seed, fmt.Sprintf("C19-case-%d", i))
		g := sg.NewGen(r, sg.Opts{MaxDepth: 3, PNullable: 0.3, PDefault: 0.3, PAddProps: 0.35, AnyBranch: true, AddPropsTrue: true, NullType: true, RootKinds: true, W: map[string]float64{"compose": 2.5, "enum": 3, "map": 1.5}})
		root := g.Root()
		c := &sem.Case{Root: root, Sig: root.Sig()}
		if i%2 == 0 {
			c.Args = []string{"--extra-imports"}
		}
		if i%5 == 0 {
			c.Args = append(c.Args, "--min-sized-ints")
		}
		if i%3 == 1 {
			// tag families: what the decoders bind by changes, totality does not
			c.Args = append(c.Args, "--tags", sg.PickOf(r, []string{"json,yaml", "yaml", "json", "yaml,json,custom", "mapstructure,yaml", "json,mapstructure"}))
		}
		cases = append(cases, c)
	}
	for i := 0; i < ctx.N(32, 160); i++ {
		c := internalNameCase(i, sg.NewRng(ctx.Seed, fmt.Sprintf("C19-internal-%d", i)))
		if i%2 == 0 {
			c.Args = append(c.Args, "--extra-imports")
		}
		cases = append(cases, c)
	}
	cases = append(cases, c19Shapes(ctx)...)
	for i := 0; i < 22; i++ {
		// keywords the generator does not implement today, next to ordinary objects, maps and arrays
		c := ignoredKeywordCase(i)
		if i%2 == 0 {
			c.Args = []string{"--extra-imports"}
		}
		cases = append(cases, c)
	}
	for i := 0; i < 6; i++ {
		cases = append(cases, ecmaPatternCase(i))
	}
	for i := 0; i < 12; i++ {
		// min/maxProperties on objects at every kind of position; null at every position is added by the engine
		c := propertyCountCase(i)
		if i%2 == 1 {
			c.Args = nil
		}
		cases = append(cases, c)
	}
	for i := 0; i < 5; i++ {
		// format-typed strings fed texts next to the canonical forms (empty, truncated, with zone suffix ...)
		c := lenientFormatCase(i)
		if i%2 == 1 {
			c.Args = nil
		}
		cases = append(cases, c)
	}
	run := func(race bool, cs []*sem.Case) (*sem.Report, error) {
		return sem.RunTotal(&sem.TotalConfig{Prop: "C19", Tier: ctx.Tier, Seed: ctx.Seed, Cases: cs, Env: ctx.Env, Race: race, PerProg: ctx.N(700, 1500)})
	}
	rep, err := run(false, cases)
	if err != nil {
		return nil, err
	}
	// the same workload in parallel goroutines under the race detector (also gives checkptr)
	nr := ctx.N(40, 600)
	rr, err := run(true, cases[:nr])
	if err != nil {
		return nil, err
	}
	rep.RaceReports += rr.RaceReports
	rep.RaceText = append(rep.RaceText, rr.RaceText...)
	rep.Violations = append(rep.Violations, rr.Violations...)
	o := FromSem(ctx, rep, "for every generated type that has a generated UnmarshalJSON/UnmarshalYAML (root and nested/definition/enum/anyOf-branch types): valid documents, single-fault mutants, truncations and byte mutations of valid documents, every top-level JSON kind, 10^4-deep nesting, huge numbers, invalid UTF-8, malformed and YAML-specific inputs; through json.Unmarshal, the method called directly, and yaml.Unmarshal; with destination = zero value and = value decoded from another valid document; oracle: no panic/fatal event, and after an error reflect.DeepEqual(destination, independently decoded snapshot); a share re-run with 8 goroutines under -race",
		8000, []string{"a BEGIN without END in the event log is attributed to that command (child restarted)", "only types with a generated method are judged for 'unchanged on error' (plain encoding/json may fill fields before failing)"})
	o.Coverage["race_detector_executions"] = rr.Decided
	fcalls, fviols, ferr := formatTypeMonitor(ctx)
	if ferr != nil {
		return nil, ferr
	}
	o.Coverage["format_types_called_directly"] = fcalls
	o.Violations = append(o.Violations, fviols...)
	return o, nil
}

// c19Shapes: small schemas in which every kind of declaration that gets a generated unmarshaler occurs on its own
// (so that the per-program budget reaches every type x prior x input combination): anyOf elements of map / array /
// primitive / null / object type, typed additionalProperties next to properties, enums, nested and referenced.
func c19Shapes(ctx *Ctx) []*sem.Case {
	branch := map[string]func() *sg.Schema{
		"map-int": func() *sg.Schema {
			return &sg.Schema{Types: []string{"object"}, AddProps: &sg.Schema{Types: []string{"integer"}}}
		},
		"map-string": func() *sg.Schema {
			return &sg.Schema{Types: []string{"object"}, AddProps: &sg.Schema{Types: []string{"string"}, MinLen: 1}}
		},
		"map-object": func() *sg.Schema {
			return &sg.Schema{Types: []string{"object"}, AddProps: &sg.Schema{Types: []string{"object"}, Props: []sg.Prop{{Name: "q", S: &sg.Schema{Types: []string{"integer"}}}}, Required: []string{"q"}}}
		},
		"array-int": func() *sg.Schema {
			return &sg.Schema{Types: []string{"array"}, Items: &sg.Schema{Types: []string{"integer"}}, MinItems: 1}
		},
		"string":  func() *sg.Schema { return &sg.Schema{Types: []string{"string"}, MinLen: 2} },
		"integer": func() *sg.Schema { return &sg.Schema{Types: []string{"integer"}, Min: sg.Fp(1)} },
		"null":    func() *sg.Schema { return &sg.Schema{Types: []string{"null"}} },
		"object": func() *sg.Schema {
			return &sg.Schema{Types: []string{"object"}, Props: []sg.Prop{{Name: "name", S: &sg.Schema{Types: []string{"string"}, MinLen: 1}}}, Required: []string{"name"}}
		},
		"object-addprops": func() *sg.Schema {
			return &sg.Schema{Types: []string{"object"}, Props: []sg.Prop{{Name: "name", S: &sg.Schema{Types: []string{"string"}}}}, AddProps: &sg.Schema{Types: []string{"integer"}}}
		},
		"enum": func() *sg.Schema { return &sg.Schema{Types: []string{"string"}, HasEnum: true, Enum: []any{"a", "b"}} },
	}
	var names []string
	for k := range branch {
		names = append(names, k)
	}
	sort.Strings(names)
	var out []*sem.Case
	for ai, a := range names {
		for bi, b := range names {
			if bi < ai || (ai+bi)%ctx.N(3, 1) != 0 {
				continue
			}
			for pos := 0; pos < 3; pos++ {
				comp := &sg.Schema{AnyOf: []*sg.Schema{branch[a](), branch[b]()}}
				root := &sg.Schema{Types: []string{"object"}}
				switch pos {
				case 0:
					root.Props = []sg.Prop{{Name: "p", S: comp}}
				case 1:
					root.Defs = []sg.Prop{{Name: "Comp", S: comp}}
					root.Props = []sg.Prop{{Name: "p", S: &sg.Schema{Ref: "#/$defs/Comp", Target: comp}}, {Name: "list", S: &sg.Schema{Types: []string{"array"}, Items: &sg.Schema{Ref: "#/$defs/Comp", Target: comp}}}}
				case 2:
					root.Props = []sg.Prop{{Name: "outer", S: &sg.Schema{Types: []string{"object"}, Props: []sg.Prop{{Name: "p", S: comp}}, Required: []string{"p"}}}}
				}
				c := &sem.Case{Root: root, Sig: fmt.Sprintf("shape/%s+%s@%d", a, b, pos)}
				if (ai+bi+pos)%2 == 0 {
					c.Args = []string{"--extra-imports"}
				}
				if (ai+bi+pos)%4 == 0 {
					c.Args = append(c.Args, "--tags", []string{"json,yaml", "yaml"}[(ai+bi)%2])
				}
				out = append(out, c)
			}
		}
	}
	// arrays nested 1..4 deep with limits at some level, and ragged documents (rows of different lengths, empty rows,
	// nulls): the generated loops must index each level by its own length
	for depth := 1; depth <= 4; depth++ {
		for lim := 0; lim < 3; lim++ {
			var s *sg.Schema = &sg.Schema{Types: []string{"integer"}, Min: sg.Fp(0)}
			for d := depth; d >= 1; d-- {
				a := &sg.Schema{Types: []string{"array"}, Items: s}
				if (lim == 0 && d == 1) || (lim == 1 && d == depth) || lim == 2 {
					a.MaxItems = 4
					if d%2 == 0 {
						a.MinItems = 1
					}
				}
				s = a
			}
			root := &sg.Schema{Types: []string{"object"}, Props: []sg.Prop{{Name: "cells", S: s}, {Name: "opt", S: &sg.Schema{Types: []string{"string"}}}}, Required: []string{"cells"}}
			c := &sem.Case{Root: root, Sig: fmt.Sprintf("shape/array-depth-%d-limits-%d", depth, lim)}
			if (depth+lim)%2 == 0 {
				c.Args = []string{"--extra-imports"}
			}
			for _, text := range []string{`[[[1]],[[2]]]`, `[[],[[1],[2]]]`, `[[[1],[2],[3]],[[4]]]`, `[[[1,2,3]],[],[[]]]`, `[[1],[2,3],[]]`, `[1,2]`, `[[[[1]],[[2],[3]]],[[[4]]]]`, `[[[[]]],[]]`,
				`[null,[[1]]]`, `[[null],[[1],[2]]]`, `[[[1]],null,[[2],[3]]]`, `[]`, `[[]]`, `[[[]]]`, `[[[1]],[[2]],[[3]],[[4]],[[5]]]`} {
				v, err := jsonx.Parse([]byte(`{"cells":` + text + `,"opt":"x"}`))
				if err == nil {
					c.Docs = append(c.Docs, docgen.Doc{V: v, Class: "ragged", Label: text})
				}
			}
			out = append(out, c)
		}
	}
	// declared properties next to additionalProperties of every kind (true, {}, multi-type, typed, object) under every
	// tag family, with and without the YAML methods
	for ai, ap := range []func(s *sg.Schema){
		func(s *sg.Schema) { s.AddPropsBool = sg.Bp(true) },
		func(s *sg.Schema) { s.AddProps = &sg.Schema{} },
		func(s *sg.Schema) { s.AddProps = &sg.Schema{Types: []string{"integer"}} },
		func(s *sg.Schema) {
			s.AddProps = &sg.Schema{Types: []string{"object"}, Props: []sg.Prop{{Name: "q", S: &sg.Schema{Types: []string{"integer"}}}}, Required: []string{"q"}}
		},
	} {
		for ti, tags := range []string{"", "json,yaml", "yaml", "json", "yaml,mapstructure", "json,yaml,custom"} {
			obj := &sg.Schema{Types: []string{"object"}, Props: []sg.Prop{{Name: "name", S: &sg.Schema{Types: []string{"string"}, MinLen: 1}}, {Name: "n", S: &sg.Schema{Types: []string{"integer"}}}}, Required: []string{"name"}}
			ap(obj)
			// the sibling with typed additional properties brings the imports the collect-the-rest block needs (recorded
			// finding addprops-true-missing-imports: alone, the untyped variants do not build)
			labels := &sg.Schema{Types: []string{"object"}, Props: []sg.Prop{{Name: "owner", S: &sg.Schema{Types: []string{"string"}}}}, AddProps: &sg.Schema{Types: []string{"string"}}}
			root := &sg.Schema{Types: []string{"object"}, Props: []sg.Prop{{Name: "settings", S: obj}, {Name: "label", S: &sg.Schema{Types: []string{"string"}}}, {Name: "labels", S: labels}}}
			ap(root)
			c := &sem.Case{Root: root, Sig: fmt.Sprintf("shape/addprops-%d-tags-%d", ai, ti)}
			if (ai+ti)%3 != 2 {
				c.Args = []string{"--extra-imports"}
			}
			if tags != "" {
				c.Args = append(c.Args, "--tags", tags)
			}
			for _, text := range []string{`{"settings":{"name":"a","extra":1,"more":{"k":[1]}},"label":"l","top":true}`, `{"settings":{"name":"a"}}`, `{"settings":{"extra":1}}`, `{"settings":{"name":"a","n":"x","e":null}}`, `{"x":{"q":1},"y":{"q":"no"}}`, `{}`,
				`{"settings":{"name":"a","e1":{"q":2},"e2":"s","e3":5}}`} {
				if v, err := jsonx.Parse([]byte(text)); err == nil {
					c.Docs = append(c.Docs, docgen.Doc{V: v, Class: "ragged", Label: text})
				}
			}
			out = append(out, c)
		}
	}
	// arrays whose elements may be anything (no items / empty items / several types / typed scalars), next to the array
	// keywords the generator ignores today (uniqueItems, contains, additionalItems): documents with elements of every
	// JSON kind, duplicates among them - containers are not comparable, nothing may assume they are
	itemKinds := []struct {
		name string
		mk   func() *sg.Schema
	}{
		{"none", func() *sg.Schema { return nil }},
		{"empty", func() *sg.Schema { return &sg.Schema{} }},
		{"multi", func() *sg.Schema { return &sg.Schema{Types: []string{"string", "object", "array"}} }},
		{"string", func() *sg.Schema { return &sg.Schema{Types: []string{"string"}} }},
		{"number", func() *sg.Schema { return &sg.Schema{Types: []string{"number"}} }},
	}
	kwSets := []jsonx.Obj{nil, {{K: "uniqueItems", V: true}}, {{K: "uniqueItems", V: true}, {K: "additionalItems", V: false}},
		{{K: "uniqueItems", V: true}, {K: "contains", V: jsonx.Obj{{K: "type", V: "object"}}}}, {{K: "uniqueItems", V: false}, {K: "minContains", V: jsonx.N(1)}}}
	for ki, ik := range itemKinds {
		for wi, kw := range kwSets {
			mk := func(lim bool) *sg.Schema {
				a := &sg.Schema{Types: []string{"array"}, Items: ik.mk(), Extra: kw}
				if lim {
					a.MaxItems = 6
				}
				return a
			}
			named := mk(true)
			root := &sg.Schema{Types: []string{"object"}, Defs: []sg.Prop{{Name: "Bag", S: named}},
				Props: []sg.Prop{{Name: "values", S: mk(false)}, {Name: "limited", S: mk(true)}, {Name: "nullable", S: func() *sg.Schema { a := mk(false); a.Types = []string{"array", "null"}; return a }()},
					{Name: "bag", S: &sg.Schema{Ref: "#/$defs/Bag", Target: named}}, {Name: "name", S: &sg.Schema{Types: []string{"string"}}}}, Required: []string{"name"}}
			c := &sem.Case{Root: root, Sig: fmt.Sprintf("shape/bag-%s-kw%d", ik.name, wi)}
			if (ki+wi)%2 == 0 {
				c.Args = []string{"--extra-imports"}
			}
			if (ki+wi)%3 == 0 {
				c.Args = append(c.Args, "--tags", []string{"json,yaml", "yaml", "json"}[(ki+wi)/3%3])
			}
			for _, text := range []string{`[{"k":1}]`, `[[1,2]]`, `[{"k":1},{"k":1}]`, `[[],[]]`, `["a","a"]`, `[1,1.0,1]`, `[null,null]`, `[{"k":[1,{"z":null}]},"a",3,true,null,[[]]]`, `[true,false,true]`, `[]`,
				`[1e400]`, `["a",{"a":"a"},["a"]]`, `[{}]`, `[{},{}]`} {
				for _, key := range []string{"values", "limited", "nullable", "bag"} {
					v, err := jsonx.Parse([]byte(`{"name":"n","` + key + `":` + text + `}`))
					if err == nil {
						c.Docs = append(c.Docs, docgen.Doc{V: v, Class: "ragged", Label: key + "=" + text})
					}
				}
			}
			out = append(out, c)
		}
	}
	return out
}

// formatTypeMonitor calls the exported format types of pkg/types directly - each as a decoding destination of its own
// (the situation of a date field inside a struct that has no generated unmarshaler) - with canonical, near-canonical
// and hostile texts, through json.Unmarshal, yaml.Unmarshal and the method itself, with a zero and a non-zero prior
// value: no panic, and after an error the destination equals the prior value.
func formatTypeMonitor(ctx *Ctx) (calls int, viols []Viol, err error) {
	bin, err := ctx.Env.BuildInDrv(false)
	if err != nil {
		return 0, nil, err
	}
	type req struct {
		Type  string `json:"type"`
		Via   string `json:"via"`
		Text  string `json:"text"`
		Prior bool   `json:"prior"`
	}
	dates := []string{"2020-01-02", "2020-13-45", "not-a-date", "", "2020-01-02T25:61:00Z", "2020-01-02Tnoon", "2020-01-02T10:00:00Z", "2020-01-02 ", " 2020-01-02", "0000-01-01", "10000-01-01", "2020-1-2", "2020-01-02T", "2020-01-02Z", "20200102", "2020-02-30", "-2020-01-02", "2020-01-02\n", "١٢٣٤-٠١-٠٢", strings.Repeat("9", 5000)}
	times := []string{"10:20:30", "25:61:00", "10:20", "", "10:20:30Z", "10:20:30+01:00", "10:20:30.123", "T10:20:30", "10:20:30 ", "noon", "10:20:30.", "10:20:60", "24:00:00", "1:2:3", strings.Repeat("1", 5000)}
	var reqs []req
	for _, prior := range []bool{false, true} {
		for _, via := range []string{"json", "yaml", "json-direct"} {
			add := func(typ, raw string) {
				text := raw
				switch via {
				case "json", "json-direct":
					b, _ := json.Marshal(raw)
					text = string(b)
				case "yaml":
					b, _ := json.Marshal(raw) // a double-quoted YAML scalar
					text = string(b)
				}
				reqs = append(reqs, req{Type: typ, Via: via, Text: text, Prior: prior})
			}
			for _, d := range dates {
				add("date", d)
			}
			for _, t := range times {
				add("time", t)
			}
			// values of other JSON / YAML kinds
			for _, raw := range []string{"null", "5", "true", "[]", "{}", "1.5", "[\"2020-01-02\"]", "{\"a\":1}"} {
				reqs = append(reqs, req{Type: "date", Via: via, Text: raw, Prior: prior}, req{Type: "time", Via: via, Text: raw, Prior: prior})
			}
			if via == "yaml" {
				for _, raw := range []string{"2020-01-02", "2001-12-14t21:59:43.10-05:00", "2020-01-02T25:61:00Z", "10:20:30", "~", "!!timestamp 2020-01-02", "&a 2020-01-02", "- 2020-01-02", "2020-01-02: x"} {
					reqs = append(reqs, req{Type: "date", Via: via, Text: raw, Prior: prior}, req{Type: "time", Via: via, Text: raw, Prior: prior})
				}
			}
		}
	}
	var in bytes.Buffer
	for _, r := range reqs {
		j, _ := json.Marshal(r)
		in.Write(j)
		in.WriteByte('\n')
	}
	pr := stage.Run(stage.Proc{Path: bin, Args: []string{"formattypes"}, Stdin: in.Bytes(), CPUSec: 120})
	if pr.Exit != 0 {
		return 0, nil, fmt.Errorf("formattypes driver failed: exit=%d %s", pr.Exit, pr.Stderr)
	}
	sc := bufio.NewScanner(bytes.NewReader(pr.Stdout))
	sc.Buffer(make([]byte, 1<<16), 1<<22)
	i := 0
	for sc.Scan() && i < len(reqs) {
		var res map[string]any
		if json.Unmarshal(sc.Bytes(), &res) != nil {
			break
		}
		r := reqs[i]
		i++
		problem := ""
		if p, ok := res["panic"]; ok {
			problem = fmt.Sprintf("panic: %v", p)
		} else if _, failed := res["err"]; failed && r.Prior {
			if unch, _ := res["unchanged"].(bool); !unch {
				problem = fmt.Sprintf("returned an error (%v) after changing the destination", res["err"])
			}
		}
		if problem != "" && len(viols) < 5 {
			b, _ := json.MarshalIndent(map[string]any{"property": "C19", "monitor": "pkg/types called directly", "request": r, "result": res, "problem": problem}, "", " ")
			path := filepath.Join(evid.ReplayDir(), fmt.Sprintf("C19-formattype-%d.json", len(viols)))
			_ = os.WriteFile(path, b, 0o644)
			viols = append(viols, Viol{Replay: path, Summary: fmt.Sprintf("types.Serializable%s as its own destination, via %s, text %s, prior value %v: %s", strings.Title(r.Type), r.Via, trunc(r.Text, 60), r.Prior, problem)})
		}
	}
	if i != len(reqs) {
		return i, viols, fmt.Errorf("formattypes driver answered %d of %d requests", i, len(reqs))
	}
	return i, viols, nil
}
