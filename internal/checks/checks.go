// Package checks holds one monitor per property and the common run/evidence/exit-code discipline.
package checks

import (
	"fmt"
	"os"
	"sort"
	"strings"
	"time"

	"verif/internal/batch"
	"verif/internal/evid"
	"verif/internal/known"
	"verif/internal/sem"
)

// Ctx is what a check gets.
type Ctx struct {
	ID      string
	Tier    string
	Seed    uint64
	Verbose bool
	Env     *batch.Env
	Known   *known.Set
	Start   time.Time
}

// Quick reports whether the quick tier runs.
func (c *Ctx) Quick() bool { return c.Tier != "thorough" }

// N picks a size by tier.
func (c *Ctx) N(quick, thorough int) int {
	if c.Quick() {
		return quick
	}
	return thorough
}

// Viol is one violation to print.
type Viol struct {
	Replay  string
	Summary string
}

// Outcome of a check.
type Outcome struct {
	Level        string
	Coverage     map[string]any
	Assumptions  []string
	Violations   []Viol
	KnownLines   []string // "<what fails>" texts for KNOWN-FINDING lines
	Inconclusive string
}

// Fn is a check implementation.
type Fn func(*Ctx) (*Outcome, error)

var registry = map[string]Fn{}

// Register adds a check.
func Register(id string, f Fn) { registry[id] = f }

// IDs lists registered checks.
func IDs() []string {
	var ids []string
	for id := range registry {
		ids = append(ids, id)
	}
	sort.Strings(ids)
	return ids
}

// Main runs one check and returns the process exit code.
func Main(id, tier string, seed uint64, verbose bool) int {
	f, ok := registry[id]
	if !ok {
		fmt.Fprintf(os.Stderr, "unknown check %q\n", id)
		return 2
	}
	ctx := &Ctx{ID: id, Tier: tier, Seed: seed, Verbose: verbose, Known: known.Load(), Start: time.Now()}
	env, err := batch.NewEnv()
	if err != nil {
		fmt.Printf("INCONCLUSIVE property=%s reason=%q\n", id, "cannot stage/build tree under test: "+err.Error())
		return 2
	}
	defer env.Close()
	ctx.Env = env
	// observer only: statement coverage of the repository's packages reached by this check's CLI workload
	covErr := env.EnableCoverage()
	out, err := f(ctx)
	if err != nil {
		env.Close()
		fmt.Printf("INCONCLUSIVE property=%s reason=%q\n", id, "harness error: "+err.Error())
		return 2
	}
	wall := time.Since(ctx.Start).Seconds()
	if out.Coverage == nil {
		out.Coverage = map[string]any{}
	}
	ev := &evid.Evidence{PropertyID: id, Tier: tier, Seed: int64(seed), Level: out.Level, Coverage: out.Coverage,
		Assumptions: out.Assumptions, WallS: wall, Violations: len(out.Violations)}
	if covErr == nil {
		if rep := env.CoverageReport(); len(rep) > 0 {
			out.Coverage["repo_statement_coverage_reached_by_cli_workload"] = rep
		}
	}
	if len(out.KnownLines) > 0 {
		out.Coverage["known_findings_observed"] = out.KnownLines
	}
	if out.Inconclusive != "" {
		out.Coverage["inconclusive"] = out.Inconclusive
	}
	if err := evid.Write(ev); err != nil {
		fmt.Fprintln(os.Stderr, "cannot write evidence:", err)
	}
	for _, k := range out.KnownLines {
		fmt.Printf("KNOWN-FINDING: property=%s %s\n", id, k)
	}
	if len(out.Violations) > 0 {
		for _, v := range out.Violations {
			fmt.Printf("VIOLATION property=%s replay=%s\n", id, v.Replay)
			if v.Summary != "" {
				fmt.Printf("  %s\n", strings.ReplaceAll(v.Summary, "\n", "\n  "))
			}
		}
		return 1
	}
	if out.Inconclusive != "" {
		fmt.Printf("INCONCLUSIVE property=%s reason=%q\n", id, out.Inconclusive)
		return 2
	}
	fmt.Printf("HELD property=%s tier=%s seed=%d evaluations=%v distinct=%v wall=%.1fs\n", id, tier, seed,
		out.Coverage["evaluations"], out.Coverage["distinct_nontrivial"], wall)
	return 0
}

// FromSem converts an engine report into an outcome.
func FromSem(ctx *Ctx, rep *sem.Report, rule string, minDecided int, assumptions []string) *Outcome {
	o := &Outcome{Level: "exploration", Assumptions: assumptions}
	cov := map[string]any{
		"evaluations":           rep.Decided,
		"distinct_nontrivial":   len(rep.Sigs),
		"rule":                  rule,
		"samples":               rep.Samples,
		"programs_generated":    rep.Programs,
		"programs_executed":     rep.Usable,
		"generation_failures":   rep.GenFail,
		"compile_failures":      rep.CompileFail,
		"documents_by_class":    rep.ByClass,
		"tool_accepts":          rep.Accepts,
		"tool_rejects":          rep.Rejects,
		"model_accepts":         rep.ModelAccept,
		"model_rejects":         rep.ModelReject,
		"value_comparisons":     rep.ValueChecks,
		"dontcare_by_reason":    rep.DontCare,
		"known_finding_hits":    rep.Known,
		"child_restarts":        rep.Restarts,
		"race_reports":          rep.RaceReports,
		"model_selfcheck_drops": rep.ModelSelfFail,
		"decided_by_stratum":    rep.ByStratum,
	}
	if len(rep.Samples) == 0 {
		cov["samples"] = []any{"none"}
	}
	o.Coverage = cov
	for _, v := range rep.Violations {
		o.Violations = append(o.Violations, Viol{Replay: v.Replay, Summary: fmt.Sprintf("%s class=%s mode=%s expected=%s observed=%s %s\n schema=%s\n args=%v doc=%s",
			v.Kind, v.Class, v.Mode, trunc(v.Expected, 200), trunc(v.Observed, 200), trunc(v.Detail, 300), trunc(fmt.Sprintf("%s", v.Schema), 600), v.Args, trunc(v.Doc, 300))})
	}
	if rep.RaceReports > 0 {
		p := evid.ReplayDir() + "/" + ctx.ID + "-race.txt"
		_ = os.WriteFile(p, []byte(strings.Join(rep.RaceText, "\n\n")), 0o644)
		o.Violations = append(o.Violations, Viol{Replay: p, Summary: fmt.Sprintf("%d DATA RACE reports", rep.RaceReports)})
	}
	// known findings: one line per listed finding of this property that was observed
	var sigs []string
	for s := range rep.Known {
		sigs = append(sigs, s)
	}
	sort.Strings(sigs)
	for _, s := range sigs {
		for _, part := range strings.Split(s, "+") {
			if e, ok := ctx.Known.Get(part); ok {
				line := fmt.Sprintf("sig=%s %s", e.Sig, e.Text)
				dup := false
				for _, l := range o.KnownLines {
					if l == line {
						dup = true
					}
				}
				if !dup {
					o.KnownLines = append(o.KnownLines, line)
				}
			}
		}
	}
	if rep.Decided < minDecided {
		o.Inconclusive = fmt.Sprintf("only %d deciding observations (minimum %d); generation failures: %v; compile failures: %v", rep.Decided, minDecided, rep.GenFail, rep.CompileFail)
	}
	if rep.Watchdog > 0 {
		o.Inconclusive = fmt.Sprintf("wall-clock watchdog fired %d times", rep.Watchdog)
	}
	return o
}

func trunc(s string, n int) string {
	if len(s) > n {
		return s[:n] + "…"
	}
	return s
}
