package checks

import (
	"bytes"
	"encoding/json"
	"fmt"
	"os"
	"path/filepath"
	"sort"
	"strings"
	"sync"

	"verif/internal/batch"
	"verif/internal/cli"
	"verif/internal/evid"
	"verif/internal/jsonx"
	"verif/internal/sg"
	"verif/internal/stage"
)

func init() { Register("C12", c12) }

// permuteKeys returns a copy of v with the member order of every object shuffled.
func permuteKeys(r *sg.Rng, v any) any {
	switch t := v.(type) {
	case jsonx.Obj:
		n := make(jsonx.Obj, len(t))
		for i, kv := range t {
			n[i] = jsonx.KV{K: kv.K, V: permuteKeys(r, kv.V)}
		}
		r.Shuffle(len(n), func(i, j int) { n[i], n[j] = n[j], n[i] })
		return n
	case []any:
		n := make([]any, len(t))
		for i, e := range t {
			n[i] = permuteKeys(r, e)
		}
		return n
	}
	return v
}

type detCase struct {
	fs   *sg.FileSet
	opts []string // options without inputs
	sig  string
	// libs are written next to the inputs but not named on the command line (reached through references)
	libs []*sg.SchemaFile
	// pre are libs that ARE named on the command line, before the file set
	pre []string
}

func (c *detCase) files(perm *sg.Rng) []batch.File {
	var out []batch.File
	for _, f := range append(append([]*sg.SchemaFile{}, c.fs.Files...), c.libs...) {
		j := f.Root.ToJSON()
		if perm != nil {
			j = permuteKeys(perm, j)
		}
		var data []byte
		if f.YAML {
			data = sg.ToYAML(j, sg.YAMLBlock)
		} else {
			data = jsonx.MarshalIndent(j)
		}
		out = append(out, batch.File{Path: f.Path, Data: data})
	}
	return out
}

func (c *detCase) args() []string {
	a := append([]string{"-p", "detpkg"}, c.opts...)
	a = append(a, c.pre...)
	for _, f := range c.fs.Files {
		a = append(a, f.Path)
	}
	return a
}

// mappingOpts draws per-id mapping flags (several of them: main.go assembles mappings through maps).
func mappingOpts(r *sg.Rng, fs *sg.FileSet, multiPkg bool) []string {
	var a []string
	for i, f := range fs.Files {
		if f.ID == "" {
			continue
		}
		if r.Chance(0.7) {
			pkg := "example.com/mod/detpkg"
			out := fmt.Sprintf("out/%s.go", f.Name)
			if multiPkg && r.Chance(0.6) {
				pkg = fmt.Sprintf("example.com/mod/pk%d", i)
				out = fmt.Sprintf("pk%d/%s.go", i, f.Name)
			}
			a = append(a, "--schema-package", f.ID+"="+pkg, "--schema-output", f.ID+"="+out)
		}
		if r.Chance(0.4) {
			a = append(a, "--schema-root-type", f.ID+"="+fmt.Sprintf("Root%s", strings.ToUpper(f.Name)))
		}
	}
	return a
}

func c12(ctx *Ctx) (*Outcome, error) {
	n := ctx.N(110, 1500)
	runs := ctx.N(8, 32)
	perms := ctx.N(4, 16)
	var cases []*detCase
	for i := 0; i < n; i++ {
		r := sg.NewRng(ctx.Seed, fmt.Sprintf("C12-case-%d", i))
		o := sg.FSOpts{IDs: true, Dirs: i%3 == 0, YAML: i%4 == 0, DistinctNames: true,
			Gen: sg.Opts{MaxDepth: 3, Descs: true, PDefault: 0.3, PNullable: 0.2, PAddProps: 0.3, W: map[string]float64{"object": 4, "ref": 2.5, "enum": 3, "compose": 1.2}}}
		if i%2 == 0 {
			o.N = 1
		}
		fs := sg.GenFileSet(r, o)
		// many members per map: more than one hash bucket
		big := fs.Files[0].Root
		for k := 0; k < 10; k++ {
			big.Props = append(big.Props, sg.Prop{Name: fmt.Sprintf("bulk%02d", (k*7)%10), S: &sg.Schema{Types: []string{sg.PickOf(r, []string{"string", "integer", "boolean"})}}})
			d := &sg.Schema{Types: []string{"object"}, Props: []sg.Prop{{Name: "v", S: &sg.Schema{Types: []string{"integer"}}}}, Required: []string{"v"}}
			big.Defs = append(big.Defs, sg.Prop{Name: fmt.Sprintf("Bulk%02d", (k*3)%10), S: d})
		}
		{
			// places where the ORDER of a two-element type list is compared: equal definitions that contend for one Go
			// name (merged or declared twice), a type-less definition whose composition members all carry the same
			// nullable list, a declared schema with two non-null types
			mkDup := func() *sg.Schema {
				return &sg.Schema{Types: []string{"object"}, Props: []sg.Prop{{Name: "line", S: &sg.Schema{Types: []string{"string", "null"}}}, {Name: "zip", S: &sg.Schema{Types: []string{"null", "integer"}}}}}
			}
			d1, d2 := mkDup(), mkDup()
			member := func(k string) *sg.Schema {
				return &sg.Schema{Types: []string{"object", "null"}, Props: []sg.Prop{{Name: k, S: &sg.Schema{Types: []string{"string"}}}}, Required: []string{k}}
			}
			contact := &sg.Schema{AnyOf: []*sg.Schema{member("mail"), member("phone")}}
			either := &sg.Schema{Types: []string{"string", "integer"}}
			big.Defs = append(big.Defs, sg.Prop{Name: "DetDupAddr", S: d1}, sg.Prop{Name: "detDupAddr", S: d2}, sg.Prop{Name: "DetContact", S: contact}, sg.Prop{Name: "DetEither", S: either})
			if len(big.Types) == 1 && big.Types[0] == "object" {
				big.Props = append(big.Props, sg.Prop{Name: "detOffice", S: &sg.Schema{Ref: "#/$defs/DetDupAddr", Target: d1}}, sg.Prop{Name: "detHome", S: &sg.Schema{Ref: "#/$defs/detDupAddr", Target: d2}},
					sg.Prop{Name: "detContact", S: &sg.Schema{Ref: "#/$defs/DetContact", Target: contact}}, sg.Prop{Name: "detEither", S: &sg.Schema{Ref: "#/$defs/DetEither", Target: either}})
			}
		}
		{
			// required lists: many declared names, and several names that are NOT declared under properties, next to every
			// form of additionalProperties (whatever is made of the undeclared ones - checks or nothing - the order of what
			// is emitted is a function of the document)
			for k, ap := range []string{"typed", "true", "object", "absent"} {
				env := &sg.Schema{Types: []string{"object"}, Props: []sg.Prop{{Name: "id", S: &sg.Schema{Types: []string{"string"}}}, {Name: "seq", S: &sg.Schema{Types: []string{"integer"}}},
					{Name: "kind", S: &sg.Schema{Types: []string{"string"}}}, {Name: "at", S: &sg.Schema{Types: []string{"string"}}}, {Name: "by", S: &sg.Schema{Types: []string{"string"}}}, {Name: "via", S: &sg.Schema{Types: []string{"string"}}}},
					Required: []string{"via", "x-trace-id", "id", "x-span-id", "kind", "tenant", "at", "zz-region", "by", "m", "seq"}}
				switch ap {
				case "typed":
					env.AddProps = &sg.Schema{Types: []string{"string"}}
				case "true":
					env.AddPropsBool = sg.Bp(true)
				case "object":
					env.AddProps = &sg.Schema{Types: []string{"object"}, Props: []sg.Prop{{Name: "q", S: &sg.Schema{Types: []string{"integer"}}}}}
				}
				if (i+k)%2 == 0 {
					big.Defs = append(big.Defs, sg.Prop{Name: fmt.Sprintf("DetEnvelope%d", k), S: env})
					if len(big.Types) == 1 && big.Types[0] == "object" {
						big.Props = append(big.Props, sg.Prop{Name: fmt.Sprintf("detEnvelope%d", k), S: &sg.Schema{Ref: fmt.Sprintf("#/$defs/DetEnvelope%d", k), Target: env}})
					}
				} else if len(big.Types) == 1 && big.Types[0] == "object" {
					big.Props = append(big.Props, sg.Prop{Name: fmt.Sprintf("detEnvelope%d", k), S: env})
				}
			}
		}
		if len(big.Types) == 1 && big.Types[0] == "object" {
			// object defaults with nested objects of many members (inline and behind a reference): the literal that is
			// written for them lists the members in an order that is a function of the document
			mkLimits := func() *sg.Schema {
				l := &sg.Schema{Types: []string{"object"}}
				for _, k := range []string{"burst", "rate", "window", "quota", "backlog", "idle"} {
					l.Props = append(l.Props, sg.Prop{Name: k, S: &sg.Schema{Types: []string{"integer"}}})
				}
				return l
			}
			limitsDefault := jsonx.Obj{{K: "idle", V: jsonx.N(6)}, {K: "burst", V: jsonx.N(1)}, {K: "quota", V: jsonx.N(4)}, {K: "rate", V: jsonx.N(2)}, {K: "backlog", V: jsonx.N(5)}, {K: "window", V: jsonx.N(3)}}
			listener := &sg.Schema{Types: []string{"object"}, Props: []sg.Prop{{Name: "host", S: &sg.Schema{Types: []string{"string"}}}, {Name: "port", S: &sg.Schema{Types: []string{"integer"}}}, {Name: "limits", S: mkLimits()},
				{Name: "peer", S: &sg.Schema{Types: []string{"object"}, Props: []sg.Prop{{Name: "limits", S: mkLimits()}, {Name: "name", S: &sg.Schema{Types: []string{"string"}}}}}}}}
			def := jsonx.Obj{{K: "port", V: jsonx.N(80)}, {K: "limits", V: limitsDefault}, {K: "host", V: "h"}, {K: "peer", V: jsonx.Obj{{K: "name", V: "p"}, {K: "limits", V: limitsDefault}}}}
			big.Defs = append(big.Defs, sg.Prop{Name: "DetListener", S: listener})
			big.Props = append(big.Props, sg.Prop{Name: "detListener", S: &sg.Schema{Ref: "#/$defs/DetListener", Target: listener, Default: def, HasDefault: true}},
				sg.Prop{Name: "detLimits", S: func() *sg.Schema { l := mkLimits(); l.Default, l.HasDefault = limitsDefault, true; return l }()})
		}
		if (i%4 == 1 || i%4 == 3) && (big.DefsKey == "" || big.DefsKey == "$defs") {
			// (only where the generated definitions are written under $defs: the same key twice is outside what is asserted)
			// a half-migrated document: `definitions` next to `$defs`, with entries of the same names and other content,
			// and entries of its own (one of them referenced with the legacy pointer): which of two same-named entries
			// wins is a function of the keywords, not of where they stand in the file
			big.Extra = append(big.Extra, jsonx.KV{K: "definitions", V: jsonx.Obj{
				{K: "Bulk00", V: jsonx.Obj{{K: "type", V: "object"}, {K: "properties", V: jsonx.Obj{{K: "legacyOnly", V: jsonx.Obj{{K: "type", V: "string"}, {K: "minLength", V: jsonx.N(2)}}}}}, {K: "required", V: []any{"legacyOnly"}}}},
				{K: "DetEither", V: jsonx.Obj{{K: "type", V: "boolean"}}},
				{K: "Bulk03", V: jsonx.Obj{{K: "type", V: "string"}, {K: "enum", V: []any{"legacy-a", "legacy-b"}}}},
				{K: "LegacyOwn", V: jsonx.Obj{{K: "type", V: "integer"}, {K: "maximum", V: jsonx.N(9)}}},
			}})
			if len(big.Types) == 1 && big.Types[0] == "object" {
				big.Props = append(big.Props, sg.Prop{Name: "detBulkNew", S: &sg.Schema{Extra: jsonx.Obj{{K: "$ref", V: "#/$defs/Bulk00"}}}}, sg.Prop{Name: "detBulkOld", S: &sg.Schema{Extra: jsonx.Obj{{K: "$ref", V: "#/definitions/Bulk00"}}}},
					sg.Prop{Name: "detBulk3", S: &sg.Schema{Extra: jsonx.Obj{{K: "$ref", V: "#/$defs/Bulk03"}}}})
			}
		}
		if i%4 == 2 {
			// keywords the generator does not (fully) support, each with several entries: whatever it makes of them,
			// it makes the same of them in every process
			str := func(extra ...jsonx.KV) jsonx.Obj { return append(jsonx.Obj{{K: "type", V: "string"}}, extra...) }
			pp := &sg.Schema{Types: []string{"object"}}
			pp.Extra = append(pp.Extra, jsonx.KV{K: "patternProperties", V: jsonx.Obj{{K: "^at_", V: str(jsonx.KV{K: "format", V: "date-time"})}, {K: "^note_", V: str()}, {K: "^kind_", V: str(jsonx.KV{K: "enum", V: []any{"a", "b"}})},
				{K: "^n_", V: jsonx.Obj{{K: "type", V: "integer"}, {K: "minimum", V: jsonx.N(0)}, {K: "maximum", V: jsonx.N(255)}}}, {K: "^o_", V: jsonx.Obj{{K: "type", V: "object"}, {K: "properties", V: jsonx.Obj{{K: "q", V: str()}}}}}}})
			big.Props = append(big.Props, sg.Prop{Name: "marks", S: pp})
			// ... and one whose patterns all state the same type but differ in what shapes a Go type
			ps := &sg.Schema{Types: []string{"object"}}
			ps.Extra = append(ps.Extra, jsonx.KV{K: "patternProperties", V: jsonx.Obj{{K: "^at_", V: str(jsonx.KV{K: "format", V: "date-time"})}, {K: "^note_", V: str()}, {K: "^kind_", V: str(jsonx.KV{K: "enum", V: []any{"a", "b"}})}, {K: "^ip_", V: str(jsonx.KV{K: "format", V: "ipv4"})}}})
			pi := &sg.Schema{Types: []string{"object"}}
			pi.Extra = append(pi.Extra, jsonx.KV{K: "patternProperties", V: jsonx.Obj{{K: "^a", V: jsonx.Obj{{K: "type", V: "integer"}, {K: "minimum", V: jsonx.N(0)}, {K: "maximum", V: jsonx.N(255)}}}, {K: "^b", V: jsonx.Obj{{K: "type", V: "integer"}}}, {K: "^c", V: jsonx.Obj{{K: "type", V: "integer"}, {K: "enum", V: []any{jsonx.N(1), jsonx.N(2)}}}}}})
			big.Props = append(big.Props, sg.Prop{Name: "stamps", S: ps}, sg.Prop{Name: "counts", S: pi})
			un := &sg.Schema{Types: []string{"object"}, Props: []sg.Prop{{Name: "a", S: &sg.Schema{Types: []string{"string"}}}, {Name: "b", S: &sg.Schema{Types: []string{"integer"}}}}}
			un.Extra = append(un.Extra,
				jsonx.KV{K: "dependentRequired", V: jsonx.Obj{{K: "a", V: []any{"b"}}, {K: "b", V: []any{"a"}}}},
				jsonx.KV{K: "dependentSchemas", V: jsonx.Obj{{K: "a", V: jsonx.Obj{{K: "required", V: []any{"b"}}}}, {K: "b", V: jsonx.Obj{{K: "properties", V: jsonx.Obj{{K: "c", V: str()}}}}}}},
				jsonx.KV{K: "oneOf", V: []any{jsonx.Obj{{K: "required", V: []any{"a"}}}, jsonx.Obj{{K: "required", V: []any{"b"}}}}},
				jsonx.KV{K: "not", V: jsonx.Obj{{K: "required", V: []any{"zzz"}}}},
				jsonx.KV{K: "if", V: jsonx.Obj{{K: "required", V: []any{"a"}}}}, jsonx.KV{K: "then", V: jsonx.Obj{{K: "required", V: []any{"b"}}}},
				jsonx.KV{K: "propertyNames", V: jsonx.Obj{{K: "pattern", V: "^[a-z]+$"}}}, jsonx.KV{K: "unevaluatedProperties", V: false}, jsonx.KV{K: "minProperties", V: jsonx.N(1)})
			big.Props = append(big.Props, sg.Prop{Name: "unsupported", S: un})
		}
		if i%3 == 1 {
			// names that are equal under some coarser comparison (case, separators): ties in any sort the generator
			// uses must still be broken deterministically
			for k, pair := range [][2]string{{"item", "Item"}, {"owner_id", "ownerId"}, {"TAG", "tag"}, {"a b", "a-b"}} {
				if r.Chance(0.6) {
					d1 := &sg.Schema{Types: []string{"object"}, Props: []sg.Prop{{Name: "x", S: &sg.Schema{Types: []string{"integer"}}}}, Required: []string{"x"}}
					d2 := &sg.Schema{Types: []string{"object"}, Props: []sg.Prop{{Name: "y", S: &sg.Schema{Types: []string{"string"}, MinLen: 1 + k}}}}
					big.Defs = append(big.Defs, sg.Prop{Name: pair[0], S: d1}, sg.Prop{Name: pair[1], S: d2})
					big.Props = append(big.Props, sg.Prop{Name: "p" + pair[0], S: &sg.Schema{Ref: "#/$defs/" + pair[0], Target: d1}}, sg.Prop{Name: "p" + pair[1], S: &sg.Schema{Ref: "#/$defs/" + pair[1], Target: d2}})
					nested := &sg.Schema{Types: []string{"object"}, Props: []sg.Prop{{Name: pair[0], S: &sg.Schema{Types: []string{"object"}, Props: []sg.Prop{{Name: "u", S: &sg.Schema{Types: []string{"boolean"}}}}}}, {Name: pair[1], S: &sg.Schema{Types: []string{"object"}, Props: []sg.Prop{{Name: "v", S: &sg.Schema{Types: []string{"number"}}}}}}}}
					big.Props = append(big.Props, sg.Prop{Name: fmt.Sprintf("nest%d", k), S: nested})
				}
			}
		}
		c := &detCase{fs: fs, sig: fmt.Sprintf("files=%d dirs=%v yaml=%v ties=%v spellings=%v", len(fs.Files), o.Dirs, o.YAML, i%3 == 1, i%7 == 6)}
		c.opts = append(RandArgs(r, nil), mappingOpts(r, fs, i%5 == 0)...)
		if i%7 == 6 {
			// ids with an empty fragment (common in draft-04 documents) and mapping keys in both spellings, with
			// different values, plus a repeated key: whatever the tool makes of them, it is the same in every run
			for k, f := range fs.Files {
				if f.ID == "" {
					continue
				}
				bare := f.ID
				if k%2 == 0 {
					f.ID += "#"
					f.Root.ID = f.ID
				}
				c.opts = append(c.opts,
					"--schema-root-type", bare+"#="+fmt.Sprintf("Hash%d", k), "--schema-root-type", bare+"="+fmt.Sprintf("Bare%d", k),
					"--schema-package", bare+"#=example.com/mod/hashpkg", "--schema-output", bare+"#="+fmt.Sprintf("hashpkg/h%d.go", k),
					"--schema-package", bare+"=example.com/mod/barepkg", "--schema-output", bare+"="+fmt.Sprintf("barepkg/b%d.go", k))
				if r.Chance(0.5) {
					c.opts = append(c.opts, "--schema-root-type", bare+"="+fmt.Sprintf("Again%d", k))
				}
			}
		}
		if i%7 == 5 {
			// an extension-less reference with several candidates (common.json / common.yaml / common.yml, all
			// different) and several --resolve-extension values: which file is read is a function of the options
			mkLib := func(field string) *sg.Schema {
				return &sg.Schema{Types: []string{"object"}, Defs: []sg.Prop{{Name: "Address", S: &sg.Schema{Types: []string{"object"}, Props: []sg.Prop{{Name: field, S: &sg.Schema{Types: []string{"string"}}}}}}}}
			}
			first := fs.Files[0]
			dir := filepath.Dir(first.Path)
			for k, ext := range []string{".json", ".yaml", ".yml"} {
				c.libs = append(c.libs, &sg.SchemaFile{Name: "common" + ext, Path: filepath.Join(dir, "common"+ext), Root: mkLib([]string{"street", "line1", "freeform"}[k]), YAML: ext != ".json"})
			}
			if len(first.Root.Types) == 1 && first.Root.Types[0] == "object" {
				first.Root.Props = append(first.Root.Props, sg.Prop{Name: "postal", S: &sg.Schema{Ref: "common#/$defs/Address", Target: c.libs[0].Root.Defs[0].S}})
			}
			exts := [][]string{{".json", ".yaml", ".yml"}, {".yml", ".json", ".yaml"}, {".yaml", ".yml", ".json"}}[(i/7)%3]
			for _, e := range exts {
				c.opts = append(c.opts, "--resolve-extension", e)
			}
			c.sig += " ambiguous-extensionless-ref"
		}
		if i%7 == 2 {
			// a schema mapped to a package only (no output file of its own) while that package has several file outputs
			// already when it is first reached (command line order / through a reference): where its declarations go -
			// nowhere, by the tool's design - does not depend on the process
			first := fs.Files[0]
			dir := filepath.Dir(first.Path)
			pkg := "example.com/mod/detpkg"
			money := &sg.Schema{ID: "https://example.com/detmoney", Types: []string{"object"}, Props: []sg.Prop{{Name: "amount", S: &sg.Schema{Types: []string{"number"}}}, {Name: "currency", S: &sg.Schema{Types: []string{"string"}, MinLen: 3}}}, Required: []string{"amount"}}
			customer := &sg.Schema{ID: "https://example.com/detcustomer", Types: []string{"object"}, Props: []sg.Prop{{Name: "customerName", S: &sg.Schema{Types: []string{"string"}}}}}
			order := &sg.Schema{ID: "https://example.com/detorder", Types: []string{"object"}, Props: []sg.Prop{{Name: "total", S: &sg.Schema{Ref: "detmoney.json", Target: money}}, {Name: "orderNo", S: &sg.Schema{Types: []string{"integer"}}}}}
			extra := &sg.Schema{ID: "https://example.com/detextra", Types: []string{"object"}, Props: []sg.Prop{{Name: "extraNote", S: &sg.Schema{Types: []string{"string"}}}, {Name: "price", S: &sg.Schema{Ref: "detmoney.json", Target: money}}}}
			for _, lf := range []struct {
				name string
				root *sg.Schema
				out  string
				cmd  bool
			}{{"detcustomer", customer, "out/detcustomer.go", true}, {"detorder", order, "out/detorder.go", true}, {"detextra", extra, "out/detextra.go", (i/7)%2 == 0}, {"detmoney", money, "", (i/7)%3 == 1}} {
				f := &sg.SchemaFile{Name: lf.name, Path: filepath.Join(dir, lf.name+".json"), Root: lf.root, ID: lf.root.ID}
				c.libs = append(c.libs, f)
				if lf.cmd {
					c.pre = append(c.pre, f.Path)
				}
				c.opts = append(c.opts, "--schema-package", lf.root.ID+"="+pkg)
				if lf.out != "" {
					c.opts = append(c.opts, "--schema-output", lf.root.ID+"="+lf.out)
				}
			}
			c.sig += " package-only-next-to-file-outputs"
		}
		if i%7 == 3 {
			// one keyword value reachable from two validators that land in DIFFERENT output files: an allOf member types a
			// property as integer, a member given by reference into another document (mapped to an output of its own)
			// types the same property as number with fractional bounds; filler documents in between make the order in
			// which the outputs are rendered vary as much as a map can
			first := fs.Files[0]
			dir := filepath.Dir(first.Path)
			const baseID = "https://example.com/detbase"
			base := &sg.Schema{ID: baseID, Types: []string{"object"}, Props: []sg.Prop{{Name: "ratio", S: &sg.Schema{Types: []string{"number"}, Min: sg.Fp(2.5), Max: sg.Fp(7.5)}}, {Name: "share", S: &sg.Schema{Types: []string{"number"}, ExMin: 0.25, ExMax: 0.75}}}}
			c.libs = append(c.libs, &sg.SchemaFile{Name: "detbase", Path: filepath.Join(dir, "detbase.json"), Root: base, ID: baseID})
			c.opts = append(c.opts, "--schema-output", baseID+"=gen/detbase.go")
			for k := 0; k < 3; k++ {
				id := fmt.Sprintf("https://example.com/detfill%d", k)
				fill := &sg.Schema{ID: id, Types: []string{"object"}, Props: []sg.Prop{{Name: fmt.Sprintf("fill%d", k), S: &sg.Schema{Types: []string{"integer"}, Min: sg.Fp(float64(k))}}}}
				lf := &sg.SchemaFile{Name: fmt.Sprintf("detfill%d", k), Path: filepath.Join(dir, fmt.Sprintf("detfill%d.json", k)), Root: fill, ID: id}
				c.libs = append(c.libs, lf)
				c.opts = append(c.opts, "--schema-output", id+"="+fmt.Sprintf("gen/detfill%d.go", k))
				if len(first.Root.Types) == 1 && first.Root.Types[0] == "object" {
					first.Root.Props = append(first.Root.Props, sg.Prop{Name: fmt.Sprintf("zfill%d", k), S: &sg.Schema{Ref: fmt.Sprintf("detfill%d.json", k), Target: fill}})
				}
			}
			if len(first.Root.Types) == 1 && first.Root.Types[0] == "object" {
				first.Root.Props = append(first.Root.Props, sg.Prop{Name: "derived", S: &sg.Schema{AllOf: []*sg.Schema{
					{Types: []string{"object"}, Props: []sg.Prop{{Name: "ratio", S: &sg.Schema{Types: []string{"integer"}}}, {Name: "share", S: &sg.Schema{Types: []string{"integer"}}}}},
					{Ref: "detbase.json", Target: base}}}})
			}
			c.sig += " shared-keyword-across-outputs"
		}
		if i%7 == 4 {
			// a remote reference (nothing listens there: the fetch fails at once) whose URL is the $id of several
			// local copies that were loaded before it, all different: whatever the tool answers the reference with,
			// it is the same in every process
			const url = "http://127.0.0.1:1/shared/types.json"
			first := fs.Files[0]
			dir := filepath.Dir(first.Path)
			for k := 0; k < 4; k++ {
				m := &sg.Schema{ID: url, Types: []string{"object"}, Props: []sg.Prop{{Name: fmt.Sprintf("mirror%d", k), S: &sg.Schema{Types: []string{"string"}}}},
					Defs: []sg.Prop{{Name: "Shared", S: &sg.Schema{Types: []string{"object"}, Props: []sg.Prop{{Name: fmt.Sprintf("rev%d", k), S: &sg.Schema{Types: []string{"integer"}}}}}}}}
				lf := &sg.SchemaFile{Name: fmt.Sprintf("mirror%d", k), Path: filepath.Join(dir, fmt.Sprintf("mirror%d.json", k)), Root: m}
				c.libs = append(c.libs, lf)
				c.pre = append(c.pre, lf.Path)
			}
			if len(first.Root.Types) == 1 && first.Root.Types[0] == "object" {
				first.Root.Props = append(first.Root.Props, sg.Prop{Name: "remote", S: &sg.Schema{Ref: url + "#/$defs/Shared", Target: c.libs[len(c.libs)-1].Root.Defs[0].S}})
			}
			c.sig += " remote-ref-equals-id-of-loaded-copies"
		}
		if !hasOutputMapping(c.opts) {
			c.opts = append(c.opts, "-o", "gen/out.go")
		} else {
			c.opts = append(c.opts, "-o", "gen/default.go")
		}
		cases = append(cases, c)
	}
	type obs struct {
		fps     map[string]int
		example map[string]string
		exit    int
	}
	results := make([]obs, len(cases))
	totalRuns := 0
	var stdoutMu sync.Mutex
	var stdoutBadAll []string
	stdoutRunsAll := 0
	stage.Parallel(len(cases), func(i int) {
		c := cases[i]
		var stdoutBad []string
		stdoutRuns := 0
		defer func() {
			stdoutMu.Lock()
			stdoutBadAll = append(stdoutBadAll, stdoutBad...)
			stdoutRunsAll += stdoutRuns
			stdoutMu.Unlock()
		}()
		o := obs{fps: map[string]int{}, example: map[string]string{}}
		record := func(kind string, r *cli.Result) {
			fp := r.Fingerprint()
			o.fps[fp]++
			if _, ok := o.example[fp]; !ok {
				o.example[fp] = kind + ": " + r.Dir
			} else {
				r.Cleanup()
			}
			o.exit = r.Proc.Exit
		}
		// repeated separate processes (each samples new map-iteration orders)
		for k := 0; k < runs; k++ {
			record("repeat", cli.Run(ctx.Env, &cli.Inv{Files: c.files(nil), Args: c.args()}))
		}
		// key-order permutations of every object of every input file
		for k := 0; k < perms; k++ {
			pr := sg.NewRng(ctx.Seed, fmt.Sprintf("C12-perm-%d-%d", i, k))
			record("permuted", cli.Run(ctx.Env, &cli.Inv{Files: c.files(pr), Args: c.args()}))
		}
		// the same options written differently (short flags, --flag=value, repeated vs comma-joined lists)
		{
			a := RespellOpts(append([]string{"-p", "detpkg"}, c.opts...))
			a = append(a, c.pre...)
			for _, f := range c.fs.Files {
				a = append(a, f.Path)
			}
			record("respelled-options", cli.Run(ctx.Env, &cli.Inv{Files: c.files(nil), Args: a}))
		}
		// no output file named: the same bytes go to standard output, and nothing is written
		if !hasOutputMapping(c.opts) {
			var a []string
			for k := 0; k < len(c.args()); k++ {
				if c.args()[k] == "-o" {
					k++
					continue
				}
				a = append(a, c.args()[k])
			}
			rf := cli.Run(ctx.Env, &cli.Inv{Files: c.files(nil), Args: c.args()})
			rs := cli.Run(ctx.Env, &cli.Inv{Files: c.files(nil), Args: a})
			want := rf.Out("gen/out.go")
			if rf.Proc.Exit == 0 && (rs.Proc.Exit != 0 || !bytes.Equal(rs.Proc.Stdout, append(append([]byte{}, rf.Proc.Stdout...), want...)) || len(rs.Outputs()) != 0) {
				stdoutBad = append(stdoutBad, fmt.Sprintf("options=%v: with -o the file has %d bytes, without it stdout has %d bytes, exit %d, files written %d (%s)", c.opts, len(want), len(rs.Proc.Stdout), rs.Proc.Exit, len(rs.Outputs()), rs.Dir))
			} else {
				rs.Cleanup()
			}
			stdoutRuns++
			rf.Cleanup()
		}
		// stale outputs: every file a run writes exists already - longer, with other content, read-write: what is on
		// disk afterwards is what the run emitted, nothing of what was there before
		{
			r0 := cli.Run(ctx.Env, &cli.Inv{Files: c.files(nil), Args: c.args()})
			seed := map[string][]byte{}
			for n, b := range r0.Outputs() {
				seed[n] = append(append([]byte("// stale content of an earlier run\npackage stale\n"), b...), bytes.Repeat([]byte("// stale tail\n"), 2000)...)
			}
			r0.Cleanup()
			if len(seed) > 0 {
				record("stale-outputs", cli.Run(ctx.Env, &cli.Inv{Files: c.files(nil), Args: c.args(), Seed: seed}))
			}
		}
		// relocation: another absolute directory (deeper, different name); the cwd stays the schema root so that
		// relative arguments are the same
		deep := filepath.Join(ctx.Env.St.TempDir("reloc"), "moved", "elsewhere", fmt.Sprintf("x%d", i))
		record("relocated", cli.RunIn(ctx.Env, deep, &cli.Inv{Files: c.files(nil), Args: c.args()}))
		// relocation seen by the tool: the schema directory moved below a directory whose name a URL or flag parser
		// could trip over; the inputs are named through it, the outputs stay where they were
		{
			prefix := []string{"batch#7", "q?x=1", "sp ace", "日本", "a=b", "pct%41", "co,mma", "at@sign", "semi;colon", "amp&er"}[i%10]
			var files []batch.File
			for _, f := range c.files(nil) {
				files = append(files, batch.File{Path: filepath.Join(prefix, f.Path), Data: f.Data})
			}
			a := append([]string{"-p", "detpkg"}, c.opts...)
			for _, pf := range c.pre {
				a = append(a, filepath.Join(prefix, pf))
			}
			for _, f := range c.fs.Files {
				a = append(a, filepath.Join(prefix, f.Path))
			}
			record("moved-below-"+prefix, cli.Run(ctx.Env, &cli.Inv{Files: files, Args: a}))
		}
		results[i] = o
	})
	var viols []Viol
	for k, msg := range stdoutBadAll {
		if k < 3 {
			rp := filepath.Join(evid.ReplayDir(), fmt.Sprintf("C12-stdout-%d.txt", k))
			_ = os.WriteFile(rp, []byte(msg+"\n"), 0o644)
			viols = append(viols, Viol{Replay: rp, Summary: "the code written to standard output differs from the code written to the file named with -o: " + msg})
		}
	}
	sigs := map[string]bool{}
	var samples []any
	okCases, failCases := 0, 0
	for i, c := range cases {
		o := results[i]
		for _, v := range o.fps {
			totalRuns += v
		}
		if o.exit == 0 {
			okCases++
		} else {
			failCases++
		}
		sigs[c.sig+"|"+strings.Join(optNames(c.opts), ",")] = true
		if len(samples) < 4 && i%29 == 3 {
			samples = append(samples, map[string]any{"files": fileNames(c.fs), "options": c.opts, "runs": runs + perms + 1, "distinct_output_fingerprints": len(o.fps)})
		}
		if len(o.fps) > 1 && len(viols) < 8 {
			var ex []string
			for fp, where := range o.example {
				ex = append(ex, fmt.Sprintf("%s x%d (%s)", fp, o.fps[fp], where))
			}
			sort.Strings(ex)
			// keep the differing outputs as replay
			rp := filepath.Join(evid.ReplayDir(), fmt.Sprintf("C12-%d", len(viols)))
			_ = os.MkdirAll(rp, 0o755)
			k := 0
			for fp, where := range o.example {
				dir := where[strings.Index(where, ": ")+2:]
				_ = exec("cp", "-r", dir, filepath.Join(rp, fmt.Sprintf("variant%d-%s", k, fp)))
				k++
			}
			b, _ := json.MarshalIndent(map[string]any{"property": "C12", "options": c.opts, "files": fileNames(c.fs), "fingerprints": ex}, "", " ")
			_ = os.WriteFile(filepath.Join(rp, "summary.json"), b, 0o644)
			viols = append(viols, Viol{Replay: rp, Summary: fmt.Sprintf("%d distinct outputs for identical content and options: %v\n options=%v", len(o.fps), ex, c.opts)})
		}
		for _, where := range o.example {
			_ = os.RemoveAll(where[strings.Index(where, ": ")+2:])
		}
	}
	// concurrent independent Generators in one process under the race detector
	raceRuns, raceReports, raceDistinct, raceText, err := concurrentGenerators(ctx, cases)
	if err != nil {
		return nil, err
	}
	if raceReports > 0 {
		p := filepath.Join(evid.ReplayDir(), "C12-race.txt")
		_ = os.WriteFile(p, []byte(raceText), 0o644)
		viols = append(viols, Viol{Replay: p, Summary: fmt.Sprintf("%d DATA RACE reports with concurrent independent Generators", raceReports)})
	}
	if raceDistinct != "" {
		p := filepath.Join(evid.ReplayDir(), "C12-concurrent.txt")
		_ = os.WriteFile(p, []byte(raceDistinct), 0o644)
		viols = append(viols, Viol{Replay: p, Summary: "concurrent Generators on the same input produced different outputs: " + trunc(raceDistinct, 300)})
	}
	o := &Outcome{Level: "exploration", Violations: viols}
	o.Coverage = map[string]any{
		"evaluations":               totalRuns + raceRuns,
		"distinct_nontrivial":       len(sigs),
		"rule":                      fmt.Sprintf("per case (1-4 schema files with cross references, >=10 properties and definitions in one map, random options incl. several --schema-* mapping flags): %d separate processes on identical bytes (each samples fresh Go map-iteration orders), %d runs with the key order of every JSON/YAML object permuted, 1 run from a different absolute directory, and G goroutines each running its own Generator in one -race process; all outputs (file names + bytes + stdout + exit status) are fingerprinted and must be identical; distinct_nontrivial = distinct (layout, option set) combinations", runs, perms),
		"samples":                   samples,
		"cases":                     len(cases),
		"cases_exit0":               okCases,
		"cases_refused":             failCases,
		"process_runs":              totalRuns,
		"stdout_vs_file_pairs":      stdoutRunsAll,
		"concurrent_generator_runs": raceRuns,
		"race_reports":              raceReports,
	}
	if len(samples) == 0 {
		o.Coverage["samples"] = []any{"none"}
	}
	o.Assumptions = []string{"a two-way order leak escapes N runs with probability 2^-(N-1)", "the race detector sees only the schedules that happened"}
	if okCases < n/2 {
		o.Inconclusive = fmt.Sprintf("only %d of %d cases were accepted by the generator", okCases, n)
	}
	return o, nil
}

func exec(name string, args ...string) error {
	return osexec(name, args...)
}

func hasOutputMapping(a []string) bool {
	for _, x := range a {
		if x == "--schema-output" {
			return true
		}
	}
	return false
}

func optNames(a []string) []string {
	var out []string
	for _, x := range a {
		if strings.HasPrefix(x, "--") {
			out = append(out, x)
		}
	}
	return out
}

func fileNames(fs *sg.FileSet) []string {
	var out []string
	for _, f := range fs.Files {
		out = append(out, f.Path)
	}
	return out
}

// concurrentGenerators runs, for a share of the cases, G goroutines x R rounds of independent Generators in one
// process built with -race and compares all outputs.
func concurrentGenerators(ctx *Ctx, cases []*detCase) (runs, reports int, distinct, text string, err error) {
	bin, err := ctx.Env.BuildInDrv(true)
	if err != nil {
		return 0, 0, "", "", err
	}
	lim := ctx.N(24, 300)
	if lim > len(cases) {
		lim = len(cases)
	}
	type res struct {
		runs, reports int
		distinct      string
		text          string
	}
	out := make([]res, lim)
	stage.Parallel(lim, func(i int) {
		c := cases[i]
		dir := ctx.Env.St.TempDir("conc")
		for _, f := range c.files(nil) {
			p := filepath.Join(dir, f.Path)
			_ = os.MkdirAll(filepath.Dir(p), 0o755)
			_ = os.WriteFile(p, f.Data, 0o644)
		}
		cfg := map[string]any{"DefaultPackageName": "detpkg", "DefaultOutputName": "gen/out.go", "YAMLExtensions": []string{".yml", ".yaml"}, "Tags": []string{"json", "yaml", "mapstructure"}}
		for k := 0; k < len(c.opts); k++ {
			switch c.opts[k] {
			case "--extra-imports":
				cfg["ExtraImports"] = true
			case "--only-models":
				cfg["OnlyModels"] = true
			case "--min-sized-ints":
				cfg["MinSizedInts"] = true
			case "--struct-name-from-title":
				cfg["StructNameFromTitle"] = true
			case "--capitalization":
				cfg["Capitalizations"] = strings.Split(c.opts[k+1], ",")
			}
		}
		var files []string
		for _, f := range c.fs.Files {
			files = append(files, f.Path)
		}
		req, _ := json.Marshal(map[string]any{"dir": dir, "files": files, "config": cfg, "workers": 8, "rounds": 3})
		racelog := filepath.Join(dir, "race")
		pr := stage.Run(stage.Proc{Path: bin, Args: []string{"concurrent"}, Stdin: req, Dir: dir, CPUSec: 300, Env: append(os.Environ(), "GORACE=halt_on_error=0 log_path="+racelog)})
		var r res
		ms, _ := filepath.Glob(racelog + ".*")
		for _, m := range ms {
			t, _ := os.ReadFile(m)
			r.reports += strings.Count(string(t), "WARNING: DATA RACE")
			if len(r.text) < 20000 {
				r.text += string(t)
			}
		}
		var summary struct {
			Runs     int      `json:"runs"`
			Distinct int      `json:"distinct"`
			Panics   []string `json:"panics"`
		}
		if json.Unmarshal(pr.Stdout, &summary) == nil {
			r.runs = summary.Runs
			if summary.Distinct > 1 || len(summary.Panics) > 0 {
				r.distinct = fmt.Sprintf("options=%v files=%v: %d distinct outcomes over %d concurrent runs; panics=%v", c.opts, files, summary.Distinct, summary.Runs, summary.Panics)
			}
		}
		out[i] = r
		_ = os.RemoveAll(dir)
	})
	for _, r := range out {
		runs += r.runs
		reports += r.reports
		if r.distinct != "" && distinct == "" {
			distinct = r.distinct
		}
		if r.text != "" && len(text) < 40000 {
			text += r.text
		}
	}
	return
}
