package checks

import (
	"fmt"
	"sort"

	"verif/internal/docgen"
	"verif/internal/jsonx"
	"verif/internal/sem"
	"verif/internal/sg"
)

func init() { Register("C11", c11) }

// composeCase builds root {c: allOf|anyOf [branches]} with disjoint property sets and one document per subset of branches.
func composeCase(r *sg.Rng, kind string, n int, hazard bool, idx int) *sem.Case {
	g := sg.NewGen(r, sg.Opts{NoFormats: true})
	dg := &docgen.G{R: r, NoMulti: true}
	var branches []*sg.Schema
	var defs []sg.Prop
	var bdocs []jsonx.Obj    // a valid document of each branch (all its keys)
	var breaks [][]jsonx.Obj // ways to make branch i fail, as replacement key sets
	for i := 0; i < n; i++ {
		b := &sg.Schema{Types: []string{"object"}}
		np := 1 + r.IntN(3)
		valid := jsonx.Obj{}
		for k := 0; k < np; k++ {
			name := fmt.Sprintf("b%dk%d", i, k)
			var p *sg.Schema
			switch r.IntN(5) {
			case 0:
				p = g.String()
			case 1:
				p = g.Integer()
			case 2:
				p = &sg.Schema{Types: []string{"boolean"}}
			case 3:
				p = g.Number()
			default:
				p = &sg.Schema{Types: []string{"object"}, Props: []sg.Prop{{Name: "in", S: g.Integer()}}, Required: []string{"in"}}
			}
			v, ok := dg.Valid(p, docgen.Maximal)
			if !ok || v == nil {
				p = &sg.Schema{Types: []string{"integer"}}
				v = jsonx.N(int64(7 + i))
			}
			b.Props = append(b.Props, sg.Prop{Name: name, S: p})
			valid = append(valid, jsonx.KV{K: name, V: v})
			if k == 0 || r.Chance(0.4) {
				b.Required = append(b.Required, name)
			}
		}
		// failing variants: drop the first required key; or (if constrained scalar) a value the model rejects
		var brk []jsonx.Obj
		brk = append(brk, valid.Del(b.Required[0]))
		for _, p := range b.Props {
			ms := dg.Mutants(p.S, mustGet(valid, p.Name), docgen.Classes{"bound": true, "string": true}, 4, false)
			for _, m := range ms {
				if !docAccepts(p.S, m.V) {
					brk = append(brk, valid.Set(p.Name, m.V))
					break
				}
			}
			if hazard {
				// type fault on a key only this branch declares (recorded finding anyof-merged for anyOf)
				var tv any = "wrong-type"
				if t, _, _ := p.S.NonNullType(); t == "string" {
					tv = jsonx.N(5)
				}
				brk = append(brk, valid.Set(p.Name, tv))
			}
		}
		bdocs = append(bdocs, valid)
		breaks = append(breaks, brk)
		if r.Chance(0.35) {
			name := fmt.Sprintf("Br%d", i)
			defs = append(defs, sg.Prop{Name: name, S: b})
			branches = append(branches, &sg.Schema{Ref: "#/$defs/" + name, Target: b})
		} else {
			branches = append(branches, b)
		}
	}
	// overlapping property sets (allOf): one key declared by 2-3 branches with complementary keywords, so the
	// conjunction is tighter than any single branch; values violating exactly one branch's view must be rejected
	type overlapDoc struct {
		v     any
		label string
	}
	var overlaps []overlapDoc
	if kind == "allOf" && n >= 2 && r.Chance(0.6) {
		var views []*sg.Schema
		var good any
		var bads []any
		if r.Chance(0.5) {
			views = []*sg.Schema{{Types: []string{"string"}, MinLen: 2}, {Types: []string{"string"}, MaxLen: 5}, {Types: []string{"string"}, Pattern: "^[a-z]+$"}}
			good = "abc"
			bads = []any{"a", "abcdefgh", "ABC"}
		} else {
			views = []*sg.Schema{{Types: []string{"integer"}, Min: sg.Fp(2)}, {Types: []string{"integer"}, Max: sg.Fp(9)}, {Types: []string{"integer"}, MultipleOf: sg.Fp(3)}}
			good = jsonx.N(6)
			bads = []any{jsonx.N(0), jsonx.N(12), jsonx.N(7)}
		}
		k := 2
		if n >= 3 && r.Chance(0.5) {
			k = 3
		}
		perm := r.Perm(n)[:k]
		for vi, bi := range perm {
			b := branches[bi].Resolve()
			b.Props = append(b.Props, sg.Prop{Name: "shared", S: views[vi]})
			if vi == 0 && r.Chance(0.5) {
				b.Required = append(b.Required, "shared")
			}
		}
		for i := range bdocs {
			bdocs[i] = bdocs[i].Del("shared")
		}
		overlaps = append(overlaps, overlapDoc{good, "overlap-all-views-satisfied"})
		for vi := 0; vi < k; vi++ {
			overlaps = append(overlaps, overlapDoc{bads[vi], fmt.Sprintf("overlap-view-%d-violated", vi)})
		}
	}
	comp := &sg.Schema{}
	if r.Chance(0.5) {
		comp.Types = []string{"object"}
	}
	if kind == "allOf" {
		comp.AllOf = branches
	} else {
		comp.AnyOf = branches
	}
	root := &sg.Schema{Types: []string{"object"}, Props: []sg.Prop{{Name: "c", S: comp}, {Name: "other", S: &sg.Schema{Types: []string{"string"}}}}, Defs: defs}
	pos := r.IntN(5)
	switch pos {
	case 0:
		root.Required = []string{"c"}
	case 2: // as array items
		root.Props[0].S = &sg.Schema{Types: []string{"array"}, Items: comp}
	case 3: // as a definition of its own, referred to
		root.Defs = append(root.Defs, sg.Prop{Name: "Composed", S: comp})
		root.Props[0].S = &sg.Schema{Ref: "#/$defs/Composed", Target: comp}
	case 4: // the document root itself
		comp.Types = []string{"object"}
		comp.Defs = defs
		root = comp
	}
	wrap := func(o jsonx.Obj) any {
		switch pos {
		case 2:
			return jsonx.Obj{{K: "c", V: []any{o}}, {K: "other", V: "x"}}
		case 4:
			return o
		}
		return jsonx.Obj{{K: "c", V: o}, {K: "other", V: "x"}}
	}
	c := &sem.Case{Root: root, Sig: fmt.Sprintf("%s n=%d pos=%d hazard=%v %s", kind, n, pos, hazard, comp.Sig())}
	for mask := 0; mask < 1<<n; mask++ {
		for variant := 0; variant < 3; variant++ {
			o := jsonx.Obj{}
			for i := 0; i < n; i++ {
				if mask&(1<<i) != 0 {
					o = append(o, bdocs[i]...)
				} else {
					brk := breaks[i]
					o = append(o, brk[(variant+idx)%len(brk)]...)
				}
			}
			c.Docs = append(c.Docs, docgen.Doc{V: wrap(o), Class: "subset", Label: fmt.Sprintf("%s-subset-%b-of-%d", kind, mask, n)})
			if mask == 1<<n-1 {
				break
			}
		}
	}
	for _, ov := range overlaps {
		o := jsonx.Obj{}
		for i := 0; i < n; i++ {
			o = append(o, bdocs[i]...)
		}
		o = append(o, jsonx.KV{K: "shared", V: ov.v})
		c.Docs = append(c.Docs, docgen.Doc{V: wrap(o), Class: "overlap", Label: ov.label})
	}
	if len(overlaps) > 0 {
		// the subset documents must carry a valid shared value where all declaring branches are in S; simplest: add it everywhere
		for i := range c.Docs {
			if c.Docs[i].Class != "subset" {
				continue
			}
			if pos == 4 {
				c.Docs[i].V = c.Docs[i].V.(jsonx.Obj).Set("shared", overlaps[0].v)
			} else {
				c.Docs[i].V = withShared(c.Docs[i].V, overlaps[0].v, pos == 2)
			}
		}
		c.Sig += " overlap"
	}
	return c
}

func withShared(doc any, v any, inArray bool) any {
	o := doc.(jsonx.Obj)
	cv, _ := o.Get("c")
	if inArray {
		a := cv.([]any)
		inner := a[0].(jsonx.Obj)
		return o.Set("c", []any{inner.Set("shared", v)})
	}
	return o.Set("c", cv.(jsonx.Obj).Set("shared", v))
}

func mustGet(o jsonx.Obj, k string) any { v, _ := o.Get(k); return v }

func docAccepts(s *sg.Schema, v any) bool {
	return modelAccept(s, v)
}

func c11(ctx *Ctx) (*Outcome, error) {
	var cases []*sem.Case
	n := ctx.N(400, 6000)
	for i := 0; i < n; i++ {
		r := sg.NewRng(ctx.Seed, fmt.Sprintf("C11-case-%d", i))
		kind := "allOf"
		if i%2 == 1 {
			kind = "anyOf"
		}
		cases = append(cases, composeCase(r, kind, 1+(i/2)%4, i%10 >= 8, i))
	}
	for i := 0; i < ctx.N(24, 96); i++ {
		cases = append(cases, sharedNodeCase(i, sg.NewRng(ctx.Seed, fmt.Sprintf("C11-shared-%d", i))))
	}
	cases = append(cases, sharedNodeWitness())
	for i := 0; i < ctx.N(8, 32); i++ {
		cases = append(cases, crossBranchCase(i, sg.NewRng(ctx.Seed, fmt.Sprintf("C11-cross-%d", i))))
	}
	for i := 0; i < 24; i++ {
		cases = append(cases, sharedBranchAnyOfCase(i))
	}
	for i := 0; i < 8; i++ {
		cases = append(cases, anyOfOverlapCase(i))
	}
	for i := 0; i < 6; i++ {
		cases = append(cases, nullableBranchCase(i))
	}
	for i := 0; i < 16; i++ {
		cases = append(cases, nestedOverlapCase(i))
	}
	for i := 0; i < 9; i++ {
		cases = append(cases, refSiblingCase(i))
	}
	for i := 0; i < 12; i++ {
		cases = append(cases, mixinBranchCase(i))
	}
	for i := 0; i < 12; i++ {
		cases = append(cases, caseDefCompositionCase(i))
	}
	for i := 0; i < 8; i++ {
		cases = append(cases, typedAllOfDefinitionCase(i))
	}
	for i := 0; i < 9; i++ {
		cases = append(cases, nestedSameDefCase(i))
	}
	for i := 0; i < 6; i++ {
		cases = append(cases, propsNextToAllOfCase(i))
	}
	for i := 0; i < 3; i++ {
		cases = append(cases, allOfOrderArrayLimitCase(i))
	}
	for i := 0; i < 24; i++ {
		cases = append(cases, branchFieldCollisionCase(i))
	}
	for i := 0; i < ctx.N(12, 90); i++ {
		if c := sameRefTextTwinCase(ctx, i, sg.NewRng(ctx.Seed, fmt.Sprintf("C11-twin-%d", i)), 1<<30); c != nil {
			cases = append(cases, c)
		}
	}
	cfg := &sem.Config{Prop: "C11", Tier: ctx.Tier, Seed: ctx.Seed, Cases: cases, Classes: docgen.Classes{"required": true, "type": true, "bound": true, "string": true}, Valid: 3, PerSite: 2, MaxDocs: 110,
		Env: ctx.Env, Values: true, Own: nil}
	rep, err := sem.Run(cfg)
	if err != nil {
		return nil, err
	}
	o := FromSem(ctx, rep, "allOf/anyOf lists of 1-4 object branches (inline or $ref, disjoint property sets, own required and scalar constraints) at required/optional/array-item positions; for every subset S of the branches documents satisfying exactly S (branches outside S failed by a missing required key or a violated scalar constraint; in the hazard share also by a type fault, which is the recorded anyof-merged finding); allOf must accept iff S=all, anyOf iff S non-empty; the all-branches document must round-trip every branch's properties (union exposed); plus single-fault mutants of valid documents",
		3000, commonAssumptions)
	return o, nil
}

// crossBranchCase: allOf branches that speak about each other's keys - a branch requires a key that a sibling
// declares (requiring branch first or last, inline or $ref, with or without properties of its own), and two branches
// declare one key with different but compatible types (integer in one, number in the other: the conjunction is integer).
func crossBranchCase(i int, r *sg.Rng) *sem.Case {
	str := func() *sg.Schema { return &sg.Schema{Types: []string{"string"}} }
	party := &sg.Schema{Types: []string{"object"}, Props: []sg.Prop{{Name: "name", S: str()}, {Name: "email", S: str()}}, Required: []string{"name"}}
	requiring := &sg.Schema{Types: []string{"object"}, Props: []sg.Prop{{Name: "vatId", S: str()}}, Required: []string{"vatId", "email"}}
	if i%4 == 3 {
		requiring = &sg.Schema{Required: []string{"email"}} // a branch that only requires
	}
	pref := &sg.Schema{Ref: "#/$defs/Party", Target: party}
	seller := &sg.Schema{AllOf: []*sg.Schema{pref, requiring}}
	if i%2 == 1 {
		seller = &sg.Schema{AllOf: []*sg.Schema{requiring, pref}}
	}
	contact := &sg.Schema{AllOf: []*sg.Schema{
		{Types: []string{"object"}, Props: []sg.Prop{{Name: "kind", S: str()}}, Required: []string{"kind", "phone"}},
		{Types: []string{"object"}, Props: []sg.Prop{{Name: "phone", S: str()}}},
	}}
	shipTo := &sg.Schema{Types: []string{"object"}, AllOf: []*sg.Schema{
		{Types: []string{"object"}, Props: []sg.Prop{{Name: "city", S: str()}, {Name: "country", S: str()}}, Required: []string{"country"}},
		{Types: []string{"object"}, Props: []sg.Prop{{Name: "zip", S: str()}}, Required: []string{"city"}},
	}}
	if (i/2)%2 == 1 {
		shipTo.Types = nil
	}
	parcel := &sg.Schema{AllOf: []*sg.Schema{
		{Types: []string{"object"}, Props: []sg.Prop{{Name: "weight", S: &sg.Schema{Types: []string{"integer"}}}, {Name: "count", S: &sg.Schema{Types: []string{"integer"}}}}},
		{Types: []string{"object"}, Props: []sg.Prop{{Name: "weight", S: &sg.Schema{Types: []string{"number"}}}, {Name: "unit", S: str()}}},
	}}
	root := &sg.Schema{Types: []string{"object"}, Defs: []sg.Prop{{Name: "Party", S: party}}, Props: []sg.Prop{
		{Name: "seller", S: seller}, {Name: "contacts", S: &sg.Schema{Types: []string{"array"}, Items: contact}}, {Name: "shipTo", S: shipTo}, {Name: "parcel", S: parcel},
		{Name: "buyer", S: &sg.Schema{Ref: "#/$defs/Party", Target: party}},
	}}
	c := &sem.Case{Root: root, Sig: fmt.Sprintf("cross-branch/%d", i%8)}
	full := map[string]jsonx.Obj{
		"seller":  {{K: "name", V: "n"}, {K: "email", V: "e"}, {K: "vatId", V: "v"}},
		"contact": {{K: "kind", V: "k"}, {K: "phone", V: "p"}},
		"shipTo":  {{K: "city", V: "c"}, {K: "country", V: "y"}, {K: "zip", V: "z"}},
		"parcel":  {{K: "weight", V: jsonx.N(2)}, {K: "count", V: jsonx.N(1)}, {K: "unit", V: "kg"}},
		"buyer":   {{K: "name", V: "n"}},
	}
	if i%4 == 3 {
		full["seller"] = full["seller"].Del("vatId")
	}
	wrap := func(key string, o jsonx.Obj) any {
		if key == "contact" {
			return jsonx.Obj{{K: "contacts", V: []any{o}}}
		}
		return jsonx.Obj{{K: key, V: o}}
	}
	for key, o := range full {
		c.Docs = append(c.Docs, docgen.Doc{V: wrap(key, o), Class: "crossbranch", Label: key + "-complete"})
		for _, kv := range o {
			c.Docs = append(c.Docs, docgen.Doc{V: wrap(key, o.Del(kv.K)), Class: "crossbranch", Label: key + "-without-" + kv.K})
		}
	}
	for _, w := range []any{"x", true, []any{}, jsonx.Obj{}, jsonx.Num("1.5"), jsonx.N(3), jsonx.Num("-7")} {
		c.Docs = append(c.Docs, docgen.Doc{V: wrap("parcel", full["parcel"].Set("weight", w)), Class: "crossbranch", Label: "parcel-weight-type"})
	}
	sort.Slice(c.Docs, func(a, b int) bool { return string(jsonx.Marshal(c.Docs[a].V)) < string(jsonx.Marshal(c.Docs[b].V)) })
	return c
}
