package checks

import (
	"fmt"

	"verif/internal/batch"
	"verif/internal/docgen"
	"verif/internal/jsonx"
	"verif/internal/sem"
	"verif/internal/sg"
)

// Strata written for the round-11 seeded changes (DESIGN §7.2).

// nearTwinVariants is the number of one-keyword differences nearTwinCase knows.
const nearTwinVariants = 20

// nearTwinCase: two schema nodes that contend for ONE Go type name and are equal except for a single keyword somewhere
// inside them (an array limit, a string limit, a bound, an enum member, a required name, a default, a nullable type, the
// additional-properties type ...). The generator decides "same declaration, reuse it" by comparing the two nodes; a
// comparison that overlooks the keyword makes the second position enforce the first one's rules. Layouts: two inline
// objects reached over different property paths (`cache.peer_hosts` / `cache_peer.hosts`, in both orders of who carries
// the variant) and two definitions whose names normalise alike. Documents come from the document generator (every site
// of both twins gets its boundary values), judged by the reference model on each position's own schema.
func nearTwinCase(i int) *sem.Case {
	v := i % nearTwinVariants
	layout := (i / nearTwinVariants) % 3
	str := func() *sg.Schema { return &sg.Schema{Types: []string{"string"}} }
	mk := func(variant bool) *sg.Schema {
		o := &sg.Schema{Types: []string{"object"}}
		add := func(n string, s *sg.Schema) { o.Props = append(o.Props, sg.Prop{Name: n, S: s}) }
		switch {
		case v <= 2 || v == 17: // array limits and item rules
			names := &sg.Schema{Types: []string{"array"}, Items: &sg.Schema{Types: []string{"string"}, MinLen: 1}, MinItems: 1, MaxItems: 2}
			if variant {
				switch v {
				case 0:
					names.MinItems = 2
				case 1:
					names.MaxItems = 4
				case 2:
					names.Items.MinLen = 3
				case 17:
					names.MinItems, names.MaxItems = 3, 5
				}
			}
			add("names", names)
			add("note", str())
			o.Required = []string{"names"}
		case v <= 5: // string rules
			code := &sg.Schema{Types: []string{"string"}, MinLen: 2, MaxLen: 5, Pattern: "^[a-z]+$"}
			if variant {
				switch v {
				case 3:
					code.MinLen = 3
				case 4:
					code.MaxLen = 4
				case 5:
					code.Pattern = "^[a-z0-9]+$"
				}
			}
			add("code", code)
			add("n", &sg.Schema{Types: []string{"integer"}})
		case v <= 9: // numeric rules
			level := &sg.Schema{Types: []string{"integer"}, Min: sg.Fp(1), Max: sg.Fp(10)}
			ratio := &sg.Schema{Types: []string{"number"}, ExMin: 0.0, Max: sg.Fp(1)}
			if variant {
				switch v {
				case 6:
					level.Min = sg.Fp(3)
				case 7:
					level.Max = sg.Fp(7)
				case 8:
					ratio.ExMin = 0.25
				case 9:
					level.MultipleOf = sg.Fp(2)
				}
			}
			add("level", level)
			add("ratio", ratio)
		case v == 10: // enum members
			mode := &sg.Schema{Types: []string{"string"}, HasEnum: true, Enum: []any{"a", "b"}}
			if variant {
				mode.Enum = []any{"a", "c"}
			}
			add("mode", mode)
			add("note", str())
		case v == 11: // required names
			add("code", str())
			add("note", str())
			o.Required = []string{"code"}
			if variant {
				o.Required = []string{"code", "note"}
			}
		case v == 12: // default
			opt := &sg.Schema{Types: []string{"string"}, Default: "d", HasDefault: true}
			if variant {
				opt.Default = "e"
			}
			add("opt", opt)
			add("n", &sg.Schema{Types: []string{"integer"}})
		case v == 13: // nullable
			level := &sg.Schema{Types: []string{"integer"}, Min: sg.Fp(1)}
			if variant {
				level.Types = []string{"integer", "null"}
			}
			add("level", level)
			add("note", str())
			o.Required = []string{"level"}
		case v <= 15: // nested array limits
			inner := &sg.Schema{Types: []string{"array"}, Items: &sg.Schema{Types: []string{"integer"}}, MinItems: 1, MaxItems: 2}
			grid := &sg.Schema{Types: []string{"array"}, Items: inner, MaxItems: 3}
			if variant {
				if v == 14 {
					inner.MaxItems = 3
				} else {
					grid.MinItems = 1
				}
			}
			add("grid", grid)
			add("note", str())
		case v == 16: // additional-properties type (map object)
			extras := &sg.Schema{Types: []string{"object"}, AddProps: &sg.Schema{Types: []string{"integer"}}}
			if variant {
				extras.AddProps = str()
			}
			add("extras", extras)
			add("note", str())
		case v == 18: // item type
			ids := &sg.Schema{Types: []string{"array"}, Items: &sg.Schema{Types: []string{"integer"}}}
			if variant {
				ids.Items = &sg.Schema{Types: []string{"number"}}
			}
			add("ids", ids)
			add("note", str())
		default: // 19: a nested object's required list
			in := &sg.Schema{Types: []string{"object"}, Props: []sg.Prop{{Name: "host", S: str()}, {Name: "port", S: &sg.Schema{Types: []string{"integer"}}}}, Required: []string{"host"}}
			if variant {
				in.Required = []string{"host", "port"}
			}
			add("peer", in)
			add("note", str())
		}
		return o
	}
	first, second := mk(false), mk(true)
	if layout == 1 {
		first, second = second, first
	}
	root := &sg.Schema{Types: []string{"object"}}
	if layout < 2 {
		root.Props = []sg.Prop{
			{Name: "cache", S: &sg.Schema{Types: []string{"object"}, Props: []sg.Prop{{Name: "peer_hosts", S: first}}}},
			{Name: "cache_peer", S: &sg.Schema{Types: []string{"object"}, Props: []sg.Prop{{Name: "hosts", S: second}}}},
		}
	} else {
		root.Defs = []sg.Prop{{Name: "peer-hosts", S: first}, {Name: "peer_hosts", S: second}}
		root.Props = []sg.Prop{
			{Name: "a", S: &sg.Schema{Ref: "#/$defs/peer-hosts", Target: first}},
			{Name: "b", S: &sg.Schema{Ref: "#/$defs/peer_hosts", Target: second}},
			{Name: "list", S: &sg.Schema{Types: []string{"array"}, Items: &sg.Schema{Ref: "#/$defs/peer_hosts", Target: second}}},
		}
	}
	return &sem.Case{Root: root, Sig: fmt.Sprintf("near-twin/%d/%d", v, layout), Classes: docgen.AllClasses, AllOwn: true}
}

// emptyIntervalCase: numeric positions whose stated bounds meet in ONE point or in none - lower and upper constant
// equal with every mixture of inclusive / exclusive (numeric and boolean form), or crossed - for integer and number at
// required, optional, nullable and definition positions. "The effective interval is the intersection of all stated
// bounds": [a,a] admits exactly a, the half-open and open forms and the crossed ones admit nothing.
func emptyIntervalCase(i int) *sem.Case {
	form := i % 9
	typ := []string{"integer", "number"}[(i/9)%2]
	a := []float64{3, 0, -2, 127}[(i/18)%4]
	mk := func() *sg.Schema {
		s := &sg.Schema{Types: []string{typ}}
		switch form {
		case 0: // [a,a]
			s.Min, s.Max = sg.Fp(a), sg.Fp(a)
		case 1: // [a,a)
			s.Min, s.ExMax = sg.Fp(a), a
		case 2: // (a,a]
			s.ExMin, s.Max = a, sg.Fp(a)
		case 3: // (a,a)
			s.ExMin, s.ExMax = a, a
		case 4: // draft-4: [a,a) with the boolean
			s.Min, s.Max, s.ExMax = sg.Fp(a), sg.Fp(a), true
		case 5: // draft-4: (a,a]
			s.Min, s.Max, s.ExMin = sg.Fp(a), sg.Fp(a), true
		case 6: // crossed
			s.Min, s.Max = sg.Fp(a+1), sg.Fp(a)
		case 7: // [a, a+1) : one integer
			s.Min, s.ExMax = sg.Fp(a), a+1
		default: // (a-1, a] : one integer
			s.ExMin, s.Max = a-1, sg.Fp(a)
		}
		return s
	}
	def := mk()
	nul := mk()
	nul.Types = []string{typ, "null"}
	root := &sg.Schema{Types: []string{"object"}, Defs: []sg.Prop{{Name: "Pin", S: def}},
		Props: []sg.Prop{{Name: "req", S: mk()}, {Name: "opt", S: mk()}, {Name: "nul", S: nul}, {Name: "ref", S: &sg.Schema{Ref: "#/$defs/Pin", Target: def}},
			{Name: "list", S: &sg.Schema{Types: []string{"array"}, Items: &sg.Schema{Ref: "#/$defs/Pin", Target: def}}}, {Name: "name", S: &sg.Schema{Types: []string{"string"}}}}}
	c := &sem.Case{Root: root, Sig: fmt.Sprintf("empty-interval/%d/%s", form, typ), NoAuto: true}
	vals := []any{jsonx.F(a - 1), jsonx.F(a), jsonx.F(a + 1)}
	if typ == "number" {
		vals = append(vals, jsonx.F(a-0.5), jsonx.F(a+0.5))
	}
	for _, key := range []string{"req", "opt", "nul", "ref"} {
		for _, v := range vals {
			c.Docs = append(c.Docs, docgen.Doc{V: jsonx.Obj{{K: "name", V: "n"}, {K: key, V: v}}, Class: "bound", Label: "pinned-" + key})
		}
	}
	for _, v := range vals {
		c.Docs = append(c.Docs, docgen.Doc{V: jsonx.Obj{{K: "list", V: []any{v}}}, Class: "bound", Label: "pinned-item"})
	}
	c.Docs = append(c.Docs, docgen.Doc{V: jsonx.Obj{{K: "name", V: "n"}}, Class: "valid", Label: "all-absent"},
		docgen.Doc{V: jsonx.Obj{{K: "nul", V: nil}}, Class: "nullok", Label: "null"})
	return c
}

// propertyCountCase: objects that state minProperties / maxProperties (keywords the generator reads past today) next
// to declared properties with rules and defaults of their own - at the root, as an inline property (plain, nullable,
// map-typed), behind a $ref and as array items. Every document respects the key counts, so it is valid - or breaks
// exactly one implemented rule - whatever is made of the two keywords. C17 decodes them through both paths, C19 adds
// null and wrongly shaped values at every object position.
func propertyCountCase(i int) *sem.Case {
	limits := []jsonx.Obj{
		{{K: "minProperties", V: jsonx.N(1)}},
		{{K: "maxProperties", V: jsonx.N(4)}},
		{{K: "minProperties", V: jsonx.N(1)}, {K: "maxProperties", V: jsonx.N(4)}},
	}[i%3]
	mk := func() *sg.Schema {
		return &sg.Schema{Types: []string{"object"}, Extra: limits, Props: []sg.Prop{
			{Name: "name", S: &sg.Schema{Types: []string{"string"}, MinLen: 2, Pattern: "^[a-z]+$"}},
			{Name: "count", S: &sg.Schema{Types: []string{"integer"}, Min: sg.Fp(1), Max: sg.Fp(9)}},
			{Name: "label", S: &sg.Schema{Types: []string{"string"}, Default: "none", HasDefault: true, MaxLen: 6}},
			{Name: "size", S: &sg.Schema{Types: []string{"number"}, ExMax: 10.0}},
		}, Required: []string{"name"}}
	}
	layout := (i / 3) % 4
	var root *sg.Schema
	wrap := func(o any) any { return o }
	switch layout {
	case 0:
		root = mk()
	case 1:
		owner := mk()
		nul := mk()
		nul.Types = []string{"object", "null"}
		free := &sg.Schema{Types: []string{"object"}, AddProps: &sg.Schema{Types: []string{"integer"}}, Extra: limits}
		root = &sg.Schema{Types: []string{"object"}, Extra: limits, Props: []sg.Prop{{Name: "owner", S: owner}, {Name: "backup", S: nul}, {Name: "free", S: free}, {Name: "id", S: &sg.Schema{Types: []string{"integer"}, Min: sg.Fp(0)}}}, Required: []string{"owner"}}
		wrap = func(o any) any {
			return jsonx.Obj{{K: "owner", V: o}, {K: "backup", V: o}, {K: "free", V: jsonx.Obj{{K: "k", V: jsonx.N(1)}}}, {K: "id", V: jsonx.N(3)}}
		}
	case 2:
		d := mk()
		root = &sg.Schema{Types: []string{"object"}, Defs: []sg.Prop{{Name: "Owner", S: d}}, Props: []sg.Prop{{Name: "owner", S: &sg.Schema{Ref: "#/$defs/Owner", Target: d}}, {Name: "n", S: &sg.Schema{Types: []string{"integer"}, Max: sg.Fp(5)}}}, Extra: limits}
		wrap = func(o any) any { return jsonx.Obj{{K: "owner", V: o}, {K: "n", V: jsonx.N(2)}} }
	default:
		root = &sg.Schema{Types: []string{"object"}, Props: []sg.Prop{{Name: "owners", S: &sg.Schema{Types: []string{"array"}, Items: mk(), MinItems: 1}}}, Extra: limits}
		wrap = func(o any) any { return jsonx.Obj{{K: "owners", V: []any{o, o}}} }
	}
	c := &sem.Case{Root: root, Sig: fmt.Sprintf("property-count/%d/%d", i%3, layout), NoAuto: true, Args: []string{"--extra-imports"}}
	add := func(o jsonx.Obj, class, label string) {
		c.Docs = append(c.Docs, docgen.Doc{V: wrap(o), Class: class, Label: label})
	}
	add(jsonx.Obj{{K: "name", V: "abc"}}, "valid", "minimal")
	add(jsonx.Obj{{K: "name", V: "abc"}, {K: "count", V: jsonx.N(1)}, {K: "label", V: "x"}, {K: "size", V: jsonx.Num("9.5")}}, "valid", "maximal")
	add(jsonx.Obj{{K: "name", V: "abc"}, {K: "size", V: jsonx.N(4)}}, "default", "label-absent")
	add(jsonx.Obj{{K: "name", V: "abc"}, {K: "label", V: nil}}, "default", "label-null")
	add(jsonx.Obj{{K: "name", V: "a"}, {K: "count", V: jsonx.N(1)}}, "string", "name-short")
	add(jsonx.Obj{{K: "name", V: "ab1"}, {K: "count", V: jsonx.N(1)}}, "string", "name-pattern")
	add(jsonx.Obj{{K: "name", V: "abc"}, {K: "count", V: jsonx.N(0)}}, "bound", "count-low")
	add(jsonx.Obj{{K: "name", V: "abc"}, {K: "count", V: jsonx.N(10)}}, "bound", "count-high")
	add(jsonx.Obj{{K: "name", V: "abc"}, {K: "size", V: jsonx.N(10)}}, "bound", "size-high")
	add(jsonx.Obj{{K: "name", V: "abc"}, {K: "label", V: "toolong"}}, "string", "label-long")
	add(jsonx.Obj{{K: "count", V: jsonx.N(2)}}, "required", "name-absent")
	if layout == 1 {
		o := jsonx.Obj{{K: "name", V: "abc"}, {K: "count", V: jsonx.N(2)}}
		c.Docs = append(c.Docs, docgen.Doc{V: jsonx.Obj{{K: "owner", V: o}, {K: "backup", V: nil}, {K: "id", V: jsonx.N(1)}}, Class: "nullok", Label: "nullable-object-null"},
			docgen.Doc{V: jsonx.Obj{{K: "owner", V: o}, {K: "id", V: jsonx.N(-1)}}, Class: "bound", Label: "id-low"})
	}
	return c
}

// siblingCollisionSetCase: three to five sibling properties whose names normalise to ONE Go identifier, one of them
// being that identifier already ("Type" next to "@type", "type", "_type", "TYPE"), with colliders that sort before and
// after it - every subset of size >= 3 that contains the exact name, every sibling of another JSON type. Distinct
// fields, each key bound to its own field (a value of another sibling's type is rejected), on the root and nested.
func siblingCollisionSetCase(i int) *sem.Case {
	families := [][]string{
		{"@type", "Type", "type", "_type", "-type"},
		{"$id", "Id", "id", " id", "i_d"},
		{"_name", "Name", "name", "-name", "n_ame"},
		{"-x", "X", "x", "_x", "@x"},
		{" kind", "Kind", "kind", "@kind", "KIND"},
		{"#v1", "V1", "v1", "_v1", "v-1"},
		// a sibling whose OWN name spells what a renamed duplicate would be called
		{"a1", "A1", "a1.2", "a1_2", "a1-2"},
		{"x", "X", "x_2", "x.2", "X-3"},
		{"item", "Item", "item_2", "Item_3", "item 2"},
	}
	fam := families[i%len(families)]
	// subsets: always the exact name (index 1), plus a choice of the others
	masks := []int{0b00101, 0b00111, 0b01101, 0b10101, 0b01111, 0b11111, 0b11001, 0b01011}
	mask := masks[(i/len(families))%len(masks)] | 0b00010
	kinds := []func(k int) (*sg.Schema, any){
		func(k int) (*sg.Schema, any) { return &sg.Schema{Types: []string{"string"}, MinLen: 1}, fmt.Sprintf("s%d", k) },
		func(k int) (*sg.Schema, any) { return &sg.Schema{Types: []string{"integer"}}, jsonx.N(int64(10 + k)) },
		func(k int) (*sg.Schema, any) { return &sg.Schema{Types: []string{"boolean"}}, true },
		func(k int) (*sg.Schema, any) {
			return &sg.Schema{Types: []string{"array"}, Items: &sg.Schema{Types: []string{"integer"}}}, []any{jsonx.N(int64(k))}
		},
		func(k int) (*sg.Schema, any) {
			return &sg.Schema{Types: []string{"object"}, Props: []sg.Prop{{Name: "q", S: &sg.Schema{Types: []string{"integer"}}}}, Required: []string{"q"}}, jsonx.Obj{{K: "q", V: jsonx.N(int64(k))}}
		},
	}
	obj := &sg.Schema{Types: []string{"object"}}
	full := jsonx.Obj{}
	rot := (i / (len(families) * len(masks))) % 5
	for k, nme := range fam {
		if mask&(1<<k) == 0 {
			continue
		}
		s, v := kinds[(k+rot)%len(kinds)](k)
		obj.Props = append(obj.Props, sg.Prop{Name: nme, S: s})
		full = append(full, jsonx.KV{K: nme, V: v})
	}
	obj.Props = append(obj.Props, sg.Prop{Name: "other", S: &sg.Schema{Types: []string{"number"}}})
	nested := (i/len(families))%2 == 1
	root := obj
	wrap := func(o jsonx.Obj) any { return o }
	if nested {
		root = &sg.Schema{Types: []string{"object"}, Props: []sg.Prop{{Name: "rec", S: obj}, {Name: "list", S: &sg.Schema{Types: []string{"array"}, Items: obj}}}}
		wrap = func(o jsonx.Obj) any { return jsonx.Obj{{K: "rec", V: o}, {K: "list", V: []any{o}}} }
	}
	c := &sem.Case{Root: root, Sig: fmt.Sprintf("sibling-collision-set/%d/%05b", i%len(families), mask), NoAuto: true}
	c.Docs = append(c.Docs, docgen.Doc{V: wrap(full), Class: "collision", Label: "all-keys"}, docgen.Doc{V: wrap(jsonx.Obj{}), Class: "collision", Label: "no-keys"})
	for x, kv := range full {
		c.Docs = append(c.Docs, docgen.Doc{V: wrap(jsonx.Obj{kv}), Class: "collision", Label: "only-" + kv.K}, docgen.Doc{V: wrap(full.Del(kv.K)), Class: "collision", Label: "without-" + kv.K})
		// the value of the next sibling (another JSON type) under this key: a type fault
		other := full[(x+1)%len(full)]
		c.Docs = append(c.Docs, docgen.Doc{V: wrap(jsonx.Obj{{K: kv.K, V: other.V}}), Class: "type", Label: "foreign-value-under-" + kv.K})
	}
	return c
}

// intFormatCase: integer positions that carry an OpenAPI-style format annotation (int32, int64, uint8 ...; "format"
// says nothing about validity of numbers) with no, one-sided and two-sided bounds, at required / nullable / definition /
// item positions; documents on and next to every 8/16/32-bit limit on the open side. With --min-sized-ints the chosen
// type still has to hold every integer the BOUNDS admit.
func intFormatCase(i int) *sem.Case {
	formats := []string{"int32", "int64", "uint8", "int8", "int16", "uint16", "uint32", "uint64", "byte"}
	f := formats[i%len(formats)]
	shape := (i / len(formats)) % 6
	mk := func() *sg.Schema {
		s := &sg.Schema{Types: []string{"integer"}, Format: f}
		switch shape {
		case 1:
			s.Min = sg.Fp(0)
		case 2:
			s.Max = sg.Fp(100)
		case 3:
			s.Min = sg.Fp(-5)
		case 4:
			s.ExMin = float64(-1)
		case 5:
			s.Min, s.Max = sg.Fp(0), sg.Fp(70000)
		}
		return s
	}
	def := mk()
	nul := mk()
	nul.Types = []string{"integer", "null"}
	root := &sg.Schema{Types: []string{"object"}, Defs: []sg.Prop{{Name: "Width", S: def}}, Props: []sg.Prop{{Name: "req", S: mk()}, {Name: "opt", S: mk()}, {Name: "nul", S: nul},
		{Name: "ref", S: &sg.Schema{Ref: "#/$defs/Width", Target: def}}, {Name: "list", S: &sg.Schema{Types: []string{"array"}, Items: mk()}}}, Required: []string{"req"}}
	c := &sem.Case{Root: root, Sig: fmt.Sprintf("int-format/%s/%d", f, shape), NoAuto: true}
	for _, v := range []int64{0, 1, -1, 100, 101, -5, -6, 127, 128, -128, -129, 255, 256, 32767, 32768, -32768, -32769, 65535, 65536, 70000, 70001,
		2147483647, 2147483648, -2147483648, -2147483649, 4294967295, 4294967296, 1 << 40, -(1 << 40), 1 << 53, -(1 << 53), 1 << 62, -(1 << 62)} {
		c.Docs = append(c.Docs, docgen.Doc{V: jsonx.Obj{{K: "req", V: jsonx.N(v)}}, Class: "bound", Label: "limit-req"})
		if v%2 == 0 || v > 1<<31 || v < -(1<<31) {
			c.Docs = append(c.Docs, docgen.Doc{V: jsonx.Obj{{K: "req", V: jsonx.N(1)}, {K: "opt", V: jsonx.N(v)}, {K: "nul", V: jsonx.N(v)}}, Class: "bound", Label: "limit-opt"},
				docgen.Doc{V: jsonx.Obj{{K: "req", V: jsonx.N(1)}, {K: "ref", V: jsonx.N(v)}, {K: "list", V: []any{jsonx.N(1), jsonx.N(v)}}}, Class: "bound", Label: "limit-ref-item"})
		}
	}
	c.Docs = append(c.Docs, docgen.Doc{V: jsonx.Obj{{K: "req", V: jsonx.N(1)}, {K: "nul", V: nil}}, Class: "nullok", Label: "null"})
	return c
}

// definitionCycleCase: a cycle between FILES that runs over definitions - a.json#Alpha -> b.json#Beta ->
// a.json#<Back> - where the definition the cycle comes back to holds a reference of its own to a third file
// (code.json) next to it. The files sit in a sub-directory; the directory the generator runs in holds a decoy
// code.json with other rules. The back definition sorts after or before the one that is in progress, holds the file
// reference as a property, as array items or inside an allOf member, b is JSON or YAML. Whatever order the definitions are
// reached in, `code.json` means the document next to the one the reference is written in.
func definitionCycleCase(i int) *sem.Case {
	back := []string{"Gamma", "Aaa", "Omega"}[i%3]
	hold := (i / 3) % 3
	yaml := (i/9)%2 == 1
	fromDir := (i/18)%2 == 1
	bfile := "b.json"
	if yaml {
		bfile = "b.yaml"
	}
	const ver = "http://json-schema.org/draft-07/schema#"
	code := &sg.Schema{Types: []string{"string"}, MinLen: 5}
	codeFile := &sg.Schema{Version: ver, Defs: []sg.Prop{{Name: "Code", S: code}}}
	decoyFile := &sg.Schema{Version: ver, Defs: []sg.Prop{{Name: "Code", S: &sg.Schema{Types: []string{"string"}, MaxLen: 3}}}}
	alpha := &sg.Schema{Types: []string{"object"}}
	beta := &sg.Schema{Types: []string{"object"}}
	gamma := &sg.Schema{Types: []string{"object"}}
	codeRef := func() *sg.Schema { return &sg.Schema{Ref: "code.json#/$defs/Code", Target: code} }
	switch hold {
	case 0:
		gamma.Props = []sg.Prop{{Name: "code", S: codeRef()}}
	case 1:
		gamma.Props = []sg.Prop{{Name: "code", S: &sg.Schema{Types: []string{"array"}, Items: codeRef(), MaxItems: 2}}}
	default:
		gamma.Props = []sg.Prop{{Name: "code", S: codeRef()}, {Name: "label", S: &sg.Schema{Types: []string{"string"}}}}
		gamma.Required = []string{"label"}
	}
	gamma.Props = append(gamma.Props, sg.Prop{Name: "next", S: &sg.Schema{Ref: "#/$defs/Alpha", Target: alpha}})
	alpha.Props = []sg.Prop{{Name: "beta", S: &sg.Schema{Ref: bfile + "#/$defs/Beta", Target: beta}}, {Name: "n", S: &sg.Schema{Types: []string{"integer"}, Min: sg.Fp(1)}}}
	beta.Props = []sg.Prop{{Name: "gamma", S: &sg.Schema{Ref: "a.json#/$defs/" + back, Target: gamma}}}
	root := &sg.Schema{Version: ver, Types: []string{"object"}, Defs: []sg.Prop{{Name: "Alpha", S: alpha}, {Name: back, S: gamma}}, Props: []sg.Prop{{Name: "alpha", S: &sg.Schema{Ref: "#/$defs/Alpha", Target: alpha}}}}
	bFile := &sg.Schema{Version: ver, Defs: []sg.Prop{{Name: "Beta", S: beta}}}
	bdata := jsonx.MarshalIndent(bFile.ToJSON())
	if yaml {
		bdata = sg.ToYAML(bFile.ToJSON(), sg.YAMLBlock)
	}
	c := &sem.Case{Root: root, Sig: fmt.Sprintf("definition-cycle/%s/%d/%v/%v", back, hold, yaml, fromDir), NoAuto: true, RootFile: "types/a.json", Input: "types/a.json",
		Extra: []batch.File{{Path: "types/" + bfile, Data: bdata}, {Path: "types/code.json", Data: jsonx.MarshalIndent(codeFile.ToJSON())}, {Path: "code.json", Data: jsonx.MarshalIndent(decoyFile.ToJSON())}}}
	if fromDir {
		c.Cwd, c.Input = "types", "a.json"
	}
	wrapCode := func(v string) any {
		if hold == 1 {
			return []any{v}
		}
		return v
	}
	mk := func(depth int, codeV string) any {
		g := jsonx.Obj{{K: "code", V: wrapCode(codeV)}}
		if hold == 2 {
			g = append(g, jsonx.KV{K: "label", V: "l"})
		}
		cur := any(jsonx.Obj{{K: "beta", V: jsonx.Obj{{K: "gamma", V: g}}}, {K: "n", V: jsonx.N(1)}})
		for d := 0; d < depth; d++ {
			gg := jsonx.Obj{{K: "next", V: cur}}
			if hold == 2 {
				gg = append(gg, jsonx.KV{K: "label", V: "l"})
			}
			cur = jsonx.Obj{{K: "beta", V: jsonx.Obj{{K: "gamma", V: gg}}}}
		}
		return jsonx.Obj{{K: "alpha", V: cur}}
	}
	for _, d := range []int{0, 1, 5} {
		c.Docs = append(c.Docs, docgen.Doc{V: mk(d, "abcdefg"), Class: "deep", Label: fmt.Sprintf("cycle-depth-%d-code-long-enough", d)},
			docgen.Doc{V: mk(d, "ab"), Class: "deep", Label: fmt.Sprintf("cycle-depth-%d-code-too-short", d)},
			docgen.Doc{V: mk(d, "abcde"), Class: "deep", Label: fmt.Sprintf("cycle-depth-%d-code-at-limit", d)})
	}
	return c
}

// enumTripleCase: three enums that want ONE Go type name - A, B, B' with B' listing the same values as B and A others
// - in every order, as three definitions whose names normalise alike, as a definition called Mode in each of three
// files of one run, and as nested properties; typed and untyped strings, integers, numbers. Every position accepts
// exactly its own list (and the constants of every list exist - the C08 census).
func enumTripleCase(i int) *sem.Case {
	kind := i % 4
	orders := [][3]int{{0, 1, 1}, {1, 0, 1}, {1, 1, 0}, {0, 1, 0}, {0, 0, 1}, {1, 0, 0}}
	ord := orders[(i/4)%len(orders)]
	layout := (i / 24) % 3
	mk := func(which int) (*sg.Schema, []any, []any) {
		var vals [2][]any
		s := &sg.Schema{HasEnum: true}
		switch kind {
		case 0:
			s.Types = []string{"string"}
			vals = [2][]any{{"fast", "slow"}, {"on", "off"}}
		case 1:
			vals = [2][]any{{"fast", "slow"}, {"on", "off"}}
		case 2:
			s.Types = []string{"integer"}
			vals = [2][]any{{jsonx.N(1), jsonx.N(2)}, {jsonx.N(3), jsonx.N(4)}}
		default:
			s.Types = []string{"number"}
			vals = [2][]any{{jsonx.Num("0.5"), jsonx.Num("1.5")}, {jsonx.Num("0.25"), jsonx.Num("1.5")}}
		}
		s.Enum = vals[which]
		return s, vals[which], vals[1-which]
	}
	root := &sg.Schema{Types: []string{"object"}}
	c := &sem.Case{Root: root, Sig: fmt.Sprintf("enum-triple/%d/%v/%d", kind, ord, layout), NoAuto: true}
	names := [3]string{"Mode", "mode", "MODE"}
	all := jsonx.Obj{}
	for k := 0; k < 3; k++ {
		d, own, other := mk(ord[k])
		key := fmt.Sprintf("p%d", k)
		wrapV := func(v any) any { return v }
		switch layout {
		case 0:
			root.Defs = append(root.Defs, sg.Prop{Name: names[k], S: d})
			root.Props = append(root.Props, sg.Prop{Name: key, S: &sg.Schema{Ref: "#/$defs/" + names[k], Target: d}})
		case 1:
			file := fmt.Sprintf("lib/%s.json", []string{"alpha", "beta", "gamma"}[k])
			lib := &sg.Schema{Types: []string{"object"}, Defs: []sg.Prop{{Name: "Mode", S: d}}, Props: []sg.Prop{{Name: "m", S: &sg.Schema{Ref: "#/$defs/Mode", Target: d}}}}
			c.Extra = append(c.Extra, batch.File{Path: file, Data: jsonx.MarshalIndent(lib.ToJSON())})
			if k%2 == 0 {
				root.Props = append(root.Props, sg.Prop{Name: key, S: &sg.Schema{Ref: file + "#/$defs/Mode", Target: d}})
			} else {
				root.Props = append(root.Props, sg.Prop{Name: key, S: &sg.Schema{Types: []string{"array"}, Items: &sg.Schema{Ref: file + "#/$defs/Mode", Target: d}}})
				wrapV = func(v any) any { return []any{v} }
			}
		default:
			key = []string{"net", "net_", "Net"}[k]
			root.Props = append(root.Props, sg.Prop{Name: key, S: &sg.Schema{Types: []string{"object"}, Props: []sg.Prop{{Name: "mode", S: d}}}})
			wrapV = func(v any) any { return jsonx.Obj{{K: "mode", V: v}} }
		}
		all = append(all, jsonx.KV{K: key, V: wrapV(own[1])})
		for _, v := range own {
			c.Docs = append(c.Docs, docgen.Doc{V: jsonx.Obj{{K: key, V: wrapV(v)}}, Class: "enum", Label: "own-member"})
		}
		for _, v := range other {
			isOwn := false
			for _, o := range own {
				isOwn = isOwn || string(jsonx.Marshal(o)) == string(jsonx.Marshal(v))
			}
			if !isOwn {
				c.Docs = append(c.Docs, docgen.Doc{V: jsonx.Obj{{K: key, V: wrapV(v)}}, Class: "enum", Label: "member-of-the-other-list"})
			}
		}
	}
	c.Docs = append(c.Docs, docgen.Doc{V: all, Class: "enum", Label: "all-own"})
	return c
}

// sharedOutputCase: two or three schema files of one invocation, each with an id of its own and each NAMED in a mapping
// option (--schema-root-type, or --schema-package / --schema-output with the same value for all), all landing in ONE
// output file and package; with and without references between them. One file, one package clause, every
// declaration once (C01: the file is valid Go; C02: both root types decode their documents).
func sharedOutputCase(i int) *sem.Case {
	variant := i % 4
	withRef := (i/4)%2 == 1
	three := (i/8)%2 == 1
	mk := func(name string, k int) *sg.Schema {
		return &sg.Schema{ID: "https://example.com/shared-out/" + name, Types: []string{"object"}, Props: []sg.Prop{
			{Name: name + "No", S: &sg.Schema{Types: []string{"integer"}, Min: sg.Fp(float64(k))}}, {Name: "label", S: &sg.Schema{Types: []string{"string"}, MinLen: 1}}}, Required: []string{name + "No"}}
	}
	cust, inv, rec := mk("customer", 1), mk("invoice", 2), mk("receipt", 3)
	if withRef {
		inv.Props = append(inv.Props, sg.Prop{Name: "payer", S: &sg.Schema{Ref: "customer.json", Target: cust}})
	}
	c := &sem.Case{Root: cust, RootFile: "customer.json", Sig: fmt.Sprintf("shared-output/%d/%v/%v", variant, withRef, three), NoAuto: true}
	g1 := &sem.Case{Root: inv, RootFile: "invoice.json", Sig: c.Sig, NoAuto: true}
	c.Group = []*sem.Case{g1}
	roots := []*sg.Schema{cust, inv}
	if three {
		c.Group = append(c.Group, &sem.Case{Root: rec, RootFile: "receipt.json", Sig: c.Sig, NoAuto: true})
		roots = append(roots, rec)
	}
	typeNames := []string{"Customer", "Invoice", "Receipt"}
	units := append([]*sem.Case{c}, c.Group...)
	for k, r := range roots {
		switch variant {
		case 0: // root-type mappings only
			c.Args = append(c.Args, "--schema-root-type", r.ID+"="+typeNames[k])
			units[k].RootType = typeNames[k]
		case 1: // the same package and output spelled out for every id
			c.Args = append(c.Args, "--schema-package", r.ID+"={{PKG}}", "--schema-output", r.ID+"={{OUT}}/gen.go")
		case 2: // everything
			c.Args = append(c.Args, "--schema-root-type", r.ID+"="+typeNames[k], "--schema-package", r.ID+"={{PKG}}", "--schema-output", r.ID+"={{OUT}}/gen.go")
			units[k].RootType = typeNames[k]
		default: // only the later ones are mapped
			if k > 0 {
				c.Args = append(c.Args, "--schema-root-type", r.ID+"="+typeNames[k])
				units[k].RootType = typeNames[k]
			}
		}
	}
	names := []string{"customer", "invoice", "receipt"}
	for k, u := range units {
		n := names[k]
		u.Docs = append(u.Docs, docgen.Doc{V: jsonx.Obj{{K: n + "No", V: jsonx.N(int64(k + 1))}, {K: "label", V: "l"}}, Class: "valid", Label: "shared-output-valid"},
			docgen.Doc{V: jsonx.Obj{{K: n + "No", V: jsonx.N(int64(k))}}, Class: "bound", Label: "shared-output-low"},
			docgen.Doc{V: jsonx.Obj{{K: "label", V: "l"}}, Class: "required", Label: "shared-output-missing"})
	}
	if withRef {
		g1.Docs = append(g1.Docs, docgen.Doc{V: jsonx.Obj{{K: "invoiceNo", V: jsonx.N(2)}, {K: "payer", V: jsonx.Obj{{K: "customerNo", V: jsonx.N(1)}}}}, Class: "valid", Label: "shared-output-ref"},
			docgen.Doc{V: jsonx.Obj{{K: "invoiceNo", V: jsonx.N(2)}, {K: "payer", V: jsonx.Obj{{K: "label", V: "x"}}}}, Class: "required", Label: "shared-output-ref-missing"})
	}
	return c
}

// ---- round 12 ----

// nearTwinDefaultCase: two contenders for one type name that differ ONLY in an annotation-looking keyword which the
// generator does give a meaning: a `default` on a required property (it lifts the presence check), a default on an
// optional one, a title / description next to it (a pure annotation: both orders must behave alike anyway).
func nearTwinDefaultCase(i int) *sem.Case {
	v := i % 4
	swap := (i/4)%2 == 1
	mk := func(variant bool) *sg.Schema {
		mode := &sg.Schema{Types: []string{"string"}, MinLen: 2}
		o := &sg.Schema{Types: []string{"object"}, Props: []sg.Prop{{Name: "mode", S: mode}, {Name: "port", S: &sg.Schema{Types: []string{"integer"}, Min: sg.Fp(1)}}}, Required: []string{"mode"}}
		switch v {
		case 0: // the required key carries a default in one of the twins
			if variant {
				mode.Default, mode.HasDefault = "strict", true
			}
		case 1: // optional key with / without default
			o.Required = nil
			if variant {
				mode.Default, mode.HasDefault = "strict", true
			}
		case 2: // both have a default on the required key, with different values
			mode.Default, mode.HasDefault = "strict", true
			if variant {
				mode.Default = "loose"
			}
		default: // description only - and a different required list
			if variant {
				mode.Desc = "how strictly to verify"
				o.Required = []string{"mode", "port"}
			}
		}
		return o
	}
	first, second := mk(false), mk(true)
	if swap {
		first, second = second, first
	}
	root := &sg.Schema{Types: []string{"object"}, Props: []sg.Prop{
		{Name: "server", S: &sg.Schema{Types: []string{"object"}, Props: []sg.Prop{{Name: "tls", S: first}}}},
		{Name: "serverTls", S: second}}}
	c := &sem.Case{Root: root, Sig: fmt.Sprintf("near-twin-default/%d/%v", v, swap), NoAuto: true}
	for _, o := range []jsonx.Obj{{}, {{K: "mode", V: "ab"}}, {{K: "port", V: jsonx.N(1)}}, {{K: "mode", V: "ab"}, {K: "port", V: jsonx.N(2)}}, {{K: "mode", V: nil}}, {{K: "mode", V: "a"}}} {
		c.Docs = append(c.Docs, docgen.Doc{V: jsonx.Obj{{K: "server", V: jsonx.Obj{{K: "tls", V: o}}}}, Class: "twin", Label: "nested-twin"},
			docgen.Doc{V: jsonx.Obj{{K: "serverTls", V: o}}, Class: "twin", Label: "sibling-twin"})
	}
	return c
}

// fractionalIntBoundCase: integer positions with NON-integral bounds in every keyword form (inclusive, numeric
// exclusive, draft-4 boolean exclusive), positive and negative, lower and upper; documents on the integers next to the
// bound. (Where the unchanged generator truncates the bound toward zero the disagreement is the recorded finding
// int-bound-trunc; everything else - exclusive lower bound 2.5 admits 3 - is asserted.)
func fractionalIntBoundCase(i int) *sem.Case {
	b := []float64{2.5, -2.5, 0.5, -0.5, 7.25}[i%5]
	form := (i / 5) % 6
	mk := func() *sg.Schema {
		s := &sg.Schema{Types: []string{"integer"}}
		switch form {
		case 0:
			s.Min = sg.Fp(b)
		case 1:
			s.Max = sg.Fp(b)
		case 2:
			s.ExMin = b
		case 3:
			s.ExMax = b
		case 4:
			s.Min, s.ExMin = sg.Fp(b), true
		default:
			s.Max, s.ExMax = sg.Fp(b), true
		}
		return s
	}
	def := mk()
	nul := mk()
	nul.Types = []string{"integer", "null"}
	root := &sg.Schema{Types: []string{"object"}, Defs: []sg.Prop{{Name: "Level", S: def}}, Props: []sg.Prop{{Name: "req", S: mk()}, {Name: "nul", S: nul}, {Name: "ref", S: &sg.Schema{Ref: "#/$defs/Level", Target: def}}}, Required: []string{"req"}}
	c := &sem.Case{Root: root, Sig: fmt.Sprintf("fractional-int-bound/%d/%v", form, b), NoAuto: true}
	lo := int64(b) - 2
	for v := lo; v <= lo+5; v++ {
		c.Docs = append(c.Docs, docgen.Doc{V: jsonx.Obj{{K: "req", V: jsonx.N(v)}}, Class: "bound", Label: "next-to-fractional-bound"},
			docgen.Doc{V: jsonx.Obj{{K: "req", V: jsonx.N(lo + 2)}, {K: "nul", V: jsonx.N(v)}, {K: "ref", V: jsonx.N(v)}}, Class: "bound", Label: "next-to-fractional-bound-opt"})
	}
	return c
}

// nestedCompositionArrayCase: an allOf-composed definition (Account) with a property that is itself a composition
// ending in a reference to the SAME base (Profile = allOf[{tags, matrix}, $ref Audited]); the inner one is reached
// for the first time while the outer one is being merged (it sorts later, or is inline). Array limits at both nesting
// levels of the inner composition stay enforced.
func nestedCompositionArrayCase(i int) *sem.Case {
	audited := &sg.Schema{Types: []string{"object"}, Props: []sg.Prop{{Name: "rev", S: &sg.Schema{Types: []string{"integer"}, Min: sg.Fp(0)}}}}
	refA := func() *sg.Schema { return &sg.Schema{Ref: "#/$defs/Audited", Target: audited} }
	inner := &sg.Schema{Types: []string{"array"}, Items: &sg.Schema{Types: []string{"integer"}}, MinItems: 1, MaxItems: 2}
	own := &sg.Schema{Types: []string{"object"}, Props: []sg.Prop{{Name: "tags", S: &sg.Schema{Types: []string{"array"}, Items: &sg.Schema{Types: []string{"string"}}, MinItems: 1, MaxItems: 3}},
		{Name: "matrix", S: &sg.Schema{Types: []string{"array"}, Items: inner, MinItems: 1, MaxItems: 2}}}}
	// (typed compositions: a type-less composition behind a $ref is the recorded finding untyped-composition-definition)
	profile := &sg.Schema{Types: []string{"object"}, AllOf: []*sg.Schema{own, refA()}}
	names := [][2]string{{"Account", "Profile"}, {"Zaccount", "Profile"}, {"Account", "Profile"}}[i%3]
	var profProp *sg.Schema
	root := &sg.Schema{Types: []string{"object"}, Defs: []sg.Prop{{Name: "Audited", S: audited}}}
	if i%3 == 2 {
		profProp = profile // inline
	} else {
		root.Defs = append(root.Defs, sg.Prop{Name: names[1], S: profile})
		profProp = &sg.Schema{Ref: "#/$defs/" + names[1], Target: profile}
	}
	account := &sg.Schema{Types: []string{"object"}, AllOf: []*sg.Schema{{Types: []string{"object"}, Props: []sg.Prop{{Name: "profile", S: profProp}, {Name: "login", S: &sg.Schema{Types: []string{"string"}}}}}, refA()}}
	root.Defs = append(root.Defs, sg.Prop{Name: names[0], S: account})
	root.Props = []sg.Prop{{Name: "account", S: &sg.Schema{Ref: "#/$defs/" + names[0], Target: account}}}
	c := &sem.Case{Root: root, Sig: fmt.Sprintf("nested-composition-array/%d", i%3), NoAuto: true}
	strs := func(n int) []any {
		a := []any{}
		for k := 0; k < n; k++ {
			a = append(a, fmt.Sprintf("t%d", k))
		}
		return a
	}
	ints := func(n int) []any {
		a := []any{}
		for k := 0; k < n; k++ {
			a = append(a, jsonx.N(int64(k)))
		}
		return a
	}
	wrap := func(p jsonx.Obj) any { return jsonx.Obj{{K: "account", V: jsonx.Obj{{K: "login", V: "l"}, {K: "profile", V: p}}}} }
	for _, n := range []int{0, 1, 3, 4} {
		c.Docs = append(c.Docs, docgen.Doc{V: wrap(jsonx.Obj{{K: "tags", V: strs(n)}}), Class: "items", Label: fmt.Sprintf("tags-%d", n)})
	}
	for _, n := range []int{0, 1, 2, 3} {
		rows := []any{}
		for k := 0; k < n; k++ {
			rows = append(rows, ints(1))
		}
		c.Docs = append(c.Docs, docgen.Doc{V: wrap(jsonx.Obj{{K: "matrix", V: rows}}), Class: "items", Label: fmt.Sprintf("matrix-outer-%d", n)},
			docgen.Doc{V: wrap(jsonx.Obj{{K: "matrix", V: []any{ints(n)}}}), Class: "items", Label: fmt.Sprintf("matrix-inner-%d", n)})
	}
	c.Docs = append(c.Docs, docgen.Doc{V: wrap(jsonx.Obj{{K: "rev", V: jsonx.N(1)}}), Class: "valid", Label: "absent"}, docgen.Doc{V: wrap(jsonx.Obj{{K: "rev", V: jsonx.N(-1)}}), Class: "bound", Label: "base-rule"})
	return c
}

// multiTypeRuleCase: properties that list two non-null types (integer|string, number|boolean, string|integer ...) and
// state bounds / lengths / patterns next to them. What such a position enforces is outside the model (DESIGN §3.7);
// relationally, JSON and YAML must make the same of it, and nothing may panic.
func multiTypeRuleCase(i int) *sem.Case {
	lists := [][]string{{"integer", "string"}, {"string", "integer"}, {"number", "string"}, {"number", "boolean"}, {"integer", "boolean", "null"}, {"string", "array"}}
	tl := lists[i%len(lists)]
	port := &sg.Schema{Types: tl, Min: sg.Fp(1024), Max: sg.Fp(65535)}
	code := &sg.Schema{Types: tl, MinLen: 2, MaxLen: 4, Pattern: "^[a-z]+$"}
	ratio := &sg.Schema{Types: tl, ExMin: 0.0, MultipleOf: sg.Fp(0.5)}
	// (inline positions only: a NAMED multi-typed definition is declared with one of its types, and what the two
	// decoders make of the other type's values is scalar coercion - DESIGN §3.13)
	root := &sg.Schema{Types: []string{"object"}, Props: []sg.Prop{{Name: "port", S: port}, {Name: "code", S: code}, {Name: "ratio", S: ratio},
		{Name: "list", S: &sg.Schema{Types: []string{"array"}, Items: &sg.Schema{Types: tl, Max: sg.Fp(10)}}}}, Required: []string{"port"}}
	c := &sem.Case{Root: root, Sig: fmt.Sprintf("multi-type-rule/%d", i%len(lists)), NoAuto: true, Args: []string{"--extra-imports"}}
	vals := []any{jsonx.N(80), jsonx.N(8080), jsonx.N(70000), jsonx.Num("1.5"), jsonx.Num("0.25"), jsonx.N(0), jsonx.N(-1), "http", "x", "toolong", "AB", true, nil}
	for _, v := range vals {
		for _, k := range []string{"port", "code", "ratio"} {
			d := jsonx.Obj{{K: "port", V: jsonx.N(8080)}}
			d = d.Set(k, v)
			c.Docs = append(c.Docs, docgen.Doc{V: d, Class: "formatparity", Label: "multi-type-" + k})
		}
		c.Docs = append(c.Docs, docgen.Doc{V: jsonx.Obj{{K: "port", V: jsonx.N(8080)}, {K: "list", V: []any{v, jsonx.N(3)}}}, Class: "formatparity", Label: "multi-type-item"})
	}
	return c
}

// derivedNameCollisionCase: a definition whose NAME equals the type name DERIVED for an inline property of another
// definition (`Order.status` -> OrderStatus, next to a definition OrderStatus), enum / object / constrained string on
// either side, with references to the named definition from properties that sort before and after the inline one
// and from array items. Every position is held to its own schema.
func derivedNameCollisionCase(i int) *sem.Case {
	kind := i % 3
	mk := func(which int) (*sg.Schema, any, any) {
		switch kind {
		case 0:
			vals := [2][]any{{"open", "closed"}, {"new", "paid", "shipped"}}
			return &sg.Schema{Types: []string{"string"}, HasEnum: true, Enum: vals[which]}, vals[which][1], vals[1-which][1]
		case 1:
			if which == 0 {
				return &sg.Schema{Types: []string{"object"}, Props: []sg.Prop{{Name: "code", S: &sg.Schema{Types: []string{"integer"}}}}, Required: []string{"code"}}, jsonx.Obj{{K: "code", V: jsonx.N(1)}}, jsonx.Obj{{K: "text", V: "t"}}
			}
			return &sg.Schema{Types: []string{"object"}, Props: []sg.Prop{{Name: "text", S: &sg.Schema{Types: []string{"string"}}}}, Required: []string{"text"}}, jsonx.Obj{{K: "text", V: "t"}}, jsonx.Obj{{K: "code", V: jsonx.N(1)}}
		default:
			if which == 0 {
				return &sg.Schema{Types: []string{"string"}, MaxLen: 3}, "abc", "abcdef"
			}
			return &sg.Schema{Types: []string{"string"}, MinLen: 5}, "abcdef", "abc"
		}
	}
	inline, inGood, inBad := mk(0)
	named, nmGood, nmBad := mk(1)
	order := &sg.Schema{Types: []string{"object"}, Props: []sg.Prop{{Name: "status", S: inline}, {Name: "id", S: &sg.Schema{Types: []string{"integer"}}}}}
	ref := func() *sg.Schema { return &sg.Schema{Ref: "#/$defs/OrderStatus", Target: named} }
	switch (i / 3) % 3 {
	case 0: // the reference sits inside Order, after the inline property
		order.Props = append(order.Props, sg.Prop{Name: "wanted", S: ref()}, sg.Prop{Name: "trail", S: &sg.Schema{Types: []string{"array"}, Items: ref()}})
	case 1: // before it
		order.Props = append(order.Props, sg.Prop{Name: "earlier", S: ref()}, sg.Prop{Name: "a_trail", S: &sg.Schema{Types: []string{"array"}, Items: ref()}})
	}
	root := &sg.Schema{Types: []string{"object"}, Defs: []sg.Prop{{Name: "Order", S: order}, {Name: "OrderStatus", S: named}},
		Props: []sg.Prop{{Name: "order", S: &sg.Schema{Ref: "#/$defs/Order", Target: order}}, {Name: "zlast", S: ref()}}}
	if (i/9)%2 == 1 {
		root.Props = append(root.Props, sg.Prop{Name: "afirst", S: ref()})
	}
	c := &sem.Case{Root: root, Sig: fmt.Sprintf("derived-name-collision/%d/%d/%d", kind, (i/3)%3, (i/9)%2), NoAuto: true}
	c.Docs = append(c.Docs, docgen.Doc{V: jsonx.Obj{{K: "order", V: jsonx.Obj{{K: "status", V: inGood}}}}, Class: "collision", Label: "inline-own"},
		docgen.Doc{V: jsonx.Obj{{K: "order", V: jsonx.Obj{{K: "status", V: inBad}}}}, Class: "collision", Label: "inline-other"},
		docgen.Doc{V: jsonx.Obj{{K: "zlast", V: nmGood}}, Class: "collision", Label: "named-own"}, docgen.Doc{V: jsonx.Obj{{K: "zlast", V: nmBad}}, Class: "collision", Label: "named-other"})
	for _, p := range order.Props {
		if p.Name == "status" || p.Name == "id" {
			continue
		}
		g, b := any(nmGood), any(nmBad)
		if p.S.Items != nil {
			g, b = []any{nmGood}, []any{nmGood, nmBad}
		}
		c.Docs = append(c.Docs, docgen.Doc{V: jsonx.Obj{{K: "order", V: jsonx.Obj{{K: p.Name, V: g}}}}, Class: "collision", Label: "ref-own"}, docgen.Doc{V: jsonx.Obj{{K: "order", V: jsonx.Obj{{K: p.Name, V: b}}}}, Class: "collision", Label: "ref-other"})
	}
	if (i/9)%2 == 1 {
		c.Docs = append(c.Docs, docgen.Doc{V: jsonx.Obj{{K: "afirst", V: nmGood}}, Class: "collision", Label: "named-own"}, docgen.Doc{V: jsonx.Obj{{K: "afirst", V: nmBad}}, Class: "collision", Label: "named-other"})
	}
	return c
}

// percentStringCase: string properties whose NAMES contain percent signs (fmt verbs, %%, %!) and that carry
// minLength / maxLength / pattern, required and optional: the key still binds to its field, so the rules are enforced.
func percentStringCase(i int) *sem.Case {
	names := [][]string{{"cpu%", "plain"}, {"load%d", "a%sb"}, {"rate%%", "x%!y"}, {"%v", "q%[1]d"}}[i%4]
	obj := &sg.Schema{Types: []string{"object"}}
	for _, n := range names {
		obj.Props = append(obj.Props, sg.Prop{Name: n, S: &sg.Schema{Types: []string{"string"}, MinLen: 2, MaxLen: 4, Pattern: "^[0-9]+%?$"}})
	}
	if (i/4)%2 == 1 {
		obj.Required = names[:1]
	}
	root := &sg.Schema{Types: []string{"object"}, Props: []sg.Prop{{Name: "usage", S: obj}}}
	c := &sem.Case{Root: root, Sig: fmt.Sprintf("percent-string/%d", i%8), NoAuto: true}
	for _, n := range names {
		for _, v := range []string{"75%", "7", "12345", "ab", "10"} {
			d := jsonx.Obj{{K: names[0], V: "50%"}}
			d = d.Set(n, v)
			c.Docs = append(c.Docs, docgen.Doc{V: jsonx.Obj{{K: "usage", V: d}}, Class: "string", Label: "percent-name-" + n})
		}
	}
	return c
}

// spellingChainCase: one file reached under several spellings of its path inside one run - "file://lib/deep/def1"
// completed by --resolve-extension, "deep/def1.json" from a sibling directory's document, "../deep/def1.json", "./def1.json"
// - where the file itself holds a relative reference ("../def0.yaml") and its root type name is therefore taken
// when the second spelling arrives. The run must succeed, the file must come out as ONE Go type (census
// spellingChainCensus), and documents are held to the rules of def0 through every path. (The shape of the two
// defects repaired by 244ae57 / ebde6a3, found by the thorough tier.)
func spellingChainCase(i int) *sem.Case {
	def0 := &sg.Schema{Types: []string{"integer"}, HasEnum: true, Enum: []any{jsonx.N(7), jsonx.N(42)}}
	def1 := &sg.Schema{Types: []string{"object"}, Props: []sg.Prop{{Name: "iota", S: &sg.Schema{Types: []string{"integer"}, HasEnum: true, Enum: []any{jsonx.N(0), jsonx.N(7), jsonx.N(1)}}},
		{Name: "pi", S: &sg.Schema{Ref: "../def0.yaml", Target: def0}}, {Name: "eta", S: &sg.Schema{Types: []string{"string"}, HasEnum: true, Enum: []any{"amber", "blue"}}}}, Required: []string{"iota"}}
	def2 := &sg.Schema{Types: []string{"object"}, Props: []sg.Prop{{Name: "delta", S: &sg.Schema{Ref: "deep/def1.json", Target: def1}}}}
	def3 := &sg.Schema{Types: []string{"object"}, Props: []sg.Prop{{Name: "ups", S: &sg.Schema{Ref: "../def0.yaml", Target: def0}}, {Name: "xi", S: &sg.Schema{Ref: "../def2.json", Target: def2}}}}
	spell := []string{"file://lib/deep/def1", "lib/deep/def1", "./lib/deep/def1.json", "lib/deep/../deep/def1.json", "lib/../lib/deep/def1"}[i%5]
	root := &sg.Schema{Types: []string{"object"}, Props: []sg.Prop{{Name: "xi", S: &sg.Schema{Ref: "file://lib/deep/def3.json", Target: def3}},
		{Name: "rho", S: &sg.Schema{Types: []string{"array"}, Items: &sg.Schema{Ref: spell, Target: def1}}}}}
	if (i/5)%2 == 1 {
		// the other order of arrival: the direct reference sorts after the chain
		root.Props = []sg.Prop{{Name: "axi", S: &sg.Schema{Ref: "file://lib/deep/def3.json", Target: def3}}, {Name: "zrho", S: &sg.Schema{Types: []string{"array"}, Items: &sg.Schema{Ref: spell, Target: def1}}}}
	}
	c := &sem.Case{Root: root, Sig: fmt.Sprintf("spelling-chain/%d", i%10), NoAuto: true, RootFile: "main/sub/root.json", Input: "main/sub/root.json", Args: []string{"--resolve-extension", ".json"}, RootType: "Root",
		Extra: []batch.File{{Path: "main/sub/lib/def0.yaml", Data: sg.ToYAML(def0.ToJSON(), sg.YAMLBlock)}, {Path: "main/sub/lib/deep/def1.json", Data: jsonx.MarshalIndent(def1.ToJSON())},
			{Path: "main/sub/lib/def2.json", Data: jsonx.MarshalIndent(def2.ToJSON())}, {Path: "main/sub/lib/deep/def3.json", Data: jsonx.MarshalIndent(def3.ToJSON())},
			// a decoy next to the working directory: what "def0.yaml" must NOT mean
			{Path: "def0.yaml", Data: []byte("\"type\": \"string\"\n")}}}
	xi, rho := root.Props[0].Name, root.Props[1].Name
	d1 := func(pi any) jsonx.Obj { return jsonx.Obj{{K: "iota", V: jsonx.N(7)}, {K: "pi", V: pi}} }
	for _, pi := range []any{jsonx.N(7), jsonx.N(42), jsonx.N(8), "seven"} {
		c.Docs = append(c.Docs, docgen.Doc{V: jsonx.Obj{{K: rho, V: []any{d1(pi)}}}, Class: "deep", Label: "direct-spelling"},
			docgen.Doc{V: jsonx.Obj{{K: xi, V: jsonx.Obj{{K: "xi", V: jsonx.Obj{{K: "delta", V: d1(pi)}}}}}}, Class: "deep", Label: "through-the-chain"},
			docgen.Doc{V: jsonx.Obj{{K: xi, V: jsonx.Obj{{K: "ups", V: pi}}}}, Class: "deep", Label: "def0-directly"})
	}
	c.Docs = append(c.Docs, docgen.Doc{V: jsonx.Obj{{K: rho, V: []any{jsonx.Obj{{K: "pi", V: jsonx.N(7)}}}}}, Class: "required", Label: "def1-required"})
	return c
}


// sizedTwinCase: two NAMED integer definitions that want one Go type name (`level` / `Level`, or `Level` in two files of
// one run) and differ only in their bounds, both bounded, generated with and without --min-sized-ints: each referrer
// is held to its own definition's bounds (the flag rewrites the bounds of the node it has sized; what a later
// comparison makes of the rewritten node must not let the second definition pass for the first).
func sizedTwinCase(i int) *sem.Case {
	pairs := [][2][2]float64{{{0, 255}, {0, 100}}, {{0, 100}, {0, 255}}, {{-128, 127}, {-100, 100}}, {{0, 65535}, {1, 65535}}, {{0, 255}, {0, 254}}, {{1, 10}, {1, 20}}}
	pr := pairs[i%len(pairs)]
	twoFiles := (i/len(pairs))%2 == 1
	mk := func(b [2]float64) *sg.Schema { return &sg.Schema{Types: []string{"integer"}, Min: sg.Fp(b[0]), Max: sg.Fp(b[1])} }
	a, b := mk(pr[0]), mk(pr[1])
	docsFor := func(key string, bd [2]float64) []docgen.Doc {
		var out []docgen.Doc
		for _, v := range []float64{bd[0] - 1, bd[0], bd[1], bd[1] + 1, pr[0][1], pr[1][1], pr[0][1] + 1, pr[1][1] + 1, pr[0][0] - 1, pr[1][0] - 1} {
			out = append(out, docgen.Doc{V: jsonx.Obj{{K: key, V: jsonx.N(int64(v))}}, Class: "bound", Label: "sized-twin-" + key})
		}
		return out
	}
	if !twoFiles {
		root := &sg.Schema{Types: []string{"object"}, Defs: []sg.Prop{{Name: "Level", S: a}, {Name: "level", S: b}}, Props: []sg.Prop{{Name: "first", S: &sg.Schema{Ref: "#/$defs/Level", Target: a}}, {Name: "second", S: &sg.Schema{Ref: "#/$defs/level", Target: b}},
			{Name: "steps", S: &sg.Schema{Types: []string{"array"}, Items: &sg.Schema{Ref: "#/$defs/level", Target: b}}}}}
		c := &sem.Case{Root: root, Sig: fmt.Sprintf("sized-twin/%d/one-file", i%len(pairs)), NoAuto: true}
		c.Docs = append(docsFor("first", pr[0]), docsFor("second", pr[1])...)
		c.Docs = append(c.Docs, docgen.Doc{V: jsonx.Obj{{K: "steps", V: []any{jsonx.N(int64(pr[1][1])), jsonx.N(int64(pr[1][1] + 1))}}}, Class: "bound", Label: "sized-twin-item"})
		return c
	}
	mkRoot := func(d *sg.Schema, key string) *sg.Schema {
		return &sg.Schema{Types: []string{"object"}, Defs: []sg.Prop{{Name: "Level", S: d}}, Props: []sg.Prop{{Name: key, S: &sg.Schema{Ref: "#/$defs/Level", Target: d}}, {Name: key + "Steps", S: &sg.Schema{Types: []string{"array"}, Items: &sg.Schema{Ref: "#/$defs/Level", Target: d}}}}}
	}
	c := &sem.Case{Root: mkRoot(a, "sensor"), RootFile: "sensor.json", Sig: fmt.Sprintf("sized-twin/%d/two-files", i%len(pairs)), NoAuto: true}
	g := &sem.Case{Root: mkRoot(b, "volume"), RootFile: "volume.json", Sig: c.Sig, NoAuto: true}
	c.Group = []*sem.Case{g}
	c.Docs = docsFor("sensor", pr[0])
	g.Docs = docsFor("volume", pr[1])
	g.Docs = append(g.Docs, docgen.Doc{V: jsonx.Obj{{K: "volumeSteps", V: []any{jsonx.N(int64(pr[1][1])), jsonx.N(int64(pr[1][1] + 1))}}}, Class: "bound", Label: "sized-twin-item"})
	return c
}

// branchFieldCollisionCase: allOf (and anyOf) whose members declare DIFFERENT JSON property names that map to one Go
// identifier (`user_id` in one member, `userId` in another, `UserID` in a third), each with a type and rule of its
// own, inline and by reference: the merged type exposes every one of them (distinct fields) and enforces each
// member's rule on its own key.
func branchFieldCollisionCase(i int) *sem.Case {
	fam := [][3]string{{"user_id", "userId", "UserID"}, {"net-addr", "netAddr", "net_addr"}, {"a b", "aB", "a_b"}}[i%3]
	kw := []string{"allOf", "anyOf"}[(i/3)%2]
	byRef := (i/6)%2 == 1
	three := (i/12)%2 == 1
	m0 := &sg.Schema{Types: []string{"object"}, Props: []sg.Prop{{Name: fam[0], S: &sg.Schema{Types: []string{"string"}, MinLen: 2}}, {Name: "own0", S: &sg.Schema{Types: []string{"boolean"}}}}, Required: []string{fam[0]}}
	m1 := &sg.Schema{Types: []string{"object"}, Props: []sg.Prop{{Name: fam[1], S: &sg.Schema{Types: []string{"integer"}, Min: sg.Fp(1)}}, {Name: "own1", S: &sg.Schema{Types: []string{"boolean"}}}}, Required: []string{fam[1]}}
	m2 := &sg.Schema{Types: []string{"object"}, Props: []sg.Prop{{Name: fam[2], S: &sg.Schema{Types: []string{"array"}, Items: &sg.Schema{Types: []string{"integer"}}, MaxItems: 2}}}}
	root := &sg.Schema{Types: []string{"object"}}
	members := []*sg.Schema{m0, m1}
	if three {
		members = append(members, m2)
	}
	if byRef {
		for k, m := range members {
			n := fmt.Sprintf("Part%d", k)
			root.Defs = append(root.Defs, sg.Prop{Name: n, S: m})
			members[k] = &sg.Schema{Ref: "#/$defs/" + n, Target: m}
		}
	}
	comp := &sg.Schema{}
	if kw == "allOf" {
		comp.AllOf = members
	} else {
		// anyOf: a document is accepted when at least one member accepts it
		m0.Required, m1.Required = []string{fam[0]}, []string{fam[1]}
		comp.AnyOf = members
	}
	root.Props = []sg.Prop{{Name: "rec", S: comp}}
	c := &sem.Case{Root: root, Sig: fmt.Sprintf("branch-field-collision/%d/%s/%v/%v", i%3, kw, byRef, three), NoAuto: true}
	add := func(o jsonx.Obj, label string) {
		c.Docs = append(c.Docs, docgen.Doc{V: jsonx.Obj{{K: "rec", V: o}}, Class: "collision", Label: label})
	}
	add(jsonx.Obj{{K: fam[0], V: "abc"}, {K: fam[1], V: jsonx.N(5)}}, "both-own")
	add(jsonx.Obj{{K: fam[0], V: "abc"}, {K: fam[1], V: jsonx.N(0)}}, "second-rule-broken")
	add(jsonx.Obj{{K: fam[0], V: "a"}, {K: fam[1], V: jsonx.N(5)}}, "first-rule-broken")
	add(jsonx.Obj{{K: fam[0], V: "abc"}, {K: fam[1], V: "five"}}, "second-wrong-type")
	add(jsonx.Obj{{K: fam[0], V: jsonx.N(7)}, {K: fam[1], V: jsonx.N(5)}}, "first-wrong-type")
	add(jsonx.Obj{{K: fam[0], V: "abc"}}, "second-absent")
	add(jsonx.Obj{{K: fam[1], V: jsonx.N(5)}}, "first-absent")
	if three {
		add(jsonx.Obj{{K: fam[0], V: "abc"}, {K: fam[1], V: jsonx.N(5)}, {K: fam[2], V: []any{jsonx.N(1)}}}, "all-three")
		add(jsonx.Obj{{K: fam[0], V: "abc"}, {K: fam[1], V: jsonx.N(5)}, {K: fam[2], V: []any{jsonx.N(1), jsonx.N(2), jsonx.N(3)}}}, "third-rule-broken")
	}
	return c
}

// sharedMemberStringCase: a definition with a constrained string property (Person.name: minLength 2) that is used on
// its own AND as a non-last member of an anyOf / allOf whose later member declares the same property with OTHER limits
// (Robot.name: maxLength 5, a pattern): what the definition enforces on its own is what IT states, whenever its
// unmarshaler is written out. (For allOf the in-place merge into the definition is the recorded finding
// allof-shared-def-polluted; the anyOf form and the referring property are asserted.)
func sharedMemberStringCase(i int) *sem.Case {
	person := &sg.Schema{Types: []string{"object"}, Props: []sg.Prop{{Name: "name", S: &sg.Schema{Types: []string{"string"}, MinLen: 2}}, {Name: "age", S: &sg.Schema{Types: []string{"integer"}}}}, Required: []string{"name"}}
	robotName := &sg.Schema{Types: []string{"string"}, MaxLen: 5}
	if i%2 == 1 {
		robotName = &sg.Schema{Types: []string{"string"}, MinLen: 1, MaxLen: 5}
	}
	robot := &sg.Schema{Types: []string{"object"}, Props: []sg.Prop{{Name: "name", S: robotName}, {Name: "model", S: &sg.Schema{Types: []string{"string"}}}}, Required: []string{"name", "model"}}
	refP := func() *sg.Schema { return &sg.Schema{Ref: "#/$defs/Person", Target: person} }
	refR := func() *sg.Schema { return &sg.Schema{Ref: "#/$defs/Robot", Target: robot} }
	holder := &sg.Schema{AnyOf: []*sg.Schema{refP(), refR()}}
	root := &sg.Schema{Types: []string{"object"}, Defs: []sg.Prop{{Name: "Person", S: person}, {Name: "Robot", S: robot}}}
	// the order in which the composition and the plain reference are reached
	if (i/2)%2 == 0 {
		root.Props = []sg.Prop{{Name: "holder", S: holder}, {Name: "owner", S: refP()}, {Name: "unit", S: refR()}}
	} else {
		root.Props = []sg.Prop{{Name: "zholder", S: holder}, {Name: "owner", S: refP()}, {Name: "unit", S: refR()}}
	}
	c := &sem.Case{Root: root, Sig: fmt.Sprintf("shared-member-string/%d", i%4), NoAuto: true}
	if (i/4)%2 == 1 {
		c.Args = []string{"--extra-imports"}
	}
	for _, n := range []string{"A", "Al", "Alexa", "Alexander"} {
		c.Docs = append(c.Docs, docgen.Doc{V: jsonx.Obj{{K: "owner", V: jsonx.Obj{{K: "name", V: n}}}}, Class: "string", Label: "definition-on-its-own"},
			docgen.Doc{V: jsonx.Obj{{K: "unit", V: jsonx.Obj{{K: "name", V: n}, {K: "model", V: "m"}}}}, Class: "string", Label: "later-member-on-its-own"})
	}
	return c
}

// exactSizeGridCase: arrays whose minItems equals maxItems (a 2x2 grid, a 3x2x2 block), the inner arrays nullable or
// not, at required / optional positions; documents with rows one short / exact / one long at every level and with
// `null` rows where the row type allows null: a null array is never length-checked, at any nesting level.
func exactSizeGridCase(i int) *sem.Case {
	nullableRows := i%2 == 0
	deep := (i/2)%2 == 1
	cell := &sg.Schema{Types: []string{"integer"}}
	row := &sg.Schema{Types: []string{"array"}, Items: cell, MinItems: 2, MaxItems: 2}
	if nullableRows {
		row.Types = []string{"array", "null"}
	}
	grid := &sg.Schema{Types: []string{"array"}, Items: row, MinItems: 2, MaxItems: 2}
	if deep {
		plane := grid
		if nullableRows {
			plane.Types = []string{"array", "null"}
		}
		grid = &sg.Schema{Types: []string{"array"}, Items: plane, MinItems: 3, MaxItems: 3}
	}
	root := &sg.Schema{Types: []string{"object"}, Props: []sg.Prop{{Name: "grid", S: grid}, {Name: "name", S: &sg.Schema{Types: []string{"string"}}}}}
	if (i/4)%2 == 1 {
		root.Required = []string{"grid"}
	}
	c := &sem.Case{Root: root, Sig: fmt.Sprintf("exact-size-grid/%v/%v", nullableRows, deep), NoAuto: true}
	r := func(n int) any {
		a := []any{}
		for k := 0; k < n; k++ {
			a = append(a, jsonx.N(int64(k)))
		}
		return a
	}
	wrap := func(rows ...any) any {
		if deep {
			return jsonx.Obj{{K: "grid", V: []any{rows, []any{r(2), r(2)}, []any{r(2), r(2)}}}}
		}
		return jsonx.Obj{{K: "grid", V: rows}}
	}
	c.Docs = append(c.Docs, docgen.Doc{V: wrap(r(2), r(2)), Class: "items", Label: "exact"}, docgen.Doc{V: wrap(r(2), r(1)), Class: "items", Label: "row-short"}, docgen.Doc{V: wrap(r(2), r(3)), Class: "items", Label: "row-long"},
		docgen.Doc{V: wrap(r(2)), Class: "items", Label: "rows-short"}, docgen.Doc{V: wrap(r(2), r(2), r(2)), Class: "items", Label: "rows-long"},
		docgen.Doc{V: jsonx.Obj{{K: "name", V: "n"}, {K: "grid", V: nil}}, Class: "nullok", Label: "null-grid"})
	if nullableRows {
		c.Docs = append(c.Docs, docgen.Doc{V: wrap(r(2), nil), Class: "nullok", Label: "null-row"}, docgen.Doc{V: wrap(nil, nil), Class: "nullok", Label: "null-rows"}, docgen.Doc{V: wrap(nil), Class: "items", Label: "null-row-rows-short"})
		if deep {
			c.Docs = append(c.Docs, docgen.Doc{V: jsonx.Obj{{K: "grid", V: []any{nil, []any{r(2), nil}, []any{r(2), r(2)}}}}, Class: "nullok", Label: "null-plane"})
		}
	}
	return c
}

// longEnumCase: string enums with 16-40 values (unit names: mixed upper / lower case, digits, symbols, values that differ
// only in case), integer enums with 20 values, typed and untyped, inline, through a definition, as array items: every
// listed value is accepted (whatever lookup structure a long list is given), near misses are not.
func longEnumCase(i int) *sem.Case {
	// (values whose constant names differ: two values that normalise to one constant name are the recorded finding
	// enum-const-collision)
	units := []any{"B", "kB", "MB", "GB", "TB", "PB", "KiB", "MiB", "GiB", "TiB", "bit", "kbit", "Mbit", "Gbit", "byte", "octet", "Nibble", "word", "Dword", "qword", "Page", "block", "Sector", "track", "Cyl", "head",
		"Zone", "unit", "Each", "dozen", "Gross", "pair", "Set", "lot", "Box", "case", "Pallet", "roll", "Sheet", "ream"}
	n := []int{16, 18, 24, 40, 17, 32}[i%6]
	vals := units[:n]
	typed := (i/6)%2 == 0
	mk := func() *sg.Schema {
		s := &sg.Schema{HasEnum: true, Enum: vals}
		if typed {
			s.Types = []string{"string"}
		}
		return s
	}
	def := mk()
	ints := &sg.Schema{Types: []string{"integer"}, HasEnum: true}
	for k := 0; k < 20; k++ {
		ints.Enum = append(ints.Enum, jsonx.N(int64((k*37)%101-50)))
	}
	root := &sg.Schema{Types: []string{"object"}, Defs: []sg.Prop{{Name: "Unit", S: def}}, Props: []sg.Prop{{Name: "unit", S: mk()}, {Name: "viaDef", S: &sg.Schema{Ref: "#/$defs/Unit", Target: def}},
		{Name: "units", S: &sg.Schema{Types: []string{"array"}, Items: &sg.Schema{Ref: "#/$defs/Unit", Target: def}}}, {Name: "code", S: ints}}}
	c := &sem.Case{Root: root, Sig: fmt.Sprintf("long-enum/%d/%v", n, typed), NoAuto: true}
	if (i/12)%2 == 1 {
		c.Args = []string{"--extra-imports"}
	}
	for _, v := range vals {
		c.Docs = append(c.Docs, docgen.Doc{V: jsonx.Obj{{K: "unit", V: v}}, Class: "enum", Label: "member"}, docgen.Doc{V: jsonx.Obj{{K: "viaDef", V: v}, {K: "units", V: []any{vals[0], v}}}, Class: "enum", Label: "member-ref-item"})
	}
	for _, v := range units[n:] {
		c.Docs = append(c.Docs, docgen.Doc{V: jsonx.Obj{{K: "unit", V: v}}, Class: "enum", Label: "non-member"})
	}
	for _, v := range []any{"KB", "kb", "gB", "BYTE", "", "k", "GiB ", "Byte", "mb"} {
		c.Docs = append(c.Docs, docgen.Doc{V: jsonx.Obj{{K: "viaDef", V: v}}, Class: "enum", Label: "near-miss"})
	}
	for _, v := range ints.Enum {
		c.Docs = append(c.Docs, docgen.Doc{V: jsonx.Obj{{K: "code", V: v}}, Class: "enum", Label: "int-member"})
	}
	c.Docs = append(c.Docs, docgen.Doc{V: jsonx.Obj{{K: "code", V: jsonx.N(51)}}, Class: "enum", Label: "int-non-member"}, docgen.Doc{V: jsonx.Obj{{K: "code", V: jsonx.N(-51)}}, Class: "enum", Label: "int-non-member"})
	return c
}

// optionNeutralCase: options that speak about NAMES or TAGS next to schemas whose property names meet them head on -
// `--capitalization iOS,eBay,macOS` with properties called exactly `ios`, `ebay`, `macos`; `--tags yaml` /
// `--tags mapstructure,yaml` (no json tag at all) with plain lower-case property names - required keys at root,
// nested, in array elements and behind a reference, typed values: the options change identifiers and tags, every
// key is still decoded, type-checked and required.
func optionNeutralCase(i int) *sem.Case {
	names := [][3]string{{"ios", "ebay", "macos"}, {"name", "size", "tags"}}[(i/3)%2]
	inner := &sg.Schema{Types: []string{"object"}, Props: []sg.Prop{{Name: names[0], S: &sg.Schema{Types: []string{"string"}}}, {Name: names[1], S: &sg.Schema{Types: []string{"integer"}}},
		{Name: names[2], S: &sg.Schema{Types: []string{"array"}, Items: &sg.Schema{Types: []string{"string"}}}}}, Required: []string{names[0], names[1]}}
	root := &sg.Schema{Types: []string{"object"}, Defs: []sg.Prop{{Name: "Device", S: inner}}, Props: []sg.Prop{{Name: names[0], S: &sg.Schema{Types: []string{"string"}}}, {Name: names[1], S: &sg.Schema{Types: []string{"integer"}}},
		{Name: "device", S: &sg.Schema{Ref: "#/$defs/Device", Target: inner}}, {Name: "fleet", S: &sg.Schema{Types: []string{"array"}, Items: &sg.Schema{Ref: "#/$defs/Device", Target: inner}}}}, Required: []string{names[0]}}
	c := &sem.Case{Root: root, Sig: fmt.Sprintf("option-neutral/%d", i%6), NoAuto: true}
	switch i % 3 {
	case 0:
		c.Args = []string{"--capitalization", "iOS,eBay,macOS"}
	case 1:
		c.Args = []string{"--tags", "yaml"}
	default:
		// (without a json tag encoding/json binds by Go field name, case-insensitively: only combined with names whose
		// field name is the key itself - not with a capitalization that renames the field)
		c.Args = []string{"--tags", "mapstructure,yaml"}
	}
	dev := jsonx.Obj{{K: names[0], V: "x"}, {K: names[1], V: jsonx.N(3)}, {K: names[2], V: []any{"t"}}}
	full := jsonx.Obj{{K: names[0], V: "r"}, {K: names[1], V: jsonx.N(1)}, {K: "device", V: dev}, {K: "fleet", V: []any{dev}}}
	c.Docs = append(c.Docs, docgen.Doc{V: full, Class: "valid", Label: "all-keys"}, docgen.Doc{V: jsonx.Obj{{K: names[0], V: "r"}}, Class: "valid", Label: "minimal"},
		docgen.Doc{V: full.Del(names[0]), Class: "required", Label: "root-required-absent"},
		docgen.Doc{V: full.Set("device", dev.Del(names[0])), Class: "required", Label: "ref-required-absent"}, docgen.Doc{V: full.Set("device", dev.Del(names[1])), Class: "required", Label: "ref-required-absent"},
		docgen.Doc{V: full.Set("fleet", []any{dev, dev.Del(names[1])}), Class: "required", Label: "item-required-absent"},
		docgen.Doc{V: full.Set(names[0], jsonx.N(5)), Class: "type", Label: "root-wrong-type"}, docgen.Doc{V: full.Set(names[1], "seventeen"), Class: "type", Label: "root-wrong-type"}, docgen.Doc{V: full.Set(names[1], jsonx.Num("17.5")), Class: "type", Label: "root-wrong-type"},
		docgen.Doc{V: full.Set("device", dev.Set(names[0], jsonx.Obj{})), Class: "type", Label: "ref-wrong-type"}, docgen.Doc{V: full.Set("fleet", []any{dev.Set(names[2], []any{jsonx.N(1)})}), Class: "type", Label: "item-wrong-type"})
	return c
}

// quotedNameParityCase: property names that contain a backslash (which a struct tag cannot carry
// as written: recorded finding name-breaks-tag, so the verdict against the model is that finding) with rules of their
// own; relationally, JSON and YAML must still treat every document alike - same verdict, same decoded value.
func quotedNameParityCase(i int) *sem.Case {
	// (only names the unchanged generator can emit at all: a backslash followed by n, t or another backslash reads as
	// an escape in the message strings; a quote or any other escape makes the file unparsable - C01's recorded finding)
	names := [][2]string{{`domain\name`, `net\table`}, {`a\\b`, `x\ny`}, {`row\total`, `a\tb`}}[i%3]
	obj := &sg.Schema{Types: []string{"object"}, Props: []sg.Prop{{Name: "plain", S: &sg.Schema{Types: []string{"string"}, MinLen: 1}},
		{Name: names[0], S: &sg.Schema{Types: []string{"string"}, MinLen: 3, Pattern: "^[a-z]+$"}}, {Name: names[1], S: &sg.Schema{Types: []string{"integer"}, Min: sg.Fp(1)}}}, Required: []string{"plain"}}
	if (i/3)%2 == 1 {
		obj.Required = []string{"plain", names[0]}
	}
	c := &sem.Case{Root: obj, Sig: fmt.Sprintf("quoted-name-parity/%d", i%6), NoAuto: true, Witness: "name-breaks-tag", Args: []string{"--extra-imports"}}
	full := jsonx.Obj{{K: "plain", V: "p"}, {K: names[0], V: "abc"}, {K: names[1], V: jsonx.N(2)}}
	c.Docs = append(c.Docs, docgen.Doc{V: full, Class: "pinned", Label: "valid"}, docgen.Doc{V: full.Set(names[0], "ab"), Class: "pinned", Label: "too-short"}, docgen.Doc{V: full.Set(names[0], "ABC"), Class: "pinned", Label: "pattern"},
		docgen.Doc{V: full.Set(names[1], jsonx.N(0)), Class: "pinned", Label: "minimum"}, docgen.Doc{V: full.Del(names[0]), Class: "pinned", Label: "absent"}, docgen.Doc{V: full.Set(names[1], "x"), Class: "pinned", Label: "wrong-type"})
	return c
}
