package sem

import (
	"bytes"
	"encoding/json"
	"fmt"
	"os"
	"strings"
	"time"

	"verif/internal/batch"
	"verif/internal/docgen"
	"verif/internal/gocheck"
	"verif/internal/jsonx"
	"verif/internal/known"
	"verif/internal/sg"
)

// TotalConfig configures the totality / all-or-nothing monitor (C19).
type TotalConfig struct {
	Prop    string
	Tier    string
	Seed    uint64
	Cases   []*Case
	Env     *batch.Env
	Race    bool
	PerProg int // cap of byte strings per program
	BatchSz int
}

// HostileDocs are byte strings every generated unmarshaler must survive.
func HostileDocs() [][]byte {
	deepA := bytes.Repeat([]byte("["), 10001)
	deepA = append(deepA, bytes.Repeat([]byte("]"), 10001)...)
	var deepO bytes.Buffer
	for i := 0; i < 3000; i++ {
		deepO.WriteString(`{"a":`)
	}
	deepO.WriteString("1")
	for i := 0; i < 3000; i++ {
		deepO.WriteString(`}`)
	}
	out := [][]byte{
		[]byte(`null`), []byte(`true`), []byte(`false`), []byte(`0`), []byte(`-1.5`), []byte(`"s"`), []byte(`""`), []byte(`[]`), []byte(`{}`), []byte(`[[]]`), []byte(`[null]`),
		[]byte(`{"a":null}`), []byte(`{"":1}`), []byte(`1e400`), []byte(`-0`), []byte(`123456789012345678901234567890`), []byte(`0.1e-400`),
		deepA, deepO.Bytes(),
		[]byte("\"\xff\""), []byte("{\"k\":\"\xff\xfe\"}"), []byte(``), []byte(`  `), []byte(`{`), []byte(`{"a":`), []byte(`[1,`), []byte(`nul`), []byte(`{} x`), []byte("\xef\xbb\xbf{}"),
		[]byte(`{"a":1,"a":2}`), []byte("{\"a\x00b\":1}"), []byte("\x00"), []byte(`{"a":{"a":{"a":[[[{"a":null}]]]}}}`), []byte(`[{"a":1},2,"x",null,[]]`),
		[]byte(`{"AdditionalProperties":{"x":1}}`), []byte(`{"Value":1}`), []byte(`"2024-02-30"`), []byte(`"25:61:61"`), []byte(`"999.999.999.999"`), []byte(`{"a": 1e999}`),
		[]byte(`- a
- b`), []byte(`a: b: c`), []byte("a: &x [*x]"), []byte("? [1,2]\n: 3"), []byte("!!binary x"), []byte("a: !!int yes"),
	}
	return out
}

func subValues(v any, out *[]any, depth int) {
	if depth > 6 {
		return
	}
	*out = append(*out, v)
	switch t := v.(type) {
	case jsonx.Obj:
		for _, kv := range t {
			subValues(kv.V, out, depth+1)
		}
	case []any:
		for _, e := range t {
			subValues(e, out, depth+1)
		}
	}
}

// nullAtEveryPosition returns one copy of v per position (object member, array element, at any depth) with that
// position replaced by null.
func nullAtEveryPosition(v any) []any {
	var out []any
	var rec func(cur any, rebuild func(any) any)
	rec = func(cur any, rebuild func(any) any) {
		switch t := cur.(type) {
		case jsonx.Obj:
			for i := range t {
				i := i
				mk := func(nv any) any {
					cp := append(jsonx.Obj{}, t...)
					cp[i] = jsonx.KV{K: t[i].K, V: nv}
					return rebuild(cp)
				}
				if t[i].V != nil {
					out = append(out, mk(nil))
				}
				rec(t[i].V, mk)
			}
		case []any:
			for i := range t {
				i := i
				mk := func(nv any) any {
					cp := append([]any{}, t...)
					cp[i] = nv
					return rebuild(cp)
				}
				if t[i] != nil {
					out = append(out, mk(nil))
				}
				rec(t[i], mk)
			}
		}
	}
	rec(v, func(x any) any { return x })
	return out
}

type totalPend struct {
	c     *Case
	typ   string
	mode  string
	raw   []byte
	prior []byte
	label string
}

// RunTotal executes byte strings against every generated type that has a generated unmarshal method and checks:
// no panic / fatal, and after an error the destination equals an independently built snapshot of the prior value.
func RunTotal(cfg *TotalConfig) (*Report, error) {
	t0 := time.Now()
	rep := &Report{ByStratum: map[string]int{}, GenFail: map[string]int{}, CompileFail: map[string]int{}, ByClass: map[string]int{}, DontCare: map[string]int{},
		Sigs: map[string]bool{}, Known: map[string]int{}, KnownExamples: map[string]string{}}
	ks := known.Load()
	if cfg.BatchSz == 0 {
		cfg.BatchSz = 200
	}
	var progs []*batch.Program
	for i, c := range cfg.Cases {
		c.idx = i
		p := &batch.Program{ID: fmt.Sprintf("p%06d", i), Files: []batch.File{{Path: "root.json", Data: jsonx.MarshalIndent(c.Root.ToJSON())}}, Args: c.Args, Inputs: []string{"root.json"}, Meta: c}
		c.prog = p
		progs = append(progs, p)
	}
	rep.Programs = len(progs)
	hostile := HostileDocs()
	for lo := 0; lo < len(cfg.Cases); lo += cfg.BatchSz {
		hi := lo + cfg.BatchSz
		if hi > len(cfg.Cases) {
			hi = len(cfg.Cases)
		}
		// chunk by chunk: generate, execute, decide, release (bounded memory in the thorough tier)
		cfg.Env.GenerateAll(progs[lo:hi])
		for _, p := range progs[lo:hi] {
			if p.Usable() {
				rep.Usable++
			} else if p.Proc.Exit != 0 {
				rep.GenFail[classify(firstLine(string(p.Proc.Stderr)))]++
			} else if p.Report != nil {
				rep.CompileFail[classify(p.Report.Summary())]++
			}
		}
		release := func() {
			for _, p := range progs[lo:hi] {
				p.Src, p.Report = nil, nil
				_ = os.RemoveAll(p.Dir)
			}
		}
		var bp []*batch.Program
		for _, c := range cfg.Cases[lo:hi] {
			if c.prog.Usable() {
				bp = append(bp, c.prog)
			}
		}
		if len(bp) == 0 {
			release()
			continue
		}
		drv, err := cfg.Env.BuildDriver(bp, cfg.Race)
		if err != nil {
			return rep, err
		}
		var cmds []batch.Cmd
		var pend []totalPend
		for _, c := range cfg.Cases[lo:hi] {
			if !c.prog.Usable() || drv.Excluded[c.prog.ID] != "" {
				continue
			}
			r := sg.NewRng(cfg.Seed, fmt.Sprintf("%s-total-%d", cfg.Prop, c.idx))
			g := &docgen.G{R: r}
			methods := gocheck.Methods(c.prog.Report.File)
			yamlOK := false
			for _, a := range c.Args {
				if a == "--extra-imports" {
					yamlOK = true
				}
			}
			var valids []any
			for i := 0; i < 3; i++ {
				if v, ok := g.Valid(c.Root, docgen.Mode(i%3)); ok {
					valids = append(valids, v)
				}
			}
			var rootDocs [][]byte
			var labels []string
			addDoc := func(b []byte, l string) { rootDocs = append(rootDocs, b); labels = append(labels, l) }
			for _, d := range c.Docs {
				addDoc(jsonx.Marshal(d.V), "given")
			}
			for _, v := range valids {
				addDoc(jsonx.Marshal(v), "valid")
			}
			if len(valids) > 0 {
				ms := g.Mutants(c.Root, valids[0], docgen.AllClasses, 2, true)
				r.Shuffle(len(ms), func(i, j int) { ms[i], ms[j] = ms[j], ms[i] })
				for i, m := range ms {
					if i >= 30 {
						break
					}
					addDoc(jsonx.Marshal(m.V), "mutant:"+m.Class)
				}
				// null at every position of the valid documents, one at a time (nullable or not: totality does not care)
				nn := 0
				for _, v := range valids {
					for _, nv := range nullAtEveryPosition(v) {
						if nn++; nn > 40 {
							break
						}
						addDoc(jsonx.Marshal(nv), "null-at-position")
					}
				}
				base := jsonx.Marshal(valids[0])
				for k := 1; k <= 6 && len(base) > 2; k++ {
					addDoc(base[:len(base)*k/7], "truncated")
				}
				for k := 0; k < 10 && len(base) > 0; k++ {
					b := append([]byte{}, base...)
					pos := r.IntN(len(b))
					switch k % 4 {
					case 0:
						b[pos] ^= byte(1 << r.IntN(8))
					case 1:
						b = append(b[:pos], b[pos+1:]...)
					case 2:
						b = append(b[:pos], append([]byte{sg.PickOf(r, []byte(`{}[],:"0n`))}, b[pos:]...)...)
					case 3:
						b = append(b[:pos], append(append([]byte{}, b[pos:]...), b[pos:]...)...)
					}
					addDoc(b, "bytemut")
				}
			}
			for _, h := range hostile {
				addDoc(h, "hostile")
			}
			var subs []any
			for _, v := range valids {
				subValues(v, &subs, 0)
			}
			var prior []byte
			if len(valids) > 1 {
				prior = jsonx.Marshal(valids[1])
			}
			n := 0
			for typ, ms := range methods {
				hasJ, hasY := false, false
				for _, m := range ms {
					hasJ = hasJ || m == "UnmarshalJSON"
					hasY = hasY || m == "UnmarshalYAML"
				}
				if !hasJ {
					continue
				}
				modes := []string{"jsondirect", "json"}
				if hasY && yamlOK {
					modes = append(modes, "yaml")
				}
				var docs [][]byte
				var lbl []string
				if typ == rootTypeOf(c) {
					docs, lbl = rootDocs, labels
				} else {
					for i, h := range hostile {
						if i%2 == c.idx%2 || len(h) > 1000 {
							docs, lbl = append(docs, h), append(lbl, "hostile")
						}
					}
					for i, sv := range subs {
						if i >= 25 {
							break
						}
						docs, lbl = append(docs, jsonx.Marshal(sv)), append(lbl, "subvalue")
					}
				}
				for i, d := range docs {
					for _, mode := range modes {
						if cfg.PerProg > 0 && n >= cfg.PerProg {
							break
						}
						n++
						cmds = append(cmds, batch.NewCmd(len(cmds), c.prog.ID, typ, mode, d))
						pend = append(pend, totalPend{c: c, typ: typ, mode: mode, raw: d, label: lbl[i]})
						if prior != nil && typ == rootTypeOf(c) && (i%2 == 0) {
							cmds = append(cmds, batch.NewCmd(len(cmds), c.prog.ID, typ, mode, d).WithPrior(prior))
							pend = append(pend, totalPend{c: c, typ: typ, mode: mode, raw: d, prior: prior, label: lbl[i] + "+prior"})
						}
						if typ != rootTypeOf(c) && len(subs) > 0 {
							// prior destination for nested types: sub-values of valid documents; those that decode into
							// this type give a non-zero destination (maps, slices, structs), the others leave it zero
							for k := 0; k < 2; k++ {
								pv := jsonx.Marshal(subs[(i*3+k*7+1)%len(subs)])
								if len(pv) < 3 {
									continue
								}
								cmds = append(cmds, batch.NewCmd(len(cmds), c.prog.ID, typ, mode, d).WithPrior(pv))
								pend = append(pend, totalPend{c: c, typ: typ, mode: mode, raw: d, prior: pv, label: lbl[i] + "+prior"})
							}
						}
					}
				}
			}
		}
		shards, par := 16, 1
		if cfg.Race {
			shards, par = 4, 8
		}
		results, st := drv.Run(cmds, shards, par)
		rep.Restarts += st.Restarts
		rep.Watchdog += st.Watchdog
		rep.RaceReports += st.RaceReports
		rep.RaceText = append(rep.RaceText, st.RaceText...)
		for i, p := range pend {
			res := results[i]
			if res == nil || res.V == "missing" || res.V == "noprog" || res.V == "nomethod" || res.V == "watchdog" {
				rep.DontCare["inconclusive"]++
				continue
			}
			rep.Decided++
			rep.ByClass[p.label+"/"+p.mode]++
			rep.Sigs[p.c.Sig+"|"+p.typ+"|"+p.label+"|"+p.mode] = true
			if len(rep.Samples) < 6 && rep.Decided%1999 == 3 {
				rep.Samples = append(rep.Samples, map[string]any{"type": p.typ, "mode": p.mode, "bytes": trimBytes(p.raw), "prior": string(p.prior), "observed": res.V, "err": res.Err, "unchanged": res.Unch})
			}
			mk := func(kind, obs, det string) Violation {
				return Violation{Kind: kind, Class: p.label, Mode: p.mode, Expected: "nil or error, destination untouched on error", Observed: obs, Detail: det,
					Schema: json.RawMessage(jsonx.Marshal(p.c.Root.ToJSON())), Args: p.c.Args, Doc: trimBytes(p.raw), Sig: p.typ + "|" + classify(det), Label: p.typ}
			}
			switch res.V {
			case "ok":
				rep.Accepts++
			case "err":
				rep.Rejects++
				if res.Unch != nil && !*res.Unch {
					addViolation(&Config{Prop: cfg.Prop, Seed: cfg.Seed, Tier: cfg.Tier}, rep, mk("modified-on-error", "destination changed although an error was returned", "err="+res.Err+" before="+res.Before+" after="+res.After))
				}
			case "panic", "fatal":
				if ks.Has("null-into-addprops-struct") && strings.Contains(res.Err, "reflect.Set: value of type map[string]interface {} is not assignable to type map[string]") && bytes.Contains(p.raw, []byte("null")) {
					rep.Known["null-into-addprops-struct"]++
					continue
				}
				addViolation(&Config{Prop: cfg.Prop, Seed: cfg.Seed, Tier: cfg.Tier}, rep, mk(res.V, res.V, res.Err+"\n"+firstFrames(res.Stack)+res.Fatal))
			}
		}
		_ = os.RemoveAll(drv.Dir)
		release()
	}
	rep.Wall = time.Since(t0)
	return rep, nil
}

func trimBytes(b []byte) string {
	if len(b) > 300 {
		return fmt.Sprintf("%q…(%d bytes)", b[:200], len(b))
	}
	return fmt.Sprintf("%q", b)
}

func firstFrames(st string) string {
	lines := strings.Split(st, "\n")
	var out []string
	for _, l := range lines {
		if strings.Contains(l, "batch/p") || strings.Contains(l, "panic") {
			out = append(out, strings.TrimSpace(l))
		}
		if len(out) > 8 {
			break
		}
	}
	return strings.Join(out, " | ")
}
