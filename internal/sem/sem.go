// Package sem is the shared engine of the checks that execute generated code (SUT-C):
// generate programs with the real CLI, compile them with the driver, run model-directed documents,
// and decide the event log offline against the reference model.
package sem

import (
	"crypto/sha1"
	"encoding/json"
	"fmt"
	"os"
	"path/filepath"
	"regexp"
	"sort"
	"strings"
	"time"
	"verif/internal/gocheck"

	"verif/internal/batch"
	"verif/internal/docgen"
	"verif/internal/evid"
	"verif/internal/jsonx"
	"verif/internal/known"
	"verif/internal/model"
	"verif/internal/sg"
)

// Case is one schema + option set that becomes one generated package.
type Case struct {
	Root     *sg.Schema
	Args     []string
	Sig      string
	Extra    []batch.File
	RootFile string // default root.json
	RootType string // default Root
	YAML     bool   // root file rendered as YAML
	Tag      string
	Pair     *Case // differential partner: same documents are executed against it too
	Docs     []docgen.Doc
	NoAuto   bool     // only the explicit Docs
	Witness  string   // pinned canonical witness of this recorded finding: a disagreement on it is that finding
	Cwd      string   // working directory of the generator run, relative to the program directory
	AbsInput bool     // pass the root file by absolute path
	Input    string   // spelling of the root file on the command line (relative to Cwd), when it is not the plain path
	SubPkgs  []string // further Go packages of the run (batch.Program.SubNames); Args map ids to them with {{PKG}} / {{OUT}}
	Group    []*Case  // further schema files passed to the SAME generator invocation (same package); each has its own root type and documents
	Classes  docgen.Classes // mutation classes for this case's automatic documents (nil: the check's own)
	AllOwn   bool           // every document of this case counts, whatever classes the check owns
	Defaults bool           // assert default application for this case even where the check as a whole does not

	prog *batch.Program
	idx  int
}

// Config of one engine run.
type Config struct {
	Prop               string
	Tier               string
	Seed               uint64
	Cases              []*Case
	Classes            docgen.Classes
	Valid              int // valid documents per case
	PerSite            int
	MaxDocs            int
	Modes              []string // json, yaml, jsondirect
	Values             bool     // compare re-marshalled values (by pointer)
	ByValue            bool     // also compare marshal-by-value
	Defaults           bool     // assert default application
	AddProps           bool     // assert additional-properties collection
	IntLim             bool
	NoMulti            bool
	Race               bool
	Parity             bool // json/yaml parity (C17): compare modes with each other
	Own                func(d docgen.Doc, mr model.Result) bool
	Env                *batch.Env
	BatchSz            int
	MinDecid           int                 // minimum deciding observations for a conclusive run
	AfterBatch         func(cases []*Case) // census callback, called per chunk while the programs are still in memory
	KeepRefused        bool                // keep the directories of refused programs (C10 reports them)
	RootTypeFromOutput bool                // find the root type in the emitted file (struct whose json tags are the root's property names)
}

// Violation is one unexplained disagreement.
type Violation struct {
	Kind     string `json:"kind"` // verdict, value, byvalue, panic, fatal, parity, pair, compile, generate
	Class    string `json:"class"`
	Label    string `json:"label"`
	Path     string `json:"path"`
	Mode     string `json:"mode"`
	Expected string `json:"expected"`
	Observed string `json:"observed"`
	Detail   string `json:"detail"`
	Schema   any    `json:"schema"`
	Args     []string
	Doc      string `json:"doc"`
	Sig      string `json:"sig"`
	Replay   string `json:"-"`
}

// Report is the outcome of a run.
type Report struct {
	Programs      int
	GenFail       map[string]int
	CompileFail   map[string]int
	Usable        int
	Evaluations   int
	Decided       int
	ByClass       map[string]int
	Accepts       int
	Rejects       int
	ModelAccept   int
	ModelReject   int
	DontCare      map[string]int
	ValueChecks   int
	ParityChecks  int
	PairChecks    int
	PairAgree     int
	Sigs          map[string]bool
	Violations    []Violation
	Known         map[string]int
	KnownExamples map[string]string
	Samples       []any
	Restarts      int
	Watchdog      int
	RaceReports   int
	RaceText      []string
	Wall          time.Duration
	GenFailEx     []string
	ModelSelfFail int
	// ByStratum counts deciding observations of the hand-built strata (case signatures of the form "name/...")
	ByStratum map[string]int
}

var reJSONTag = regexp.MustCompile(`json:"([^"]*)"`)

var reStratum = regexp.MustCompile(`^[a-z][a-z0-9-]*/`)

// VerdictDefects maps a finding signature to its defect model.
var VerdictDefects = map[string]func(*model.Defects){
	"len-bytes":                      func(d *model.Defects) { d.LenBytes = true },
	"outer-array-limits":             func(d *model.Defects) { d.OuterArrayLimits = true },
	"inline-item-rules":              func(d *model.Defects) { d.InlineItemNoRule = true },
	"int-bound-trunc":                func(d *model.Defects) { d.IntBoundTrunc = true },
	"addprop-lax":                    func(d *model.Defects) { d.AddPropLax = true },
	"anyof-merged":                   func(d *model.Defects) { d.AnyOfMerged = true },
	"null-object-zero":               func(d *model.Defects) { d.NullObjZero = true },
	"addprop-container-lax":          func(d *model.Defects) { d.AddPropObjLax = true },
	"allof-same-keyword-first-wins":  func(d *model.Defects) { d.AllOfFirstWins = true },
	"allof-ref-nested-type-reused":   func(d *model.Defects) { d.AllOfNestedReuse = true },
	"named-nullable-scalar-no-rules": func(d *model.Defects) { d.NamedNullableNoRule = true },
	"required-undeclared-ignored":    func(d *model.Defects) { d.UndeclaredRequiredIgnored = true },
	"untyped-composition-definition": func(d *model.Defects) { d.UntypedCompDef = true },
	"minsized-uint8-array-is-bytes":  func(d *model.Defects) { d.Uint8ArrayBase64 = true },
	"named-format-type":              func(d *model.Defects) { d.NamedFormat = true },
	"named-array-no-rules":           func(d *model.Defects) { d.NamedArrayNoLim = true },
	"null-enum-default":              func(d *model.Defects) { d.EnumNullZero = true },
	"null-named-scalar-default":      func(d *model.Defects) { d.NamedNullZero = true },
	"map-value-anon-struct":          func(d *model.Defects) { d.MapValueAnon = true },
	"null-items-no-limits":           func(d *model.Defects) { d.NullItemsNoLim = true },
}

// Explain returns the known finding whose defect model reproduces the tool's verdict, or "".
func Explain(ks *known.Set, root *sg.Schema, doc any, toolAccept bool, args ...string) string {
	minSized := false
	for _, a := range args {
		minSized = minSized || a == "--min-sized-ints"
	}
	var listed []string
	for sig := range VerdictDefects {
		if strings.HasPrefix(sig, "minsized-") && !minSized {
			continue // findings that only exist with --min-sized-ints explain nothing without the flag
		}
		if ks.Has(sig) {
			listed = append(listed, sig)
		}
	}
	sort.Strings(listed)
	for _, sig := range listed {
		d := &model.Defects{}
		VerdictDefects[sig](d)
		r := model.Eval(root, doc, d)
		if r.V != model.DontCare && (r.V == model.Accept) == toolAccept {
			return sig
		}
	}
	if len(listed) > 1 {
		d := &model.Defects{}
		for _, sig := range listed {
			VerdictDefects[sig](d)
		}
		r := model.Eval(root, doc, d)
		if r.V != model.DontCare && (r.V == model.Accept) == toolAccept {
			return strings.Join(listed, "+")
		}
	}
	return ""
}

type pending struct {
	root *sg.Schema // schema of the program that executes this command (differs from c.Root for a partner program)
	c    *Case
	prog *batch.Program
	doc  docgen.Doc
	mr   model.Result
	mode string
	pair bool
	raw  []byte
}

// Run executes the configured workload.
func Run(cfg *Config) (*Report, error) {
	t0 := time.Now()
	rep := &Report{ByStratum: map[string]int{}, GenFail: map[string]int{}, CompileFail: map[string]int{}, ByClass: map[string]int{}, DontCare: map[string]int{},
		Sigs: map[string]bool{}, Known: map[string]int{}, KnownExamples: map[string]string{}}
	env := cfg.Env
	ks := known.Load()
	if cfg.BatchSz == 0 {
		cfg.BatchSz = 250
	}
	if len(cfg.Modes) == 0 {
		cfg.Modes = []string{"json"}
	}
	// Cases are processed chunk by chunk (generate, compile, execute, decide, census callback) and the programs of a
	// finished chunk are released: memory stays bounded in the thorough tier.
	next := 0
	for lo := 0; lo < len(cfg.Cases); lo += cfg.BatchSz {
		hi := lo + cfg.BatchSz
		if hi > len(cfg.Cases) {
			hi = len(cfg.Cases)
		}
		chunk := cfg.Cases[lo:hi]
		var progs []*batch.Program
		var all []*Case
		for _, c := range chunk {
			all = append(all, c)
			if c.Pair != nil {
				all = append(all, c.Pair)
			}
		}
		for _, c := range all {
			i := next
			next++
			c.idx = i
			p := NewProgram(env, c, fmt.Sprintf("p%06d", i))
			for gi, gc := range c.Group {
				gc.prog = p
				gc.idx = i*100 + gi + 1
			}
			c.prog = p
			progs = append(progs, p)
		}
		rep.Programs += len(progs)
		env.GenerateAll(progs)
		if cfg.RootTypeFromOutput {
			for _, p := range progs {
				c := p.Meta.(*Case)
				if !p.Usable() || c.RootType != "" {
					continue
				}
				want := map[string]bool{}
				for _, pr := range c.Root.Props {
					want[pr.Name] = true
				}
				for _, tn := range gocheck.TypeNames(p.Report.File) {
					fs := gocheck.StructFields(p.Report.Fset, p.Report.File, tn)
					if len(fs) == 0 {
						continue
					}
					got := map[string]bool{}
					for _, f := range fs {
						if m := reJSONTag.FindStringSubmatch(f.Tag); m != nil {
							got[strings.TrimSuffix(m[1], ",omitempty")] = true
						}
					}
					same := len(got) == len(want)
					for k := range want {
						same = same && got[k]
					}
					if same {
						c.RootType = tn
						break
					}
				}
			}
		}
		for _, p := range progs {
			c := p.Meta.(*Case)
			if p.Proc.Exit != 0 || p.Src == nil {
				msg := firstLine(string(p.Proc.Stderr))
				rep.GenFail[classify(msg)]++
				if len(rep.GenFailEx) < 5 {
					rep.GenFailEx = append(rep.GenFailEx, msg+" :: "+string(jsonx.Marshal(c.Root.ToJSON())))
				}
				continue
			}
			if !p.Usable() {
				if os.Getenv("VERIF_DEBUG") != "" && reStratum.MatchString(c.Sig) {
					fmt.Fprintf(os.Stderr, "DEBUG unusable %s: %s\n", c.Sig, p.Report.Summary())
					for _, sb := range p.Subs {
						if sb.Report != nil {
							fmt.Fprintf(os.Stderr, "DEBUG   sub %s (%d bytes): %s\n", sb.Name, len(sb.Src), sb.Report.Summary())
						} else {
							fmt.Fprintf(os.Stderr, "DEBUG   sub %s (%d bytes): not checked\n", sb.Name, len(sb.Src))
						}
					}
				}
				rep.CompileFail[classify(p.Report.Summary())]++
				if len(rep.GenFailEx) < 10 {
					rep.GenFailEx = append(rep.GenFailEx, p.Report.Summary()+" :: "+string(jsonx.Marshal(c.Root.ToJSON())))
				}
				continue
			}
			rep.Usable++
		}
		if err := runBatch(cfg, rep, ks, chunk); err != nil {
			return rep, err
		}
		if cfg.AfterBatch != nil {
			cfg.AfterBatch(chunk)
		}
		for _, p := range progs {
			if cfg.KeepRefused && p.Proc.Exit != 0 {
				continue
			}
			_ = os.RemoveAll(p.Dir)
			p.Src, p.Report = nil, nil
		}
	}
	rep.Wall = time.Since(t0)
	return rep, nil
}

// NewProgram lays out the generator invocation of a case (root file, extra files, group members, options).
func NewProgram(env *batch.Env, c *Case, id string) *batch.Program {
	rf := c.RootFile
	if rf == "" {
		rf = "root.json"
	}
	var data []byte
	if c.YAML {
		data = sg.ToYAML(c.Root.ToJSON(), sg.YAMLBlock)
	} else {
		data = jsonx.MarshalIndent(c.Root.ToJSON())
	}
	in := rf
	if c.Cwd != "" {
		if rel, err := filepath.Rel(c.Cwd, rf); err == nil {
			in = rel
		}
	}
	p := &batch.Program{ID: id, Files: append([]batch.File{{Path: rf, Data: data}}, c.Extra...), Args: c.Args, Inputs: []string{in}, Cwd: c.Cwd, Meta: c, SubNames: c.SubPkgs}
	if c.AbsInput {
		p.Inputs = []string{filepath.Join(env.St.Root, "progs", p.ID, rf)}
	}
	if c.Input != "" {
		p.Inputs = []string{c.Input}
	}
	for gi, gc := range c.Group {
		if gc.RootFile == "" {
			gc.RootFile = fmt.Sprintf("group%d.json", gi)
		}
		p.Files = append(p.Files, batch.File{Path: gc.RootFile, Data: jsonx.MarshalIndent(gc.Root.ToJSON())})
		p.Inputs = append(p.Inputs, gc.RootFile)
	}
	return p
}

// rootTypeOf derives the root type name the tool gives to the case's root file.
func rootTypeOf(c *Case) string {
	if c.RootType != "" {
		return c.RootType
	}
	rf := c.RootFile
	if rf == "" {
		rf = "root.json"
	}
	rf = filepath.Base(rf)
	out := ""
	for _, part := range strings.FieldsFunc(rf, func(r rune) bool { return r == '.' || r == '-' || r == '_' }) {
		out += strings.ToUpper(part[:1]) + part[1:]
	}
	return out
}

func firstLine(s string) string {
	s = strings.TrimSpace(s)
	if i := strings.IndexByte(s, '\n'); i >= 0 {
		// prefer the "Failed:" line
		for _, l := range strings.Split(s, "\n") {
			if strings.Contains(l, "Failed:") {
				return l
			}
		}
		return s[:i]
	}
	return s
}

func classify(msg string) string {
	// strip specifics: quoted strings and numbers
	out := []rune{}
	inq := false
	for _, r := range msg {
		if r == '"' {
			inq = !inq
			continue
		}
		if inq || (r >= '0' && r <= '9') {
			continue
		}
		out = append(out, r)
	}
	s := string(out)
	if len(s) > 100 {
		s = s[:100]
	}
	return s
}

func runBatch(cfg *Config, rep *Report, ks *known.Set, cases []*Case) error {
	var progs []*batch.Program
	for _, c := range cases {
		if c.prog.Usable() && (c.Pair == nil || c.Pair.prog.Usable()) {
			progs = append(progs, c.prog)
			if c.Pair != nil {
				progs = append(progs, c.Pair.prog)
			}
		}
	}
	if len(progs) == 0 {
		return nil
	}
	drv, err := cfg.Env.BuildDriver(progs, cfg.Race)
	if err != nil {
		return err
	}
	defer os.RemoveAll(drv.Dir)
	for id, msg := range drv.Excluded {
		rep.CompileFail["compiler: "+classify(firstLine(msg))]++
		_ = id
	}
	// 3. documents
	var cmds []batch.Cmd
	var pend []pending
	var units []*Case
	for _, c := range cases {
		units = append(units, c)
		units = append(units, c.Group...)
	}
	for _, c := range units {
		if !c.prog.Usable() || drv.Excluded[c.prog.ID] != "" {
			continue
		}
		if c.Pair != nil && (!c.Pair.prog.Usable() || drv.Excluded[c.Pair.prog.ID] != "") {
			continue
		}
		r := sg.NewRng(cfg.Seed, fmt.Sprintf("%s-docs-%d", cfg.Prop, c.idx))
		g := &docgen.G{R: r, NoMulti: cfg.NoMulti, IntLimits: cfg.IntLim}
		docs := append([]docgen.Doc{}, c.Docs...)
		if !c.NoAuto {
			var valids []any
			for i := 0; i < cfg.Valid; i++ {
				m := docgen.Random
				if i == 0 {
					m = docgen.Maximal
				} else if i == 1 {
					m = docgen.Minimal
				}
				v, ok := g.Valid(c.Root, m)
				if !ok {
					rep.ModelSelfFail++
					continue
				}
				valids = append(valids, v)
				docs = append(docs, docgen.Doc{V: v, Class: "valid", Label: fmt.Sprintf("valid-%d", m)})
			}
			classes := cfg.Classes
			if c.Classes != nil {
				classes = c.Classes
			}
			if len(classes) > 0 {
				for i, v := range valids {
					if i >= 3 {
						break
					}
					docs = append(docs, g.Mutants(c.Root, v, classes, cfg.PerSite, cfg.IntLim)...)
				}
			}
		}
		if cfg.MaxDocs > 0 && len(docs) > cfg.MaxDocs {
			// keep valid ones, sample the rest
			var keep, rest []docgen.Doc
			for _, d := range docs {
				if d.Class == "valid" || d.Class == "pinned" {
					keep = append(keep, d)
				} else {
					rest = append(rest, d)
				}
			}
			r.Shuffle(len(rest), func(i, j int) { rest[i], rest[j] = rest[j], rest[i] })
			if n := cfg.MaxDocs - len(keep); n > 0 && n < len(rest) {
				rest = rest[:n]
			}
			docs = append(keep, rest...)
		}
		seen := map[string]bool{}
		for _, d := range docs {
			raw := jsonx.Marshal(d.V)
			if seen[string(raw)] {
				continue
			}
			seen[string(raw)] = true
			mr := model.Eval(c.Root, d.V, nil)
			rep.Evaluations++
			if mr.V == model.DontCare && d.Stated != "" {
				// the stratum states the verdict itself (the schema's meaning is plain, the model's abstention is about
				// neighbouring shapes)
				mr = model.Result{V: model.Accept}
				if d.Stated == "reject" {
					mr = model.Result{V: model.Reject, Faults: []model.Fault{{Rule: "stated", Path: ""}}}
				}
			}
			if mr.V == model.DontCare {
				for _, w := range mr.DontCares {
					rep.DontCare[strings.SplitN(w, "@", 2)[0]]++
				}
				// relational documents: the model has no opinion, but the two decoding paths must still agree (and
				// neither may panic)
				if !(cfg.Parity && d.Class == "formatparity") {
					continue
				}
			}
			if cfg.Own != nil && !c.AllOwn && !cfg.Own(d, mr) {
				continue
			}
			for _, mode := range cfg.Modes {
				rt := rootTypeOf(c)
				send, dmode := raw, mode
				if mode == "yamlblock" {
					send, dmode = sg.ToYAML(d.V, sg.YAMLBlock), "yaml"
				}
				cmds = append(cmds, batch.NewCmd(len(cmds), c.prog.ID, rt, dmode, send))
				pend = append(pend, pending{root: c.Root, c: c, prog: c.prog, doc: d, mr: mr, mode: mode, raw: raw})
				if c.Pair != nil {
					prt := rootTypeOf(c.Pair)
					cmds = append(cmds, batch.NewCmd(len(cmds), c.Pair.prog.ID, prt, mode, raw))
					pend = append(pend, pending{root: c.Pair.Root, c: c, prog: c.Pair.prog, doc: d, mr: mr, mode: mode, pair: true, raw: raw})
				}
			}
		}
	}
	shards := 16
	par := 1
	if cfg.Race {
		shards, par = 4, 8
	}
	results, st := drv.Run(cmds, shards, par)
	rep.Restarts += st.Restarts
	rep.Watchdog += st.Watchdog
	rep.RaceReports += st.RaceReports
	rep.RaceText = append(rep.RaceText, st.RaceText...)
	// 4. offline checker
	for i, p := range pend {
		res := results[i]
		decide(cfg, rep, ks, p, res)
		if cfg.Parity && p.mode == "json" && !p.pair {
			// the yaml twins are the next commands with the same document and program
			for k := i + 1; k < len(pend) && k < i+6; k++ {
				if pend[k].prog == p.prog && strings.HasPrefix(pend[k].mode, "yaml") && string(pend[k].raw) == string(p.raw) {
					parity(cfg, rep, ks, pend[k], res, results[k])
				}
			}
		}
		if p.pair && i > 0 && pend[i-1].prog == p.c.prog && string(pend[i-1].raw) == string(p.raw) && pend[i-1].mode == p.mode {
			pairCompare(cfg, rep, ks, pend[i-1], results[i-1], p, res)
		}
	}
	return nil
}

func addViolation(cfg *Config, rep *Report, v Violation) {
	key := v.Kind + "|" + v.Class + "|" + v.Expected + "|" + v.Observed + "|" + v.Sig
	for _, o := range rep.Violations {
		if o.Kind+"|"+o.Class+"|"+o.Expected+"|"+o.Observed+"|"+o.Sig == key {
			return
		}
	}
	if len(rep.Violations) >= 40 {
		return
	}
	b, _ := json.MarshalIndent(map[string]any{"property": cfg.Prop, "seed": cfg.Seed, "tier": cfg.Tier, "violation": v}, "", " ")
	h := sha1.Sum(b)
	v.Replay = filepath.Join(evid.ReplayDir(), fmt.Sprintf("%s-%x.json", cfg.Prop, h[:6]))
	_ = os.WriteFile(v.Replay, b, 0o644)
	rep.Violations = append(rep.Violations, v)
}

func mkViolation(p pending, kind, exp, obs, detail string) Violation {
	return Violation{Kind: kind, Class: p.doc.Class, Label: p.doc.Label, Path: p.doc.Path, Mode: p.mode, Expected: exp, Observed: obs, Detail: detail,
		Schema: json.RawMessage(jsonx.Marshal(p.root.ToJSON())), Args: p.prog.Args, Doc: string(p.raw), Sig: p.c.Sig}
}

func decide(cfg *Config, rep *Report, ks *known.Set, p pending, res *batch.Res) {
	if res == nil || res.V == "missing" || res.V == "noprog" || res.V == "watchdog" {
		rep.DontCare["inconclusive-"+func() string {
			if res == nil {
				return "nil"
			}
			if res.V == "noprog" && os.Getenv("VERIF_DEBUG") != "" {
				c := p.c
				if p.pair {
					c = p.c.Pair
				}
				return "noprog:" + rootTypeOf(c) + ":" + c.RootFile + ":" + p.prog.ID
			}
			return res.V
		}()]++
		return
	}
	rep.Decided++
	if m := reStratum.FindString(p.c.Sig); m != "" {
		rep.ByStratum[strings.TrimSuffix(m, "/")]++
	}
	rep.ByClass[p.doc.Class]++
	rep.Sigs[p.c.Sig+"|"+p.doc.Class] = true
	if p.mr.V == model.Accept {
		rep.ModelAccept++
	} else {
		rep.ModelReject++
	}
	if len(rep.Samples) < 6 && (rep.Decided%97 == 1) {
		rep.Samples = append(rep.Samples, map[string]any{"schema": json.RawMessage(jsonx.Marshal(p.c.Root.ToJSON())), "args": p.prog.Args, "doc": json.RawMessage(p.raw),
			"class": p.doc.Class, "mode": p.mode, "model": p.mr.V.String(), "observed": res.V, "err": res.Err})
	}
	switch res.V {
	case "panic", "fatal":
		// C19 territory but always a violation of totality; report under the running property as kind panic
		if sig := explainPanic(ks, p, res); sig != "" {
			rep.Known[sig]++
			return
		}
		addViolation(cfg, rep, mkViolation(p, res.V, p.mr.V.String(), res.V, res.Err+"\n"+res.Stack+res.Fatal))
		return
	}
	if cfg.Parity && strings.HasPrefix(p.mode, "yaml") {
		return // the YAML path is judged against the JSON path (parity), not against the model
	}
	if p.mr.V == model.DontCare {
		return // executed for parity / totality only
	}
	toolAccept := res.V == "ok"
	if toolAccept {
		rep.Accepts++
	} else {
		rep.Rejects++
	}
	if toolAccept != (p.mr.V == model.Accept) {
		if p.c.Witness != "" && ks.Has(p.c.Witness) {
			rep.Known[p.c.Witness]++
			return
		}
		if sig := Explain(ks, p.root, p.doc.V, toolAccept, p.prog.Args...); sig != "" {
			rep.Known[sig]++
			if _, ok := rep.KnownExamples[sig]; !ok {
				rep.KnownExamples[sig] = string(jsonx.Marshal(p.c.Root.ToJSON())) + " doc=" + string(p.raw)
			}
			return
		}
		det := res.Err
		if len(p.mr.Faults) > 0 {
			det += fmt.Sprintf(" | model faults: %v", p.mr.Faults)
		}
		addViolation(cfg, rep, mkViolation(p, "verdict", p.mr.V.String(), res.V, det))
		return
	}
	if toolAccept && cfg.Values {
		rep.ValueChecks++
		out, err := jsonx.Parse([]byte(res.Out))
		if err != nil {
			addViolation(cfg, rep, mkViolation(p, "value", "marshal ok", "marshal failed", res.OutErr+" "+res.Out))
			return
		}
		oo := model.OutOpts{SkipDefaults: !(cfg.Defaults || p.c.Defaults), SkipAddProps: !cfg.AddProps}
		diffs := model.CompareOut(p.root, p.doc.V, out, oo)
		if len(diffs) > 0 {
			if p.c.Witness != "" && ks.Has(p.c.Witness) {
				rep.Known[p.c.Witness]++
				return
			}
			if sig := explainValue(ks, p, diffs, out, oo); sig != "" {
				rep.Known[sig]++
				return
			}
			addViolation(cfg, rep, mkViolation(p, "value", string(p.raw), res.Out, diffs[0].String()))
			return
		}
		if cfg.ByValue {
			outv, err := jsonx.Parse([]byte(res.OutV))
			if err == nil {
				if d2 := model.CompareOut(p.root, p.doc.V, outv, oo); len(d2) > 0 {
					if sig := explainValue(ks, p, d2, outv, oo); sig != "" {
						rep.Known[sig]++
						return
					}
					addViolation(cfg, rep, mkViolation(p, "byvalue", string(p.raw), res.OutV, d2[0].String()))
				}
			}
		}
	}
}

func explainPanic(ks *known.Set, p pending, res *batch.Res) string {
	if ks.Has("null-into-addprops-struct") && strings.Contains(res.Err, "reflect.Set: value of type map[string]interface {} is not assignable to type map[string]") && strings.Contains(string(p.raw), "null") {
		return "null-into-addprops-struct"
	}
	return ""
}

// explainValue re-runs the value comparison with each listed value-defect model switched on;
// a finding explains the difference only if its model makes every difference disappear.
func explainValue(ks *known.Set, p pending, diffs []model.OutDiff, out any, base model.OutOpts) string {
	type vd struct {
		sig string
		set func(*model.OutOpts)
	}
	all := []vd{
		{"null-object-zero", func(o *model.OutOpts) { o.NullObjZero = true }},
		{"addprops-true-not-collected", func(o *model.OutOpts) { o.AddPropsTrueNo = true }},
		{"named-array-no-rules", func(o *model.OutOpts) { o.NamedArrayAnon = true }},
		{"minsized-uint8-array-is-bytes", func(o *model.OutOpts) { o.BytesAsBase64 = true }},
		{"byvalue-wrapped-enum", func(o *model.OutOpts) { o.WrappedEnum = true }},
		{"addprop-lax", func(o *model.OutOpts) { o.AddPropFloat = true }},
	}
	var listed []vd
	for _, d := range all {
		if ks.Has(d.sig) {
			listed = append(listed, d)
		}
	}
	for _, d := range listed {
		o := base
		d.set(&o)
		if len(model.CompareOut(p.root, p.doc.V, out, o)) == 0 {
			return d.sig
		}
	}
	if len(listed) > 1 {
		o := base
		var names []string
		for _, d := range listed {
			d.set(&o)
			names = append(names, d.sig)
		}
		if len(model.CompareOut(p.root, p.doc.V, out, o)) == 0 {
			return strings.Join(names, "+")
		}
	}
	return ""
}

// yamlHazard names the recorded YAML-path finding a document is exposed to, or "".
func yamlHazard(ks *known.Set, root *sg.Schema, doc any) string {
	sig := ""
	for _, st := range docgen.Sites(root, doc) {
		if a, ok := st.V.([]any); ok && ks.Has("yaml-null-elements") {
			for _, e := range a {
				if e == nil {
					sig = "yaml-null-elements"
				}
			}
		}
		if st.S.HasEnum && ks.Has("yaml-mixed-enum-int") {
			kinds := map[string]bool{}
			for _, e := range st.S.Enum {
				kinds[jsonx.Kind(e)] = true
			}
			wrapped := len(kinds) > 1 || (len(st.S.Types) == 1 && st.S.Types[0] == "null")
			if n, ok := st.V.(jsonx.Num); ok && wrapped && n.IsIntegral() {
				sig = "yaml-mixed-enum-int"
			}
		}
	}
	return sig
}

func parity(cfg *Config, rep *Report, ks *known.Set, p pending, j, y *batch.Res) {
	if j == nil || y == nil || j.V == "missing" || y.V == "missing" || j.V == "noprog" {
		return
	}
	rep.ParityChecks++
	bad, exp, obs, det := false, "", "", ""
	switch {
	case y.V == "panic" || y.V == "fatal":
		bad, exp, obs, det = true, "json:"+j.V, p.mode+":"+y.V, y.Err+"\n"+y.Stack
	case (j.V == "ok") != (y.V == "ok"):
		bad, exp, obs, det = true, "json:"+j.V, p.mode+":"+y.V, "json err="+j.Err+" | yaml err="+y.Err
	case j.V == "ok" && j.Out != y.Out:
		bad, exp, obs, det = true, j.Out, y.Out, "decoded values differ between the JSON and the YAML path"
	}
	if !bad {
		return
	}
	if sig := yamlHazard(ks, p.c.Root, p.doc.V); sig != "" {
		rep.Known[sig]++
		return
	}
	// A recorded JSON-side finding makes the JSON path itself deviate from the model: the divergence is that finding.
	if j.V == "panic" {
		if sig := explainPanic(ks, p, j); sig != "" {
			rep.Known[sig]++
			return
		}
	}
	if (j.V == "ok" || j.V == "err") && (y.V == "ok" || y.V == "err") && (j.V != y.V) {
		// both paths follow their own defect-model prediction: JSON with every listed defect, YAML without the
		// defects that only exist on the JSON path (UnmarshalJSON is called for null, UnmarshalYAML is not)
		dj, dy := &model.Defects{}, &model.Defects{}
		var names []string
		for sig, set := range VerdictDefects {
			if ks.Has(sig) {
				set(dj)
				names = append(names, sig)
				if sig != "null-object-zero" && sig != "null-enum-default" && sig != "null-named-scalar-default" {
					set(dy)
				}
			}
		}
		rj, ry := model.Eval(p.c.Root, p.doc.V, dj), model.Eval(p.c.Root, p.doc.V, dy)
		if rj.V != model.DontCare && ry.V != model.DontCare && (rj.V == model.Accept) == (j.V == "ok") && (ry.V == model.Accept) == (y.V == "ok") {
			sort.Strings(names)
			rep.Known["json-only:null-object-zero/null-enum-default"]++
			return
		}
	}
	if j.V == "ok" || j.V == "err" {
		jAcc := j.V == "ok"
		if jAcc != (p.mr.V == model.Accept) {
			if sig := Explain(ks, p.c.Root, p.doc.V, jAcc, p.prog.Args...); sig != "" {
				rep.Known[sig]++
				return
			}
		} else if jAcc && y.V == "ok" {
			if out, err := jsonx.Parse([]byte(j.Out)); err == nil {
				oo := model.OutOpts{SkipDefaults: true, SkipAddProps: true}
				if diffs := model.CompareOut(p.c.Root, p.doc.V, out, oo); len(diffs) > 0 {
					if sig := explainValue(ks, p, diffs, out, oo); sig != "" {
						rep.Known[sig]++
						return
					}
				}
			}
		}
	}
	addViolation(cfg, rep, mkViolation(p, "parity", exp, obs, det))
}

func pairCompare(cfg *Config, rep *Report, ks *known.Set, a pending, ra *batch.Res, b pending, rb *batch.Res) {
	// Both programs are judged against the model by decide() (verdict and decoded value vs the input document),
	// so agreement with each other follows; here only the number of compared pairs is recorded.
	if ra == nil || rb == nil {
		return
	}
	rep.PairChecks++
	if (ra.V == "ok") == (rb.V == "ok") {
		rep.PairAgree++
	}
}

// ProgramOf exposes the generated program of a case (after Run).
func ProgramOf(c *Case) *batch.Program {
	if c == nil {
		return nil
	}
	return c.prog
}
