package sg

import (
	"fmt"
	"path/filepath"
	"strings"

	"verif/internal/jsonx"
)

// SchemaFile is one schema document of a file set.
type SchemaFile struct {
	Path string // relative path inside the sandbox
	Root *Schema
	YAML bool
	ID   string
	Name string // short name (s0, s1, ...)
}

// Data renders the file.
func (f *SchemaFile) Data() []byte {
	if f.YAML {
		return ToYAML(f.Root.ToJSON(), YAMLBlock)
	}
	return jsonx.MarshalIndent(f.Root.ToJSON())
}

// RootType is the root type name the tool derives from the file name (no resolve-extension trimming).
func (f *SchemaFile) RootType() string {
	out := ""
	for _, part := range strings.FieldsFunc(filepath.Base(f.Path), func(r rune) bool { return r == '.' || r == '-' || r == '_' }) {
		out += strings.ToUpper(part[:1]) + part[1:]
	}
	return out
}

// FileSet is a set of schema files with cross references.
type FileSet struct {
	Files []*SchemaFile
}

// FSOpts steers GenFileSet.
type FSOpts struct {
	N             int  // number of files (0 = 1..4)
	IDs           bool // give files an $id
	Dirs          bool // spread over directories
	YAML          bool // allow YAML files
	Mutual        bool // allow references back to earlier files (cycles)
	Gen           Opts
	DistinctNames bool // definition/property names unique per file (no cross-file type-name collisions)
}

var fsDirs = []string{"", "a", "b", "a/sub", "c/d"}

// GenFileSet makes a random file set.
func GenFileSet(r *Rng, o FSOpts) *FileSet {
	n := o.N
	if n == 0 {
		n = 1 + r.IntN(4)
	}
	fs := &FileSet{}
	for i := 0; i < n; i++ {
		g := NewGen(r, o.Gen)
		root := g.Root()
		f := &SchemaFile{Root: root, Name: fmt.Sprintf("s%d", i)}
		if o.DistinctNames {
			// prefix definition names and property names with the file's name
			ren := map[string]string{}
			for k := range root.Defs {
				nn := fmt.Sprintf("F%d%s", i, root.Defs[k].Name)
				ren[root.Defs[k].Name] = nn
				root.Defs[k].Name = nn
			}
			root.Walk(func(x *Schema) {
				for _, pre := range []string{"#/$defs/", "#/definitions/"} {
					if strings.HasPrefix(x.Ref, pre) {
						if nn, ok := ren[x.Ref[len(pre):]]; ok {
							x.Ref = pre + nn
						}
					}
				}
			})
		}
		dir := ""
		if o.Dirs {
			dir = PickOf(r, fsDirs)
		}
		ext := ".json"
		if o.YAML && r.Chance(0.3) {
			ext = PickOf(r, []string{".yaml", ".yml"})
			f.YAML = true
		}
		f.Path = filepath.Join(dir, f.Name+ext)
		if o.IDs && r.Chance(0.8) {
			f.ID = fmt.Sprintf("https://example.com/%s", f.Name)
			root.ID = f.ID
			if r.Chance(0.2) {
				root.IDKey = "id"
			}
		}
		fs.Files = append(fs.Files, f)
	}
	// cross references: later files are referenced by earlier ones (acyclic), optionally back references
	for i, f := range fs.Files {
		for j, t := range fs.Files {
			if i == j {
				continue
			}
			if j < i && !o.Mutual {
				continue
			}
			p := 0.45
			if j < i {
				p = 0.15
			}
			if !r.Chance(p) {
				continue
			}
			rel, err := filepath.Rel(filepath.Dir(f.Path), t.Path)
			if err != nil {
				continue
			}
			if !strings.HasPrefix(rel, ".") && r.Chance(0.5) {
				rel = "./" + rel
			}
			ref := &Schema{Ref: rel, Target: t.Root}
			if len(t.Root.Defs) > 0 && r.Chance(0.4) {
				d := t.Root.Defs[r.IntN(len(t.Root.Defs))]
				key := t.Root.DefsKey
				if key == "" {
					key = "$defs"
				}
				ref = &Schema{Ref: rel + "#/" + key + "/" + d.Name, Target: d.S}
			}
			name := fmt.Sprintf("to%s", strings.ToUpper(t.Name[:1])+t.Name[1:])
			f.Root.Props = append(f.Root.Props, Prop{Name: name, S: ref})
			if r.Chance(0.4) {
				f.Root.Required = append(f.Root.Required, name)
			}
		}
	}
	return fs
}
