package sg

import (
	"bytes"
	"regexp"
	"strings"

	"verif/internal/jsonx"
)

// YAMLStyle selects the YAML rendering.
type YAMLStyle int

const (
	YAMLBlock     YAMLStyle = iota // block mappings/sequences, double-quoted strings
	YAMLFlow                       // flow style == JSON text
	YAMLBlockBare                  // block style, plain (unquoted) keys and safe scalars
	YAMLFlowBare                   // flow style with plain keys and scalars: the document starts with "{" and is NOT JSON
)

// ToYAML renders a jsonx value as YAML.
func ToYAML(v any, st YAMLStyle) []byte {
	if st == YAMLFlow {
		return jsonx.MarshalIndent(v)
	}
	if st == YAMLFlowBare {
		var b bytes.Buffer
		if o, ok := v.(jsonx.Obj); ok && len(o) > 0 {
			// one top-level member per line
			b.WriteString("{\n")
			for i, kv := range o {
				b.WriteString("  ")
				b.WriteString(flowKey(kv.K))
				b.WriteString(": ")
				writeFlow(&b, kv.V)
				if i < len(o)-1 {
					b.WriteByte(',')
				}
				b.WriteByte('\n')
			}
			b.WriteString("}\n")
		} else {
			writeFlow(&b, v)
			b.WriteByte('\n')
		}
		return b.Bytes()
	}
	var b bytes.Buffer
	writeYAML(&b, v, 0, st, false)
	if b.Len() == 0 || b.Bytes()[b.Len()-1] != '\n' {
		b.WriteByte('\n')
	}
	return b.Bytes()
}

func quoted(s string) string { return string(jsonx.Marshal(s)) }

func bareSafe(s string) bool {
	if s == "" {
		return false
	}
	for i, r := range s {
		ok := (r >= 'a' && r <= 'z') || (r >= 'A' && r <= 'Z') || r == '_' || r == '$' || (i > 0 && ((r >= '0' && r <= '9') || r == '-'))
		if !ok {
			return false
		}
	}
	switch strings.ToLower(s) {
	case "true", "false", "null", "yes", "no", "on", "off", "y", "n", "~":
		return false
	}
	return true
}

func scalarYAML(v any, st YAMLStyle) (string, bool) {
	switch t := v.(type) {
	case nil:
		return "null", true
	case bool:
		if t {
			return "true", true
		}
		return "false", true
	case jsonx.Num:
		return string(t), true
	case string:
		if st == YAMLBlockBare && bareSafe(t) {
			return t, true
		}
		return quoted(t), true
	case []any:
		if len(t) == 0 {
			return "[]", true
		}
	case jsonx.Obj:
		if len(t) == 0 {
			return "{}", true
		}
	}
	return "", false
}

func writeYAML(b *bytes.Buffer, v any, ind int, st YAMLStyle, inSeq bool) {
	pad := strings.Repeat("  ", ind)
	if s, ok := scalarYAML(v, st); ok {
		b.WriteString(s)
		b.WriteByte('\n')
		return
	}
	switch t := v.(type) {
	case jsonx.Obj:
		for i, kv := range t {
			if !(inSeq && i == 0) {
				b.WriteString(pad)
			}
			k := quoted(kv.K)
			if st == YAMLBlockBare && (bareSafe(kv.K) || canonicalNonString(kv.K)) {
				k = kv.K
			}
			b.WriteString(k)
			b.WriteByte(':')
			if s, ok := scalarYAML(kv.V, st); ok {
				b.WriteByte(' ')
				b.WriteString(s)
				b.WriteByte('\n')
			} else {
				b.WriteByte('\n')
				writeYAML(b, kv.V, ind+1, st, false)
			}
		}
	case []any:
		for _, e := range t {
			b.WriteString(pad)
			b.WriteString("- ")
			if s, ok := scalarYAML(e, st); ok {
				b.WriteString(s)
				b.WriteByte('\n')
			} else if _, isObj := e.(jsonx.Obj); isObj {
				writeYAML(b, e, ind+1, st, true)
			} else {
				// nested sequence: put it on its own lines
				b.WriteByte('\n')
				writeYAML(b, e, ind+1, st, false)
			}
		}
	}
}

var reCanonInt = regexp.MustCompile(`^(0|-?[1-9][0-9]{0,8})$`)
var reCanonDec = regexp.MustCompile(`^-?(0|[1-9][0-9]{0,5})\.[0-9]{0,3}[1-9]$`)

// canonicalNonString reports whether the key text is the canonical rendering of a YAML integer, decimal or
// boolean, so that writing it unquoted yields a non-string mapping key with the same text.
func canonicalNonString(s string) bool {
	return s == "true" || s == "false" || reCanonInt.MatchString(s) || reCanonDec.MatchString(s)
}

func flowKey(k string) string {
	if bareSafe(k) || canonicalNonString(k) {
		return k
	}
	return quoted(k)
}

func writeFlow(b *bytes.Buffer, v any) {
	switch t := v.(type) {
	case jsonx.Obj:
		b.WriteByte('{')
		for i, kv := range t {
			if i > 0 {
				b.WriteString(", ")
			}
			b.WriteString(flowKey(kv.K))
			b.WriteString(": ")
			writeFlow(b, kv.V)
		}
		b.WriteByte('}')
	case []any:
		b.WriteByte('[')
		for i, e := range t {
			if i > 0 {
				b.WriteString(", ")
			}
			writeFlow(b, e)
		}
		b.WriteByte(']')
	default:
		s, _ := scalarYAML(v, YAMLBlockBare)
		b.WriteString(s)
	}
}
