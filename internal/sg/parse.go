package sg

import (
	"fmt"
	"strings"

	"verif/internal/jsonx"
)

// FromJSON parses a JSON schema text (as produced by ToJSON) back into the AST and links same-file references.
func FromJSON(data []byte) (*Schema, error) {
	v, err := jsonx.Parse(data)
	if err != nil {
		return nil, err
	}
	s, err := fromValue(v)
	if err != nil {
		return nil, err
	}
	Link(s)
	return s, nil
}

// Link resolves same-file "#/$defs/X" / "#/definitions/X" / "#" references inside root.
func Link(root *Schema) {
	defs := map[string]*Schema{}
	for _, d := range root.Defs {
		defs[d.Name] = d.S
	}
	root.Walk(func(x *Schema) {
		if x.Ref == "" || x.Target != nil {
			return
		}
		if x.Ref == "#" {
			x.Target = root
			return
		}
		low := strings.ToLower(x.Ref)
		for _, pre := range []string{"#/$defs/", "#/definitions/"} {
			if strings.HasPrefix(low, pre) {
				if t, ok := defs[x.Ref[len(pre):]]; ok {
					x.Target = t
				}
			}
		}
	})
}

func fromValue(v any) (*Schema, error) {
	if b, ok := v.(bool); ok {
		return &Schema{BoolForm: Bp(b)}, nil
	}
	o, ok := v.(jsonx.Obj)
	if !ok {
		return nil, fmt.Errorf("schema must be object or boolean, got %T", v)
	}
	s := &Schema{}
	num := func(x any) (*float64, bool) {
		n, ok := x.(jsonx.Num)
		if !ok {
			return nil, false
		}
		f := n.Float()
		return &f, true
	}
	intv := func(x any) int {
		if n, ok := x.(jsonx.Num); ok {
			return int(n.Float())
		}
		return 0
	}
	props := func(x any) ([]Prop, error) {
		po, ok := x.(jsonx.Obj)
		if !ok {
			return nil, fmt.Errorf("expected object")
		}
		var out []Prop
		for _, kv := range po {
			ps, err := fromValue(kv.V)
			if err != nil {
				return nil, err
			}
			out = append(out, Prop{kv.K, ps})
		}
		return out, nil
	}
	list := func(x any) ([]*Schema, error) {
		a, ok := x.([]any)
		if !ok {
			return nil, fmt.Errorf("expected array")
		}
		var out []*Schema
		for _, e := range a {
			es, err := fromValue(e)
			if err != nil {
				return nil, err
			}
			out = append(out, es)
		}
		return out, nil
	}
	var err error
	for _, kv := range o {
		switch kv.K {
		case "$schema":
			s.Version, _ = kv.V.(string)
		case "$id", "id":
			s.ID, _ = kv.V.(string)
			s.IDKey = kv.K
		case "title":
			s.Title, _ = kv.V.(string)
		case "description":
			s.Desc, _ = kv.V.(string)
		case "$ref":
			s.Ref, _ = kv.V.(string)
		case "type":
			switch t := kv.V.(type) {
			case string:
				s.Types = []string{t}
			case []any:
				s.TypeAsList = len(t) == 1
				for _, e := range t {
					if str, ok := e.(string); ok {
						s.Types = append(s.Types, str)
					}
				}
			}
		case "enum":
			if a, ok := kv.V.([]any); ok {
				s.Enum, s.HasEnum = a, true
			}
		case "format":
			s.Format, _ = kv.V.(string)
		case "minimum":
			s.Min, _ = num(kv.V)
		case "maximum":
			s.Max, _ = num(kv.V)
		case "exclusiveMinimum", "exclusiveMaximum":
			var val any
			if b, ok := kv.V.(bool); ok {
				val = b
			} else if f, ok := num(kv.V); ok {
				val = *f
			}
			if kv.K == "exclusiveMinimum" {
				s.ExMin = val
			} else {
				s.ExMax = val
			}
		case "multipleOf":
			s.MultipleOf, _ = num(kv.V)
		case "minLength":
			s.MinLen = intv(kv.V)
		case "maxLength":
			s.MaxLen = intv(kv.V)
		case "pattern":
			s.Pattern, _ = kv.V.(string)
		case "items":
			if s.Items, err = fromValue(kv.V); err != nil {
				return nil, err
			}
		case "minItems":
			s.MinItems = intv(kv.V)
		case "maxItems":
			s.MaxItems = intv(kv.V)
		case "properties":
			if s.Props, err = props(kv.V); err != nil {
				return nil, err
			}
		case "required":
			s.Required = []string{}
			if a, ok := kv.V.([]any); ok {
				for _, e := range a {
					if str, ok := e.(string); ok {
						s.Required = append(s.Required, str)
					}
				}
			}
		case "additionalProperties":
			if b, ok := kv.V.(bool); ok {
				s.AddPropsBool = Bp(b)
			} else if s.AddProps, err = fromValue(kv.V); err != nil {
				return nil, err
			}
		case "allOf":
			if s.AllOf, err = list(kv.V); err != nil {
				return nil, err
			}
		case "anyOf":
			if s.AnyOf, err = list(kv.V); err != nil {
				return nil, err
			}
		case "default":
			s.Default, s.HasDefault = kv.V, true
		case "goJSONSchema":
			if eo, ok := kv.V.(jsonx.Obj); ok {
				s.Ext = eo
			}
		case "$defs", "definitions":
			if s.Defs, err = props(kv.V); err != nil {
				return nil, err
			}
			s.DefsKey = kv.K
		default:
			s.Extra = append(s.Extra, kv)
		}
	}
	return s, nil
}
