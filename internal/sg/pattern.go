package sg

import (
	"regexp"
	"sync"
)

var (
	reMu    sync.Mutex
	reCache = map[string]*regexp.Regexp{}
)

// MatchPattern matches with Go's regexp (patterns come from the RE2∩ECMA pool).
func MatchPattern(pat, s string) bool {
	reMu.Lock()
	re, ok := reCache[pat]
	if !ok {
		re, _ = regexp.Compile(pat)
		reCache[pat] = re
	}
	reMu.Unlock()
	return re != nil && re.MatchString(s)
}
