// Package sg holds the harness's own schema AST (independent of pkg/schemas), its renderers and generators.
package sg

import (
	"strconv"

	"verif/internal/jsonx"
)

// Prop is a named subschema (object property or definition).
type Prop struct {
	Name string
	S    *Schema
}

// Schema is one schema node. The zero value is the "anything" schema.
type Schema struct {
	Types      []string // nil = untyped
	TypeAsList bool     // spell a single type as ["t"]
	Enum       []any    // jsonx values; HasEnum distinguishes [] from absent
	HasEnum    bool

	Min, Max     *float64
	ExMin, ExMax any // nil | bool | float64
	MultipleOf   *float64

	MinLen, MaxLen int // 0 = not stated
	Pattern        string
	Format         string

	Items              *Schema
	MinItems, MaxItems int

	Props        []Prop
	Required     []string
	AddProps     *Schema // typed/complex additionalProperties
	AddPropsBool *bool   // additionalProperties: true/false

	Default    any
	HasDefault bool

	Ref    string  // as written
	Target *Schema // what the reference denotes (for the model)

	AllOf, AnyOf []*Schema

	Title, Desc string

	Defs    []Prop
	DefsKey string // "$defs" (default) or "definitions"
	ID      string
	IDKey   string // "$id" (default) or "id"
	Version string // $schema

	Ext   jsonx.Obj // goJSONSchema extension object
	Extra jsonx.Obj // extra keywords rendered verbatim (fault injection etc.)

	BoolForm *bool // render this schema as literal true/false
}

// Fp makes a float pointer.
func Fp(f float64) *float64 { return &f }

// Bp makes a bool pointer.
func Bp(b bool) *bool { return &b }

// Resolve follows references to the denoted schema.
func (s *Schema) Resolve() *Schema {
	for i := 0; s != nil && s.Ref != "" && s.Target != nil && i < 100; i++ {
		s = s.Target
	}
	return s
}

// NonNullType returns the single non-null type and whether null is allowed; ok=false if untyped or multi-typed.
func (s *Schema) NonNullType() (t string, nullable bool, ok bool) {
	if len(s.Types) == 1 {
		return s.Types[0], s.Types[0] == "null", true
	}
	if len(s.Types) == 2 {
		if s.Types[0] == "null" && s.Types[1] != "null" {
			return s.Types[1], true, true
		}
		if s.Types[1] == "null" && s.Types[0] != "null" {
			return s.Types[0], true, true
		}
	}
	return "", false, false
}

// Prop finds a declared property.
func (s *Schema) Prop(name string) *Schema {
	for _, p := range s.Props {
		if p.Name == name {
			return p.S
		}
	}
	return nil
}

// IsRequired reports whether name is listed in required.
func (s *Schema) IsRequired(name string) bool {
	for _, r := range s.Required {
		if r == name {
			return true
		}
	}
	return false
}

func num(f float64) jsonx.Num { return jsonx.F(f) }

// ToJSON renders the schema in a canonical key order.
func (s *Schema) ToJSON() any {
	if s.BoolForm != nil {
		return *s.BoolForm
	}
	o := jsonx.Obj{}
	add := func(k string, v any) { o = append(o, jsonx.KV{K: k, V: v}) }
	if s.Version != "" {
		add("$schema", s.Version)
	}
	if s.ID != "" {
		k := s.IDKey
		if k == "" {
			k = "$id"
		}
		add(k, s.ID)
	}
	if s.Title != "" {
		add("title", s.Title)
	}
	if s.Desc != "" {
		add("description", s.Desc)
	}
	if s.Ref != "" {
		add("$ref", s.Ref)
	}
	if len(s.Types) == 1 && !s.TypeAsList {
		add("type", s.Types[0])
	} else if len(s.Types) > 0 {
		a := make([]any, len(s.Types))
		for i, t := range s.Types {
			a[i] = t
		}
		add("type", a)
	}
	if s.HasEnum {
		add("enum", append([]any{}, s.Enum...))
	}
	if s.Format != "" {
		add("format", s.Format)
	}
	if s.Min != nil {
		add("minimum", num(*s.Min))
	}
	if s.Max != nil {
		add("maximum", num(*s.Max))
	}
	exb := func(k string, v any) {
		switch t := v.(type) {
		case bool:
			add(k, t)
		case float64:
			add(k, num(t))
		}
	}
	exb("exclusiveMinimum", s.ExMin)
	exb("exclusiveMaximum", s.ExMax)
	if s.MultipleOf != nil {
		add("multipleOf", num(*s.MultipleOf))
	}
	if s.MinLen != 0 {
		add("minLength", jsonx.N(int64(s.MinLen)))
	}
	if s.MaxLen != 0 {
		add("maxLength", jsonx.N(int64(s.MaxLen)))
	}
	if s.Pattern != "" {
		add("pattern", s.Pattern)
	}
	if s.Items != nil {
		add("items", s.Items.ToJSON())
	}
	if s.MinItems != 0 {
		add("minItems", jsonx.N(int64(s.MinItems)))
	}
	if s.MaxItems != 0 {
		add("maxItems", jsonx.N(int64(s.MaxItems)))
	}
	if len(s.Props) > 0 {
		po := jsonx.Obj{}
		for _, p := range s.Props {
			po = append(po, jsonx.KV{K: p.Name, V: p.S.ToJSON()})
		}
		add("properties", po)
	}
	if s.Required != nil {
		a := make([]any, len(s.Required))
		for i, r := range s.Required {
			a[i] = r
		}
		add("required", a)
	}
	if s.AddPropsBool != nil {
		add("additionalProperties", *s.AddPropsBool)
	} else if s.AddProps != nil {
		add("additionalProperties", s.AddProps.ToJSON())
	}
	if len(s.AllOf) > 0 {
		a := make([]any, len(s.AllOf))
		for i, b := range s.AllOf {
			a[i] = b.ToJSON()
		}
		add("allOf", a)
	}
	if len(s.AnyOf) > 0 {
		a := make([]any, len(s.AnyOf))
		for i, b := range s.AnyOf {
			a[i] = b.ToJSON()
		}
		add("anyOf", a)
	}
	if s.HasDefault {
		add("default", jsonx.Clone(s.Default))
	}
	if s.Ext != nil {
		add("goJSONSchema", jsonx.Clone(s.Ext))
	}
	for _, kv := range s.Extra {
		add(kv.K, jsonx.Clone(kv.V))
	}
	if len(s.Defs) > 0 {
		do := jsonx.Obj{}
		for _, p := range s.Defs {
			do = append(do, jsonx.KV{K: p.Name, V: p.S.ToJSON()})
		}
		k := s.DefsKey
		if k == "" {
			k = "$defs"
		}
		add(k, do)
	}
	return o
}

// Walk visits s and every subschema (not following references).
func (s *Schema) Walk(f func(*Schema)) {
	if s == nil {
		return
	}
	f(s)
	s.Items.Walk(f)
	for _, p := range s.Props {
		p.S.Walk(f)
	}
	s.AddProps.Walk(f)
	for _, b := range s.AllOf {
		b.Walk(f)
	}
	for _, b := range s.AnyOf {
		b.Walk(f)
	}
	for _, d := range s.Defs {
		d.S.Walk(f)
	}
}

// Clone deep-copies the tree; Target pointers are remapped when they point inside the tree.
func (s *Schema) Clone() *Schema {
	m := map[*Schema]*Schema{}
	n := s.clone(m)
	n.Walk(func(x *Schema) {
		if x.Target != nil {
			if t, ok := m[x.Target]; ok {
				x.Target = t
			}
		}
	})
	return n
}

func (s *Schema) clone(m map[*Schema]*Schema) *Schema {
	if s == nil {
		return nil
	}
	n := *s
	m[s] = &n
	n.Types = append([]string(nil), s.Types...)
	if s.Enum != nil {
		n.Enum = jsonx.Clone(s.Enum).([]any)
	}
	cf := func(p *float64) *float64 {
		if p == nil {
			return nil
		}
		v := *p
		return &v
	}
	n.Min, n.Max, n.MultipleOf = cf(s.Min), cf(s.Max), cf(s.MultipleOf)
	n.Items = s.Items.clone(m)
	n.Props = cloneProps(s.Props, m)
	n.Defs = cloneProps(s.Defs, m)
	if s.Required != nil {
		n.Required = append([]string{}, s.Required...)
	}
	n.AddProps = s.AddProps.clone(m)
	if s.AddPropsBool != nil {
		n.AddPropsBool = Bp(*s.AddPropsBool)
	}
	n.Default = jsonx.Clone(s.Default)
	n.AllOf = cloneList(s.AllOf, m)
	n.AnyOf = cloneList(s.AnyOf, m)
	if s.Ext != nil {
		n.Ext = jsonx.Clone(s.Ext).(jsonx.Obj)
	}
	if s.Extra != nil {
		n.Extra = jsonx.Clone(s.Extra).(jsonx.Obj)
	}
	return &n
}

func cloneProps(ps []Prop, m map[*Schema]*Schema) []Prop {
	if ps == nil {
		return nil
	}
	n := make([]Prop, len(ps))
	for i, p := range ps {
		n[i] = Prop{p.Name, p.S.clone(m)}
	}
	return n
}

func cloneList(l []*Schema, m map[*Schema]*Schema) []*Schema {
	if l == nil {
		return nil
	}
	n := make([]*Schema, len(l))
	for i, s := range l {
		n[i] = s.clone(m)
	}
	return n
}

// Sig is a short structural signature used for coverage accounting.
func (s *Schema) Sig() string {
	if s == nil {
		return "-"
	}
	r := ""
	if s.Ref != "" {
		return "ref(" + s.Target.Sig() + ")"
	}
	for _, t := range s.Types {
		r += t[:2]
	}
	if s.HasEnum {
		r += "E" + strconv.Itoa(len(s.Enum))
	}
	if s.Min != nil {
		r += "m"
	}
	if s.Max != nil {
		r += "M"
	}
	switch s.ExMin.(type) {
	case bool:
		r += "xb"
	case float64:
		r += "xn"
	}
	switch s.ExMax.(type) {
	case bool:
		r += "Xb"
	case float64:
		r += "Xn"
	}
	if s.MultipleOf != nil {
		r += "%"
	}
	if s.MinLen != 0 {
		r += "l"
	}
	if s.MaxLen != 0 {
		r += "L"
	}
	if s.Pattern != "" {
		r += "p"
	}
	if s.Format != "" {
		r += "f:" + s.Format
	}
	if s.MinItems != 0 {
		r += "i"
	}
	if s.MaxItems != 0 {
		r += "I"
	}
	if s.HasDefault {
		r += "d"
	}
	if s.Items != nil {
		r += "[" + s.Items.Sig() + "]"
	}
	if len(s.Props) > 0 {
		r += "{"
		for i, p := range s.Props {
			if i > 0 {
				r += ","
			}
			if s.IsRequired(p.Name) {
				r += "!"
			}
			r += p.S.Sig()
		}
		r += "}"
	}
	if s.AddProps != nil {
		r += "+(" + s.AddProps.Sig() + ")"
	}
	if s.AddPropsBool != nil {
		r += "+" + strconv.FormatBool(*s.AddPropsBool)
	}
	if len(s.AllOf) > 0 {
		r += "all("
		for _, b := range s.AllOf {
			r += b.Sig() + ";"
		}
		r += ")"
	}
	if len(s.AnyOf) > 0 {
		r += "any("
		for _, b := range s.AnyOf {
			r += b.Sig() + ";"
		}
		r += ")"
	}
	return r
}
