package sg

import (
	"fmt"
	"math"
	"math/rand/v2"

	"verif/internal/jsonx"
)

// Rng wraps a PCG stream with helpers.
type Rng struct{ *rand.Rand }

// NewRng derives a deterministic stream from (seed, salt).
func NewRng(seed uint64, salt string) *Rng {
	h := uint64(1469598103934665603)
	for i := 0; i < len(salt); i++ {
		h ^= uint64(salt[i])
		h *= 1099511628211
	}
	return &Rng{rand.New(rand.NewPCG(seed, h))}
}

func (r *Rng) Chance(p float64) bool { return r.Float64() < p }
func (r *Rng) Pick(n int) int        { return r.IntN(n) }
func PickOf[T any](r *Rng, xs []T) T { return xs[r.IntN(len(xs))] }

// Weighted picks an index by weight.
func (r *Rng) Weighted(ws []float64) int {
	t := 0.0
	for _, w := range ws {
		t += w
	}
	x := r.Float64() * t
	for i, w := range ws {
		if x < w {
			return i
		}
		x -= w
	}
	return len(ws) - 1
}

// Pat is a pattern from the RE2∩ECMA pool.
type Pat struct {
	Re string
}

// Patterns is the pool of patterns (no backticks, valid in both dialects).
var Patterns = []string{
	`^[a-z]+$`, `^[A-Z][a-z]*$`, `^[0-9]{2,4}$`, `^a.*z$`, `^(foo|bar)`, `[0-9]`, `^[0-9]+-[a-z]+$`, `^[^@]+@[^@]+$`, `^.{2,5}$`, `b$`,
}

// Opts steers the random schema generator.
type Opts struct {
	MaxDepth        int
	Hazard          bool // allow triggers of recorded defects
	NoFormats       bool
	NoEnums         bool
	NoDefaults      bool
	NoAnnotations   bool // no readOnly / writeOnly / deprecated / examples / $comment keywords
	ComposeDefaults bool // defaults on the properties of allOf/anyOf branches (generation-level checks only)
	NoRefDefaults   bool // no default keyword next to a $ref
	NoAddProps      bool
	NoNullable      bool
	NoRefs          bool
	NoCompose       bool // allOf/anyOf
	NoNestArr       bool
	IntLimits       bool               // use 8/16/32/64-bit limits as integer bounds
	Descs           bool               // attach descriptions/titles
	YAMLSafe        bool               // avoid values that are hazardous under the YAML path
	W               map[string]float64 // weight overrides by subject kind
	PNullable       float64            // probability of making a typed subject nullable (default 0.15)
	PDefault        float64            // probability of a default on an optional property (default 0.25)
	PAddProps       float64            // probability of additionalProperties on an object (default 0.2)
	DescPool        []string           // description texts (with Descs)
	Titles          []string           // title texts
	Names           []string           // property-name pool (default: plain ASCII names)
	AnyBranch       bool               // anyOf/allOf branches may also be map objects, arrays, primitives or null
	AddPropsTrue    bool               // objects may say additionalProperties: true
	NullType        bool               // properties/items of type "null"
	RootKinds       bool               // the root may be an array, a scalar or an enum instead of an object
}

// Gen is a random schema generator.
type Gen struct {
	R    *Rng
	O    Opts
	defs []Prop
	nDef int
}

// NewGen creates a generator.
func NewGen(r *Rng, o Opts) *Gen {
	if o.MaxDepth == 0 {
		o.MaxDepth = 3
	}
	return &Gen{R: r, O: o}
}

var propNames = []string{"alpha", "beta", "gamma", "delta", "eps", "zeta", "eta", "theta", "iota", "kappa", "lam", "mu", "nu", "xi", "omi", "pi", "rho", "sig", "tau", "ups"}

// Root makes a root object schema with nProps properties drawn from the subject generator.
func (g *Gen) Root() *Schema {
	g.defs = nil
	g.nDef = 0
	s := g.Object(0, true)
	if g.O.RootKinds && g.R.Chance(0.12) {
		switch g.R.IntN(5) {
		case 0:
			s = &Schema{Types: []string{"array"}, Items: g.Object(1, false), MinItems: g.R.IntN(2)}
		case 1:
			s = g.String()
			s.Format = ""
		case 2:
			s = g.Integer()
		case 3:
			// a root schema without "type" emits no code at all (documented behaviour): only typed enums at the root
			if e := g.Enum(); len(e.Types) == 1 {
				s = e
			}
		case 4:
			s = &Schema{Types: []string{"array"}, Items: g.String()}
		}
	}
	s.Defs = g.defs
	if len(s.Defs) > 0 && g.R.Chance(0.3) {
		s.DefsKey = "definitions"
		s.Walk(func(x *Schema) {
			if x.Ref != "" && len(x.Ref) > 8 && x.Ref[:8] == "#/$defs/" {
				x.Ref = "#/definitions/" + x.Ref[8:]
			}
		})
	}
	return s
}

// Subject makes a random schema of any kind for a property/item position.
func (g *Gen) Subject(depth int) *Schema {
	r := g.R
	names := []string{"string", "integer", "number", "boolean", "array", "object", "enum", "untyped", "ref", "compose", "map"}
	w := []float64{3, 3, 2.5, 1, 2, 2, 2, 0.6, 1.2, 0.8, 0.5}
	for i, n := range names {
		if v, ok := g.O.W[n]; ok {
			w[i] = v
		}
	}
	if depth >= g.O.MaxDepth {
		w[4], w[5], w[8], w[9], w[10] = 0, 0, w[8]*0.25, 0, 0
	}
	if g.O.NoEnums {
		w[6] = 0
	}
	if g.O.NoRefs {
		w[8] = 0
	}
	if g.O.NoCompose {
		w[9] = 0
	}
	var s *Schema
	switch r.Weighted(w) {
	case 0:
		s = g.String()
	case 1:
		s = g.Integer()
	case 2:
		s = g.Number()
	case 3:
		s = &Schema{Types: []string{"boolean"}}
	case 4:
		s = g.Array(depth)
	case 5:
		s = g.Object(depth+1, false)
	case 6:
		s = g.Enum()
	case 7:
		s = &Schema{}
		if g.O.NullType && r.Chance(0.4) {
			s = &Schema{Types: []string{"null"}}
		}
	case 8:
		// several referrers of one definition: reuse an existing definition now and then
		if len(g.defs) > 0 && r.Chance(0.35) {
			d := g.defs[r.IntN(len(g.defs))]
			return &Schema{Ref: "#/$defs/" + d.Name, Target: d.S}
		}
		return g.RefTo(g.defSubject(depth))
	case 9:
		s = g.Compose(depth)
	case 10:
		s = g.MapObject(depth)
	}
	pn := g.O.PNullable
	if pn == 0 {
		pn = 0.15
	}
	if !g.O.NoNullable && len(s.Types) == 1 && s.Types[0] != "null" && !s.HasEnum && r.Chance(pn) {
		if r.Chance(0.5) {
			s.Types = []string{s.Types[0], "null"}
		} else {
			s.Types = []string{"null", s.Types[0]}
		}
	}
	if !g.O.NoAnnotations && s.Ref == "" && r.Chance(0.12) {
		// annotation keywords: they say nothing about which documents are valid
		switch r.IntN(6) {
		case 0:
			s.Extra = append(s.Extra, jsonx.KV{K: "readOnly", V: true})
		case 1:
			s.Extra = append(s.Extra, jsonx.KV{K: "writeOnly", V: true})
		case 2:
			s.Extra = append(s.Extra, jsonx.KV{K: "deprecated", V: true})
		case 3:
			s.Extra = append(s.Extra, jsonx.KV{K: "examples", V: []any{"ex", jsonx.N(1), nil}})
		case 4:
			s.Extra = append(s.Extra, jsonx.KV{K: "$comment", V: "a note to maintainers"})
		case 5:
			s.Extra = append(s.Extra, jsonx.KV{K: "x-vendor-extension", V: jsonx.Obj{{K: "k", V: true}}})
		}
	}
	if g.O.Descs && r.Chance(0.3) {
		pool := Descriptions
		if g.O.DescPool != nil {
			pool = g.O.DescPool
		}
		s.Desc = PickOf(r, pool)
	}
	if g.O.Titles != nil && r.Chance(0.2) {
		s.Title = PickOf(r, g.O.Titles)
	}
	return s
}

// Descriptions is a pool of benign description texts (hostile ones live in the C01 check).
var Descriptions = []string{"A field.", "Some longer description that certainly needs to be wrapped by the emitter because it is long.", "multi\nline", "with \"quotes\" and 'apostrophes'", "unicode: héllo wörld ✓"}

func (g *Gen) defSubject(depth int) *Schema {
	// definitions are generated without further nesting of refs most of the time
	r := g.R
	switch r.Weighted([]float64{3, 2, 2, 2, 1, 1}) {
	case 0:
		return g.Object(depth+1, false)
	case 1:
		return g.String()
	case 2:
		return g.Integer()
	case 3:
		return g.Enum()
	case 4:
		n := g.Number()
		if !g.O.Hazard {
			n.MultipleOf = nil // F24: named number + multipleOf does not compile
		}
		return n
	default:
		return g.Array(depth + 1)
	}
}

// RefTo registers s as a new definition and returns a reference to it.
func (g *Gen) RefTo(s *Schema) *Schema {
	g.nDef++
	name := fmt.Sprintf("Def%d", g.nDef)
	g.defs = append(g.defs, Prop{name, s})
	return &Schema{Ref: "#/$defs/" + name, Target: s}
}

// String makes a string schema with a random subset of constraints.
func (g *Gen) String() *Schema {
	r := g.R
	s := &Schema{Types: []string{"string"}}
	if !g.O.NoFormats && r.Chance(0.12) {
		s.Format = PickOf(r, []string{"date", "time", "date-time", "ipv4", "ipv6"})
		return s
	}
	if r.Chance(0.45) {
		s.MinLen = 1 + r.IntN(4)
	}
	if r.Chance(0.45) {
		s.MaxLen = s.MinLen + r.IntN(5)
		if s.MaxLen == 0 {
			s.MaxLen = 1 + r.IntN(5)
		}
	}
	if r.Chance(0.3) {
		s.Pattern = PickOf(r, Patterns)
	}
	return s
}

var smallInts = []float64{-10, -3, -1, 0, 1, 2, 3, 5, 7, 10, 100}
var fracs = []float64{-2.5, -0.75, 0.5, 1.5, 2.25, 3.5, 10.5}

// IntLimitPool holds the signed/unsigned type limits and their neighbours.
var IntLimitPool = []float64{
	-129, -128, -127, 126, 127, 128, 254, 255, 256,
	-32769, -32768, -32767, 32766, 32767, 32768, 65534, 65535, 65536,
	-2147483649, -2147483648, -2147483647, 2147483646, 2147483647, 2147483648, 4294967294, 4294967295, 4294967296,
	-9007199254740992, 9007199254740992, 0, 1, -1,
}

// IntLimitHazard holds bounds at or beyond 2^63: as float64 they are outside int64 and the tool's int64()
// conversion wraps (recorded finding int64-bound-overflow).
var IntLimitHazard = []float64{9223372036854775807, 18446744073709551615, -9223372036854775808, -9223372036854777856}

func (g *Gen) bounds(s *Schema, pool []float64) {
	r := g.R
	pick := func() float64 { return PickOf(r, pool) }
	lo, hi := pick(), pick()
	if lo > hi {
		lo, hi = hi, lo
	}
	if hi == lo {
		hi = lo + 3
	}
	mid := func() float64 {
		if r.Chance(0.3) {
			return pick()
		}
		return lo
	}
	// lower side
	switch r.IntN(7) {
	case 0: // none
	case 1, 2:
		s.Min = Fp(lo)
	case 3:
		s.Min = Fp(lo)
		s.ExMin = r.Chance(0.7)
	case 4:
		s.ExMin = lo
	case 5: // both numeric forms
		s.Min = Fp(lo)
		x := mid()
		if x > hi {
			x = lo
		}
		s.ExMin = x
	case 6:
		s.Min = Fp(lo)
		s.ExMin = lo - 1
	}
	switch r.IntN(7) {
	case 0:
	case 1, 2:
		s.Max = Fp(hi)
	case 3:
		s.Max = Fp(hi)
		s.ExMax = r.Chance(0.7)
	case 4:
		s.ExMax = hi
	case 5:
		s.Max = Fp(hi)
		s.ExMax = hi
	case 6:
		s.Max = Fp(hi)
		s.ExMax = hi + 1
	}
}

// Integer makes an integer schema.
func (g *Gen) Integer() *Schema {
	r := g.R
	s := &Schema{Types: []string{"integer"}}
	if r.Chance(0.7) {
		pool := smallInts
		if g.O.IntLimits && r.Chance(0.7) {
			pool = IntLimitPool
			if g.O.Hazard && r.Chance(0.3) {
				pool = append(append([]float64{}, IntLimitPool...), IntLimitHazard...)
			}
		}
		if g.O.Hazard && r.Chance(0.15) {
			pool = fracs
		}
		g.bounds(s, pool)
	}
	if r.Chance(0.2) {
		s.MultipleOf = Fp(PickOf(r, []float64{2, 3, 5, 10, 1}))
	}
	if !g.O.NoFormats && r.Chance(0.1) {
		s.Format = PickOf(r, []string{"int32", "int64", "uint8"}) // an annotation only
	}
	return s
}

// Number makes a number schema.
func (g *Gen) Number() *Schema {
	r := g.R
	s := &Schema{Types: []string{"number"}}
	if r.Chance(0.7) {
		pool := smallInts
		if r.Chance(0.5) {
			pool = fracs
		}
		g.bounds(s, pool)
	}
	if r.Chance(0.2) {
		s.MultipleOf = Fp(PickOf(r, []float64{0.25, 0.5, 1.5, 2, 3, 1, 1}))
	}
	if !g.O.NoFormats && r.Chance(0.12) {
		// on a number "format" is an annotation (OpenAPI style): it changes nothing about what is valid
		s.Format = PickOf(r, []string{"float", "double", "decimal"})
	}
	return s
}

// Enum value pools.
var (
	EnumStrings = []string{"red", "green", "blue", "amber", "dark red", "x", "1", "true", "null", "é", "100% cotton", "%d", "a%20b", "q\"uote", "back\\slash", "tick`s", "100%"}
	// EnumStringsHazard adds values whose constant names collide after identifier normalisation (F26).
	EnumStringsHazard = []string{"red", "Red", "dark red", "dark-red", "a b", "a-b", "x"}
	EnumInts          = []int64{0, 1, 2, 3, 7, -1, 42, 100}
	EnumNums          = []string{"0.5", "1.5", "2", "-3.25", "10", "0"}
)

// Enum makes an enum schema of a random kind.
func (g *Gen) Enum() *Schema {
	r := g.R
	s := &Schema{HasEnum: true}
	n := 1 + r.IntN(4)
	kinds := []float64{5, 2, 1.5, 0.7, 1.5} // string typed/untyped, integer, number, boolean, mixed
	if g.O.YAMLSafe {
		kinds[4] = 0
	}
	switch r.Weighted(kinds) {
	case 0:
		if r.Chance(0.7) {
			s.Types = []string{"string"}
		}
		pool := EnumStrings
		if g.O.Hazard && r.Chance(0.3) {
			pool = EnumStringsHazard
		}
		for _, i := range r.Perm(len(pool))[:n] {
			s.Enum = append(s.Enum, pool[i])
		}
		if r.Chance(0.1) {
			// a value listed twice is legal and adds nothing to the accepted set
			s.Enum = append(s.Enum, s.Enum[r.IntN(len(s.Enum))])
		}
	case 1:
		s.Types = []string{"integer"}
		for _, i := range r.Perm(len(EnumInts))[:n] {
			s.Enum = append(s.Enum, jsonx.N(EnumInts[i]))
		}
	case 2:
		if r.Chance(0.6) {
			s.Types = []string{"number"}
		}
		for _, i := range r.Perm(len(EnumNums))[:n] {
			s.Enum = append(s.Enum, jsonx.Num(EnumNums[i]))
		}
	case 3:
		if r.Chance(0.6) {
			s.Types = []string{"boolean"}
		}
		s.Enum = []any{true}
		if r.Chance(0.5) {
			s.Enum = append(s.Enum, false)
		}
	case 4:
		pool := []any{"a", "b", jsonx.N(1), jsonx.Num("2.5"), true, false, nil, "1"}
		if n < 2 {
			n = 2
		}
		for _, i := range r.Perm(len(pool))[:n] {
			s.Enum = append(s.Enum, pool[i])
		}
	}
	return s
}

// Array makes an array schema.
func (g *Gen) Array(depth int) *Schema {
	r := g.R
	s := &Schema{Types: []string{"array"}}
	var it *Schema
	for tries := 0; ; tries++ {
		it = g.Subject(depth + 1)
		if it.Ref != "" {
			break
		}
		if t, _, ok := it.NonNullType(); ok && t == "array" && g.O.NoNestArr {
			continue
		}
		break
	}
	s.Items = it
	if r.Chance(0.5) {
		s.MinItems = 1 + r.IntN(3)
	}
	if r.Chance(0.5) {
		s.MaxItems = s.MinItems + r.IntN(3)
		if s.MaxItems == 0 {
			s.MaxItems = 1 + r.IntN(3)
		}
	}
	return s
}

// Object makes an object schema with declared properties.
func (g *Gen) Object(depth int, root bool) *Schema {
	r := g.R
	s := &Schema{Types: []string{"object"}}
	n := 1 + r.IntN(4)
	if root {
		n = 2 + r.IntN(4)
	}
	names := propNames
	if g.O.Names != nil {
		names = g.O.Names
	}
	perm := r.Perm(len(names))
	if n > len(names) {
		n = len(names)
	}
	for i := 0; i < n; i++ {
		name := names[perm[i]]
		p := g.Subject(depth)
		s.Props = append(s.Props, Prop{name, p})
		if r.Chance(0.5) {
			s.Required = append(s.Required, name)
		} else if !g.O.NoDefaults && r.Chance(g.pDefault()) {
			g.addDefault(p)
		}
	}
	if !g.O.NoAddProps && r.Chance(g.pAddProps()) {
		switch r.IntN(6) {
		case 0:
			s.AddProps = &Schema{Types: []string{"string"}}
		case 1:
			s.AddProps = &Schema{Types: []string{"integer"}}
		case 2:
			s.AddProps = &Schema{Types: []string{"number"}}
		case 3:
			s.AddProps = &Schema{Types: []string{"boolean"}}
		case 4:
			s.AddPropsBool = Bp(false)
		case 5:
			s.AddProps = &Schema{Types: []string{"array"}, Items: &Schema{}}
		}
	} else if g.O.AddPropsTrue && r.Chance(0.15) {
		s.AddPropsBool = Bp(true)
	}
	return s
}

func (g *Gen) pDefault() float64 {
	if g.O.PDefault != 0 {
		return g.O.PDefault
	}
	return 0.25
}

func (g *Gen) pAddProps() float64 {
	if g.O.PAddProps != 0 {
		return g.O.PAddProps
	}
	return 0.2
}

// MapObject makes an object schema without declared properties.
func (g *Gen) MapObject(depth int) *Schema {
	r := g.R
	s := &Schema{Types: []string{"object"}}
	switch r.IntN(9) {
	case 0:
	case 1:
		s.AddProps = &Schema{Types: []string{"string"}}
	case 2:
		s.AddProps = &Schema{Types: []string{"integer"}}
	case 3:
		s.AddProps = &Schema{Types: []string{"boolean"}}
	case 4:
		s.AddProps = &Schema{Types: []string{"number"}}
	case 5: // nullable value type
		t := PickOf(r, []string{"integer", "string", "boolean", "number"})
		if r.Chance(0.5) {
			s.AddProps = &Schema{Types: []string{t, "null"}}
		} else {
			s.AddProps = &Schema{Types: []string{"null", t}}
		}
	case 6: // values of a named type
		if g.O.NoRefs {
			s.AddProps = &Schema{Types: []string{"integer"}}
		} else {
			s.AddProps = g.RefTo(g.defSubject(depth + 1))
		}
	case 7:
		s.AddProps = &Schema{Types: []string{"array"}, Items: &Schema{Types: []string{PickOf(r, []string{"integer", "string"})}}}
	case 8:
		s.AddProps = &Schema{Types: []string{"object"}, Props: []Prop{{"inner", &Schema{Types: []string{"integer"}}}}, Required: []string{"inner"}}
	}
	return s
}

// addDefault attaches a default valid for p where the harness knows how to make one.
func (g *Gen) addDefault(p *Schema) {
	r := g.R
	if p.Ref != "" && p.Target != nil && !g.O.NoRefDefaults {
		// a default stated where a named scalar / enum / scalar-array definition is referred to
		tgt := p.Target
		if tgt.Ref == "" && len(tgt.AllOf) == 0 && len(tgt.AnyOf) == 0 && tgt.Format == "" && r.Chance(0.6) {
			tt, nullable, ok := tgt.NonNullType()
			simple := ok && !nullable && (tt == "string" || tt == "integer" || tt == "number" || tt == "boolean")
			if ok && !nullable && tt == "array" && tgt.Items != nil && !tgt.HasEnum {
				it, inul, iok := tgt.Items.NonNullType()
				simple = iok && !inul && !tgt.Items.HasEnum && tgt.Items.Ref == "" && tgt.Items.Format == "" && (it == "string" || it == "integer" || it == "number" || it == "boolean")
			}
			if tgt.HasEnum {
				simple = len(tgt.Types) == 1 && (tgt.Types[0] == "string" || tgt.Types[0] == "integer")
			}
			if simple {
				tmp := tgt.Clone()
				tmp.HasDefault, tmp.Default = false, nil
				g.addDefault(tmp)
				if tmp.HasDefault {
					p.Default, p.HasDefault = tmp.Default, true
				}
			}
		}
		return
	}
	if p.Ref != "" || len(p.AllOf) > 0 || len(p.AnyOf) > 0 {
		return
	}
	t, nullable, ok := p.NonNullType()
	if p.HasEnum {
		if len(p.Types) == 0 && !g.O.Hazard {
			// untyped enums of one primitive kind are fine; mixed are wrapped (F25)
			k := jsonx.Kind(p.Enum[0])
			for _, e := range p.Enum {
				if jsonx.Kind(e) != k {
					return
				}
			}
		}
		p.Default, p.HasDefault = p.Enum[r.IntN(len(p.Enum))], true
		return
	}
	if !ok || (nullable && !g.O.Hazard) {
		return
	}
	switch t {
	case "string":
		if p.Format != "" && !g.O.Hazard {
			return
		}
		cands := []string{"abc", "ab", "a", "abcd", "foo1z", "12", "Abc", "x@y", "12-ab"}
		if r.Chance(0.3) {
			// defaults that are hostile to format strings and Go string literals
			cands = append([]string{"%Y-%m-%d", "a%20b", "100%", "%d%s", "q\"t", "b\\s", "t`k", "nl\nx", "cr\r\nlf\r\n", "c\rr", "t\tb\n"}, cands...)
			r.Shuffle(11, func(i, j int) { cands[i], cands[j] = cands[j], cands[i] })
		}
		for _, c := range cands {
			if okString(p, c) {
				p.Default, p.HasDefault = c, true
				return
			}
		}
	case "integer", "number":
		for _, c := range []float64{0, 1, 2, 3, 5, 6, 10, 30, -1, -3, 100, 127, 255, 1.5, 0.5, 2.25} {
			if t == "integer" && c != math.Trunc(c) {
				continue
			}
			if okNumber(p, c) {
				p.Default, p.HasDefault = jsonx.F(c), true
				return
			}
		}
	case "boolean":
		p.Default, p.HasDefault = r.Chance(0.5), true
	case "array":
		if p.Items == nil || p.Items.Ref != "" {
			return
		}
		it, inul, ok := p.Items.NonNullType()
		if !ok || p.Items.HasEnum || p.MinItems > 2 || (inul && !g.O.Hazard) {
			return
		}
		var el any
		switch it {
		case "string":
			if p.Items.Format != "" || !okString(p.Items, "abc") {
				return
			}
			el = "abc"
		case "integer":
			if !okNumber(p.Items, 2) {
				return
			}
			el = jsonx.N(2)
		case "boolean":
			el = true
		default:
			return
		}
		n := p.MinItems
		if n == 0 {
			n = 1
		}
		a := []any{}
		for i := 0; i < n; i++ {
			a = append(a, el)
		}
		p.Default, p.HasDefault = a, true
	}
}

func okString(p *Schema, c string) bool {
	n := len([]rune(c))
	if p.MinLen != 0 && n < p.MinLen {
		return false
	}
	if p.MaxLen != 0 && n > p.MaxLen {
		return false
	}
	if p.Pattern != "" {
		return MatchPattern(p.Pattern, c)
	}
	return true
}

func okNumber(p *Schema, c float64) bool {
	if p.Min != nil {
		if b, ok := p.ExMin.(bool); ok && b {
			if !(c > *p.Min) {
				return false
			}
		} else if !(c >= *p.Min) {
			return false
		}
	}
	if f, ok := p.ExMin.(float64); ok && !(c > f) {
		return false
	}
	if p.Max != nil {
		if b, ok := p.ExMax.(bool); ok && b {
			if !(c < *p.Max) {
				return false
			}
		} else if !(c <= *p.Max) {
			return false
		}
	}
	if f, ok := p.ExMax.(float64); ok && !(c < f) {
		return false
	}
	if p.MultipleOf != nil {
		q := c / *p.MultipleOf
		if q != math.Trunc(q) {
			return false
		}
	}
	return true
}

// Compose makes an allOf/anyOf of object branches.
func (g *Gen) Compose(depth int) *Schema {
	r := g.R
	n := 1 + r.IntN(3)
	var bs []*Schema
	used := map[string]bool{}
	for i := 0; i < n; i++ {
		b := &Schema{Types: []string{"object"}}
		np := 1 + r.IntN(2)
		for k := 0; k < np; k++ {
			name := fmt.Sprintf("b%dk%d", i, k)
			if used[name] {
				continue
			}
			used[name] = true
			var p *Schema
			switch r.IntN(4) {
			case 0:
				p = g.String()
				p.Format = ""
			case 1:
				p = g.Integer()
			case 2:
				p = &Schema{Types: []string{"boolean"}}
			default:
				p = g.Number()
			}
			b.Props = append(b.Props, Prop{name, p})
			if r.Chance(0.6) {
				b.Required = append(b.Required, name)
			} else if g.O.ComposeDefaults && r.Chance(0.5) {
				g.addDefault(p)
			}
		}
		if g.O.AnyBranch && r.Chance(0.4) {
			switch r.IntN(5) {
			case 0:
				b = g.MapObject(depth + 1)
			case 1:
				b = &Schema{Types: []string{"null"}}
			case 2:
				b = g.String()
			case 3:
				b = &Schema{Types: []string{"array"}, Items: g.Integer()}
			case 4:
				b = g.Integer()
			}
		}
		if !g.O.NoRefs && r.Chance(0.3) && len(b.Props) > 0 {
			b = g.RefTo(b)
		}
		bs = append(bs, b)
	}
	s := &Schema{}
	if r.Chance(0.5) {
		s.Types = []string{"object"}
	}
	if r.Chance(0.5) {
		s.AllOf = bs
	} else {
		s.AnyOf = bs
	}
	return s
}
