// Package known reads /verif/KNOWN_FINDINGS.txt. The file is never written at run time.
package known

import (
	"bufio"
	"os"
	"path/filepath"
	"strings"
)

// Entry is one line of the file.
type Entry struct {
	Status string // known | fixed
	Prop   string
	Sig    string // for known: the defect-model / trigger signature; for fixed: the commit
	Text   string
}

// Set is the parsed file.
type Set struct {
	Entries []Entry
}

// Path of the findings file.
func Path() string {
	if p := os.Getenv("VERIF_KNOWN"); p != "" {
		return p
	}
	exe, _ := os.Executable()
	d := filepath.Dir(filepath.Dir(exe))
	if _, err := os.Stat(filepath.Join(d, "KNOWN_FINDINGS.txt")); err == nil {
		return filepath.Join(d, "KNOWN_FINDINGS.txt")
	}
	return "/verif/KNOWN_FINDINGS.txt"
}

// Load parses the file; a missing file is an empty set.
func Load() *Set {
	s := &Set{}
	f, err := os.Open(Path())
	if err != nil {
		return s
	}
	defer f.Close()
	sc := bufio.NewScanner(f)
	for sc.Scan() {
		l := strings.TrimSpace(sc.Text())
		if l == "" || strings.HasPrefix(l, "#") {
			continue
		}
		var e Entry
		switch {
		case strings.HasPrefix(l, "known:"):
			e.Status = "known"
			l = strings.TrimSpace(l[6:])
		case strings.HasPrefix(l, "fixed:"):
			e.Status = "fixed"
			l = strings.TrimSpace(l[6:])
		default:
			continue
		}
		head, text, _ := strings.Cut(l, "::")
		e.Text = strings.TrimSpace(text)
		for _, f := range strings.Fields(head) {
			switch {
			case strings.HasPrefix(f, "property="):
				e.Prop = f[9:]
			case strings.HasPrefix(f, "sig="):
				e.Sig = f[4:]
			case strings.HasPrefix(f, "commit="):
				e.Sig = f[7:]
			}
		}
		s.Entries = append(s.Entries, e)
	}
	return s
}

// Has reports whether a known (unrepaired) finding with this signature is listed.
func (s *Set) Has(sig string) bool {
	for _, e := range s.Entries {
		if e.Status == "known" && e.Sig == sig {
			return true
		}
	}
	return false
}

// Get returns the entry for sig.
func (s *Set) Get(sig string) (Entry, bool) {
	for _, e := range s.Entries {
		if e.Status == "known" && e.Sig == sig {
			return e, true
		}
	}
	return Entry{}, false
}

// Sigs lists known signatures.
func (s *Set) Sigs() []string {
	var out []string
	for _, e := range s.Entries {
		if e.Status == "known" {
			out = append(out, e.Sig)
		}
	}
	return out
}
