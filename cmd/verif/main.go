// Command verif runs the runtime monitors for the go-jsonschema properties.
package main

import (
	"flag"
	"fmt"
	"os"
	"strconv"

	"verif/internal/checks"
)

func main() {
	if len(os.Args) < 2 {
		fmt.Fprintln(os.Stderr, "usage: verif check <ID> [--tier quick|thorough] | verif list")
		os.Exit(2)
	}
	switch os.Args[1] {
	case "check":
		fs := flag.NewFlagSet("check", flag.ExitOnError)
		tier := fs.String("tier", "", "quick|thorough")
		verbose := fs.Bool("v", false, "verbose")
		if len(os.Args) < 3 {
			fmt.Fprintln(os.Stderr, "missing property id")
			os.Exit(2)
		}
		id := os.Args[2]
		_ = fs.Parse(os.Args[3:])
		if *tier == "" {
			*tier = os.Getenv("VERIF_TIER")
		}
		if *tier == "" {
			*tier = "quick"
		}
		seed := uint64(20260926)
		if s := os.Getenv("VERIF_SEED"); s != "" {
			if v, err := strconv.ParseInt(s, 10, 64); err == nil {
				seed = uint64(v)
			}
		}
		os.Exit(checks.Main(id, *tier, seed, *verbose))
	case "list":
		for _, id := range checks.IDs() {
			fmt.Println(id)
		}
	default:
		fmt.Fprintln(os.Stderr, "unknown command", os.Args[1])
		os.Exit(2)
	}
}
