module verif

go 1.23.0
